import GarbleVerif.Proofs.ArithCmp
/-! The array multiplier of compile.rs:991-1018 computes the full product — every width. -/
namespace GV
namespace Arith

def hiVal (st : MulSt) : Nat := toNatLE st.s + 2 ^ st.s.length * st.c.toNat

theorem toNatLE_tail_snoc (s : List Bool) (c : Bool) (hs : 0 < s.length) :
    (s.headD false).toNat + 2 * toNatLE (s.tail ++ [c]) = toNatLE s + 2 ^ s.length * c.toNat := by
  cases s with
  | nil => simp at hs
  | cons b t =>
    simp only [List.headD_cons, List.tail_cons, toNatLE, toNatLE_append, List.length_cons, Nat.pow_succ,
      Nat.mul_right_comm _ 2 _, Nat.mul_zero, Nat.add_zero]
    omega

/-- row step: hiVal' = xb·Y + hiVal / 2 (and the dropped bit is hiVal % 2) -/
theorem mulRow_spec (ys : List Bool) (st : MulSt) (xb : Bool) (hlen : st.s.length = ys.length) (hn : 0 < ys.length) :
    (mulRow ys st xb).s.length = ys.length ∧
    (st.s.headD false).toNat + 2 * hiVal (mulRow ys st xb) = 2 * (xb.toNat * toNatLE ys) + hiVal st := by
  have hzlen : (ys.map (xb && ·)).length = (st.s.tail ++ [st.c]).length := by
    simp [hlen]; omega
  have hadd := addLE_spec (ys.map (xb && ·)) (st.s.tail ++ [st.c]) false hzlen
  have hl := addLE_length (ys.map (xb && ·)) (st.s.tail ++ [st.c]) false hzlen
  have hts := toNatLE_tail_snoc st.s st.c (by omega)
  refine ⟨by simp [mulRow, hl], ?_⟩
  simp only [hiVal, mulRow, hl, List.length_map, hlen]
  simp only [List.length_map, toNatLE_map_and, Bool.toNat_false, Nat.add_zero] at hadd
  rw [hlen] at hts
  omega


def MulInv (ys : List Bool) (st : MulSt) (done : List Bool) : Prop :=
  st.s.length = ys.length ∧ st.lo.length + 1 = done.length ∧
  toNatLE st.lo + 2 ^ st.lo.length * hiVal st = toNatLE done * toNatLE ys

theorem mulRow0_inv (ys : List Bool) (x0 : Bool) : MulInv ys (mulRow0 ys x0) [x0] := by
  have hlen : (ys.map (x0 && ·)).length = (ys.map (fun _ => false)).length := by simp
  have hadd := addLE_spec (ys.map (x0 && ·)) (ys.map (fun _ => false)) false hlen
  have hl := addLE_length (ys.map (x0 && ·)) (ys.map (fun _ => false)) false hlen
  simp only [List.length_map, toNatLE_map_and, toNatLE_zeros, Bool.toNat_false, Nat.add_zero] at hadd hl
  refine ⟨by simp [mulRow0, hl], by simp [mulRow0], ?_⟩
  simp only [mulRow0, hiVal, hl, toNatLE, List.length_nil, Nat.pow_zero, Nat.one_mul, Nat.zero_add,
    Nat.mul_zero, Nat.add_zero]
  exact hadd

theorem mulRow_inv (ys : List Bool) (hn : 0 < ys.length) (st : MulSt) (done : List Bool) (xb : Bool)
    (h : MulInv ys st done) : MulInv ys (mulRow ys st xb) (done ++ [xb]) := by
  obtain ⟨h1, h2, h3⟩ := h
  obtain ⟨r1, r2⟩ := mulRow_spec ys st xb h1 hn
  refine ⟨r1, by simp [mulRow]; omega, ?_⟩
  have hlo : (mulRow ys st xb).lo = st.lo ++ [st.s.headD false] := rfl
  rw [hlo, toNatLE_append, toNatLE_append]
  simp only [List.length_append, List.length_cons, List.length_nil, toNatLE, Nat.mul_zero, Nat.add_zero,
    Nat.zero_add, Nat.pow_succ]
  have hd : done.length = st.lo.length + 1 := h2.symm
  rw [hd, Nat.pow_succ]
  -- abbreviations
  generalize hA : 2 ^ st.lo.length = A at *
  generalize hH : hiVal (mulRow ys st xb) = H' at *
  generalize hH0 : hiVal st = H at *
  generalize hY : toNatLE ys = Y at *
  generalize hL : toNatLE st.lo = L at *
  generalize hD : toNatLE done = D at *
  generalize hb : (st.s.headD false).toNat = hb' at *
  generalize hx : xb.toNat = X at *
  -- goal: L + A * hb' + A * 2 * H' = (D + A * 2 * X) * Y   given  hb' + 2 H' = 2 (X Y) + H,  L + A H = D Y
  have e1 : A * hb' + A * 2 * H' = A * (hb' + 2 * H') := by rw [Nat.mul_add, Nat.mul_assoc]
  have e2 : (D + A * 2 * X) * Y = D * Y + A * (2 * (X * Y)) := by
    rw [Nat.add_mul, Nat.mul_assoc, Nat.mul_assoc]
  have e3 : A * (2 * (X * Y) + H) = A * (2 * (X * Y)) + A * H := Nat.mul_add _ _ _
  rw [Nat.add_assoc, e1, r2, e2, e3, ← h3]
  omega

theorem mulRows_inv (ys : List Bool) (hn : 0 < ys.length) (xs : List Bool) (st : MulSt) (done : List Bool)
    (h : MulInv ys st done) : MulInv ys (mulRows ys xs st) (done ++ xs) := by
  induction xs generalizing st done with
  | nil => simpa [mulRows] using h
  | cons x xs ih =>
    have := ih (mulRow ys st x) (done ++ [x]) (mulRow_inv ys hn st done x h)
    simpa [mulRows] using this

/-- **the array multiplier computes the full product**, for every width -/
theorem mulFull_spec (xs ys : List Bool) (hn : 0 < ys.length) :
    toNatLE (mulFull xs ys) = toNatLE xs * toNatLE ys := by
  cases xs with
  | nil => simp [mulFull, toNatLE]
  | cons x0 xr =>
    have inv := mulRows_inv ys hn xr (mulRow0 ys x0) [x0] (mulRow0_inv ys x0)
    obtain ⟨h1, h2, h3⟩ := inv
    simp only [mulFull, List.singleton_append] at h3 ⊢
    rw [List.append_assoc, toNatLE_append, toNatLE_append]
    simp only [toNatLE, Nat.mul_zero, Nat.add_zero]
    simp only [hiVal] at h3
    exact h3

theorem mulFull_length (xs ys : List Bool) (hn : 0 < ys.length) (hx : 0 < xs.length) :
    (mulFull xs ys).length = xs.length + ys.length := by
  cases xs with
  | nil => simp at hx
  | cons x0 xr =>
    have inv := mulRows_inv ys hn xr (mulRow0 ys x0) [x0] (mulRow0_inv ys x0)
    obtain ⟨h1, h2, _⟩ := inv
    simp only [mulFull, List.length_append, List.length_cons, List.length_nil] at h2 ⊢
    omega


theorem foldl_bOr_true (l : List Bool) : l.foldl bOr true = true := by
  induction l with
  | nil => rfl
  | cons a l ih => simp [List.foldl_cons, bOr_eq, ih]

/-- OR of a list of bits ⇔ its numeric value is non-zero -/
theorem foldl_bOr_iff (l : List Bool) : l.foldl bOr false = true ↔ 0 < toNatLE l := by
  induction l with
  | nil => simp [toNatLE]
  | cons a l ih =>
    simp only [List.foldl_cons, bOr_eq, toNatLE]
    cases a
    · simp only [Bool.or_false, Bool.toNat_false, Nat.zero_add]
      rw [ih]; omega
    · simp [foldl_bOr_true]; omega

theorem toNatLE_take_drop (l : List Bool) (n : Nat) (h : n ≤ l.length) :
    toNatLE l = toNatLE (l.take n) + 2 ^ n * toNatLE (l.drop n) := by
  have := toNatLE_append (l.take n) (l.drop n)
  rw [List.take_append_drop] at this
  rw [this, List.length_take, Nat.min_eq_left h]

/-- **unsigned multiplication, all widths**: low bits and overflow flag together determine the
exact product: `result + 2^n · hi = x · y` with `overflow ⇔ hi ≠ 0` -/
theorem mul_unsigned (x y : List Bool) (h : x.length = y.length) (hn : 0 < x.length) :
    let r := mul x y false
    r.1.length = x.length ∧
    (r.2 = false → toNat r.1 = toNat x * toNat y) ∧
    (r.2 = true ↔ 2 ^ x.length ≤ toNat x * toNat y) := by
  intro r
  have hyl : 0 < y.reverse.length := by simp; omega
  have hxl : 0 < x.reverse.length := by simpa using hn
  have hfull := mulFull_spec x.reverse y.reverse hyl
  have hlen := mulFull_length x.reverse y.reverse hyl hxl
  have hr : r = (((mulFull x.reverse y.reverse).take x.length).reverse,
      ((mulFull x.reverse y.reverse).drop x.length).foldl bOr false) := by
    simp [r, mul, mulLE]
  have hsplit := toNatLE_take_drop (mulFull x.reverse y.reverse) x.length (by rw [hlen]; simp)
  have htl := toNatLE_lt ((mulFull x.reverse y.reverse).take x.length)
  have htlen : ((mulFull x.reverse y.reverse).take x.length).length = x.length := by
    rw [List.length_take, hlen]; simp
  rw [htlen] at htl
  have hov := foldl_bOr_iff ((mulFull x.reverse y.reverse).drop x.length)
  rw [hr]
  have hres : toNat ((mulFull x.reverse y.reverse).take x.length).reverse =
      toNatLE ((mulFull x.reverse y.reverse).take x.length) := by simp [toNat]
  simp only [hres, List.length_reverse, htlen]
  have hx : toNatLE x.reverse = toNat x := rfl
  have hy : toNatLE y.reverse = toNat y := rfl
  rw [hx, hy] at hfull
  rw [hfull] at hsplit
  generalize toNat x * toNat y = M at *
  generalize toNatLE (List.take x.length (mulFull x.reverse y.reverse)) = R at *
  generalize toNatLE (List.drop x.length (mulFull x.reverse y.reverse)) = H at *
  generalize List.foldl bOr false (List.drop x.length (mulFull x.reverse y.reverse)) = ov at *
  have hP : 0 < 2 ^ x.length := Nat.pos_of_ne_zero (by simp)
  generalize (2 : Nat) ^ x.length = P at *
  refine ⟨trivial, ?_, ?_⟩
  · intro hf
    have : ¬ 0 < H := by rw [← hov]; simp [hf]
    have : H = 0 := by omega
    subst this; omega
  · rw [hov]
    constructor
    · intro hH
      have : P * 1 ≤ P * H := Nat.mul_le_mul_left P hH
      omega
    · intro hM
      rcases Nat.eq_zero_or_pos H with h0 | hp
      · subst h0; omega
      · exact hp

end Arith
end GV
