import GarbleVerif.Model.MatchSpec
/-! Completeness of the reference exhaustiveness procedure `Src.uncovered`: if no representative
value is left unmatched, no value of the type is. -/
namespace GV
namespace Src

/-! ### integer representatives -/

/-- `r` stands for `n`: they compare in the same way with every constant -/
def SimInt (cs : List Int) (n r : Int) : Prop := ∀ c, c ∈ cs → (n < c ↔ r < c) ∧ (n = c ↔ r = c)

theorem exists_max_le (l : List Int) (n : Int) (h : ∃ s, s ∈ l ∧ s ≤ n) :
    ∃ r, r ∈ l ∧ r ≤ n ∧ ∀ s, s ∈ l → s ≤ n → s ≤ r := by
  induction l with
  | nil => obtain ⟨s, hs, _⟩ := h; simp at hs
  | cons x rest ih =>
    by_cases hrest : ∃ s, s ∈ rest ∧ s ≤ n
    · obtain ⟨r, hr, hrn, hmax⟩ := ih hrest
      by_cases hx : x ≤ n ∧ r < x
      · refine ⟨x, by simp, hx.1, ?_⟩
        intro s hs hsn
        simp only [List.mem_cons] at hs
        rcases hs with rfl | hs
        · exact Int.le_refl _
        · have := hmax s hs hsn; omega
      · refine ⟨r, by simp [hr], hrn, ?_⟩
        intro s hs hsn
        simp only [List.mem_cons] at hs
        rcases hs with rfl | hs
        · omega
        · exact hmax s hs hsn
    · obtain ⟨s, hs, hsn⟩ := h
      simp only [List.mem_cons] at hs
      rcases hs with rfl | hs
      · refine ⟨s, by simp, hsn, ?_⟩
        intro s' hs' hs'n
        simp only [List.mem_cons] at hs'
        rcases hs' with rfl | hs'
        · exact Int.le_refl _
        · exact absurd ⟨s', hs', hs'n⟩ hrest
      · exact absurd ⟨s, hs, hsn⟩ hrest

theorem mem_intReps (k : IntTy) (cs : List Int) (x : Int) :
    x ∈ intReps k cs ↔ k.inRange x = true ∧ (x = k.lo ∨ x = k.hi ∨ ∃ c, c ∈ cs ∧ (x = c - 1 ∨ x = c ∨ x = c + 1)) := by
  unfold intReps
  simp only [List.mem_eraseDups, List.mem_filter, List.mem_cons, List.mem_flatMap, List.mem_nil_iff, or_false]
  constructor
  · rintro ⟨h, hr⟩
    refine ⟨hr, ?_⟩
    rcases h with h | h | ⟨c, hc, h⟩
    · exact Or.inl h
    · exact Or.inr (Or.inl h)
    · exact Or.inr (Or.inr ⟨c, hc, h⟩)
  · rintro ⟨hr, h⟩
    refine ⟨?_, hr⟩
    rcases h with h | h | ⟨c, hc, h⟩
    · exact Or.inl h
    · exact Or.inr (Or.inl h)
    · exact Or.inr (Or.inr ⟨c, hc, h⟩)

theorem lo_le_hi (k : IntTy) : k.lo ≤ k.hi := by cases k <;> decide

/-- every value of an integer type has a representative -/
theorem exists_intRep (k : IntTy) (cs : List Int) (n : Int) (hn : k.inRange n = true) :
    ∃ r, r ∈ intReps k cs ∧ SimInt cs n r := by
  have hrange : k.lo ≤ n ∧ n ≤ k.hi := by simpa [IntTy.inRange] using hn
  have hlohi := lo_le_hi k
  have hlo : k.lo ∈ intReps k cs := (mem_intReps k cs k.lo).mpr ⟨by simp [IntTy.inRange, hlohi], Or.inl rfl⟩
  obtain ⟨r, hr, hrn, hmax⟩ := exists_max_le (intReps k cs) n ⟨k.lo, hlo, hrange.1⟩
  refine ⟨r, hr, ?_⟩
  have hrr := ((mem_intReps k cs r).mp hr).1
  have hrrange : k.lo ≤ r ∧ r ≤ k.hi := by simpa [IntTy.inRange] using hrr
  intro c hc
  have inS : ∀ x, k.lo ≤ x → x ≤ k.hi → (x = c - 1 ∨ x = c ∨ x = c + 1) → x ∈ intReps k cs := by
    intro x h1 h2 h3
    exact (mem_intReps k cs x).mpr ⟨by simp [IntTy.inRange, h1, h2], Or.inr (Or.inr ⟨c, hc, h3⟩)⟩
  by_cases hcn : c ≤ n
  · -- c ≤ n
    have hrc : c ≤ r := by
      by_cases hcl : k.lo ≤ c
      · exact hmax c (inS c hcl (by omega) (Or.inr (Or.inl rfl))) hcn
      · omega
    constructor
    · constructor <;> intro h <;> omega
    · constructor
      · intro h
        subst h
        have := hmax n (inS n hrange.1 hrange.2 (Or.inr (Or.inl rfl))) (Int.le_refl _)
        omega
      · intro h
        subst h
        by_cases hlt : r < n
        · have hc1 : r + 1 ∈ intReps k cs := inS (r + 1) (by omega) (by omega) (Or.inr (Or.inr rfl))
          have := hmax (r + 1) hc1 (by omega)
          omega
        · omega
  · constructor
    · constructor <;> intro h <;> omega
    · constructor <;> intro h <;> omega

/-! ### values that no pattern over the constants `cs` can tell apart -/

mutual
def Sim (cs : List Int) : Val → Val → Prop
  | .bool a, .bool b => a = b
  | .int a, .int b => SimInt cs a b
  | .array _, .array _ => True
  | .tuple as, .tuple bs => SimList cs as bs
  | .struct _ fa, .struct _ fb => SimFields cs fa fb
  | .enum _ v _ as, .enum _ v' _ bs => v = v' ∧ SimList cs as bs
  | _, _ => False
def SimList (cs : List Int) : ValList → ValList → Prop
  | .nil, .nil => True
  | .cons a r, .cons b s => Sim cs a b ∧ SimList cs r s
  | _, _ => False
def SimFields (cs : List Int) : FieldVals → FieldVals → Prop
  | .nil, .nil => True
  | .cons n a r, .cons m b s => n = m ∧ Sim cs a b ∧ SimFields cs r s
  | _, _ => False
end

theorem simFields_get (cs : List Int) : ∀ (fa fb : FieldVals) (x : String), SimFields cs fa fb →
    (FieldVals'.get? fa x = none ∧ FieldVals'.get? fb x = none) ∨
    (∃ a b, FieldVals'.get? fa x = some a ∧ FieldVals'.get? fb x = some b ∧ Sim cs a b)
  | .nil, .nil, _, _ => Or.inl ⟨rfl, rfl⟩
  | .nil, .cons _ _ _, _, h => by simp [SimFields] at h
  | .cons _ _ _, .nil, _, h => by simp [SimFields] at h
  | .cons n a r, .cons m b s, x, h => by
    simp only [SimFields] at h
    obtain ⟨rfl, hab, hrs⟩ := h
    simp only [FieldVals'.get?]
    split
    · exact Or.inr ⟨a, b, rfl, rfl, hab⟩
    · exact simFields_get cs r s x hrs

theorem isSome_pair {α β γ : Type} (a : Option α) (b : Option β) (f : α → β → γ) :
    (match a, b with | some x, some y => some (f x y) | _, _ => none).isSome = (a.isSome && b.isSome) := by
  cases a <;> cases b <;> rfl

mutual
theorem sim_matchPat (cs : List Int) : ∀ (p : Pat) (v v' : Val), (∀ c, c ∈ patConsts p → c ∈ cs) → Sim cs v v' →
    (matchPat p v).isSome = (matchPat p v').isSome
  | .ident _, _, _, _, _ => by simp [matchPat]
  | .bool b, v, v', _, hs => by
    cases v <;> cases v' <;> simp only [Sim] at hs <;> simp_all [matchPat]
  | .int n, v, v', hc, hs => by
    cases v <;> cases v' <;> simp only [Sim] at hs <;> try (simp [matchPat]; done)
    rename_i a b
    have := (hs n (hc n (by simp [patConsts]))).2
    simp only [matchPat]
    by_cases h1 : n = a
    · have h2 : n = b := (this.mp h1.symm).symm
      simp [h1, h2] <;> simp [← h1, ← h2]
    · have h2 : ¬ n = b := fun h' => h1 (this.mpr h'.symm).symm
      simp [h1, h2]
  | .range lo hi, v, v', hc, hs => by
    cases v <;> cases v' <;> simp only [Sim] at hs <;> try (simp [matchPat]; done)
    rename_i a b
    have hl := hs lo (hc lo (by simp [patConsts]))
    have hh := hs hi (hc hi (by simp [patConsts]))
    simp only [matchPat]
    have e1 : (lo ≤ a ∧ a ≤ hi) ↔ (lo ≤ b ∧ b ≤ hi) := by
      constructor <;> intro h <;> constructor <;> omega
    by_cases h : lo ≤ a ∧ a ≤ hi
    · simp [h, e1.mp h]
    · have : ¬ (lo ≤ b ∧ b ≤ hi) := fun h' => h (e1.mpr h')
      simp [h, this]
  | .tuple ps, v, v', hc, hs => by
    cases v <;> cases v' <;> simp only [Sim] at hs <;> try (simp [matchPat]; done)
    simp only [matchPat]
    exact sim_matchPats cs ps _ _ (by simpa [patConsts] using hc) hs
  | .struct _ fps, v, v', hc, hs => by
    cases v <;> cases v' <;> simp only [Sim] at hs <;> try (simp [matchPat]; done)
    simp only [matchPat]
    exact sim_matchFields cs fps _ _ (by simpa [patConsts] using hc) hs
  | .enumUnit _ vn, v, v', _, hs => by
    cases v <;> cases v' <;> simp only [Sim] at hs <;> try (simp [matchPat]; done)
    obtain ⟨rfl, _⟩ := hs
    simp [matchPat]
  | .enumTuple _ vn ps, v, v', hc, hs => by
    cases v <;> cases v' <;> simp only [Sim] at hs <;> try (simp [matchPat]; done)
    obtain ⟨rfl, hl⟩ := hs
    simp only [matchPat]
    split
    · exact sim_matchPats cs ps _ _ (by simpa [patConsts] using hc) hl
    · rfl
theorem sim_matchPats (cs : List Int) : ∀ (ps : PatList) (vs vs' : ValList), (∀ c, c ∈ patListConsts ps → c ∈ cs) →
    SimList cs vs vs' → (matchPats ps vs).isSome = (matchPats ps vs').isSome
  | .nil, vs, vs', _, hs => by
    cases vs <;> cases vs' <;> simp only [SimList] at hs <;> simp [matchPats]
  | .cons p ps, vs, vs', hc, hs => by
    cases vs <;> cases vs' <;> simp only [SimList] at hs <;> try (simp [matchPats]; done)
    rename_i v1 r1 v2 r2
    have e1 := sim_matchPat cs p v1 v2 (fun c h => hc c (by simp [patListConsts, h])) hs.1
    have e2 := sim_matchPats cs ps r1 r2 (fun c h => hc c (by simp [patListConsts, h])) hs.2
    simp only [matchPats]
    generalize matchPat p v1 = x1 at *
    generalize matchPat p v2 = x2 at *
    generalize matchPats ps r1 = y1 at *
    generalize matchPats ps r2 = y2 at *
    cases x1 <;> cases x2 <;> cases y1 <;> cases y2 <;> simp_all
theorem sim_matchFields (cs : List Int) : ∀ (fps : FieldPats) (fa fb : FieldVals), (∀ c, c ∈ fieldPatsConsts fps → c ∈ cs) →
    SimFields cs fa fb → (matchFields fps fa).isSome = (matchFields fps fb).isSome
  | .nil, _, _, _, _ => by simp [matchFields]
  | .cons n p r, fa, fb, hc, hs => by
    simp only [matchFields]
    rcases simFields_get cs fa fb n hs with ⟨h1, h2⟩ | ⟨a, b, h1, h2, hab⟩
    · simp [h1, h2]
    · have e1 := sim_matchPat cs p a b (fun c h => hc c (by simp [fieldPatsConsts, h])) hab
      have e2 := sim_matchFields cs r fa fb (fun c h => hc c (by simp [fieldPatsConsts, h])) hs
      simp only [h1, h2]
      generalize matchPat p a = x1 at *
      generalize matchPat p b = x2 at *
      generalize matchFields r fa = y1 at *
      generalize matchFields r fb = y2 at *
      cases x1 <;> cases x2 <;> cases y1 <;> cases y2 <;> simp_all
end

/-! ### every value has a representative -/

theorem mem_product_cons (xs : List Val) (rest : List (List Val)) (x : Val) (r : List Val)
    (hx : x ∈ xs) (hr : r ∈ product rest) : (x :: r) ∈ product (xs :: rest) := by
  simp only [product, List.mem_flatMap, List.mem_map]
  exact ⟨x, hx, r, hr, rfl⟩

mutual
theorem rep_ty (cs : List Int) : ∀ (ty : Ty) (v : Val), v.hasType ty = true → ∃ r, r ∈ tyReps cs ty ∧ Sim cs v r
  | .bool, v, h => by
    cases v <;> simp only [Val.hasType] at h <;> try (simp at h; done)
    rename_i b
    cases b
    · exact ⟨.bool false, by simp [tyReps], rfl⟩
    · exact ⟨.bool true, by simp [tyReps], rfl⟩
  | .int k, v, h => by
    cases v <;> simp only [Val.hasType] at h <;> try (simp at h; done)
    rename_i n
    obtain ⟨r, hr, hs⟩ := exists_intRep k cs n h
    exact ⟨.int r, by simp only [tyReps, List.mem_map]; exact ⟨r, hr, rfl⟩, hs⟩
  | .array t n, v, h => by
    cases v <;> simp only [Val.hasType] at h <;> try (simp at h; done)
    refine ⟨.array (ValList.replicate n (((tyReps cs t).head?).getD (.bool false))), by simp [tyReps], ?_⟩
    simp [Sim]
  | .tuple ts, v, h => by
    cases v <;> simp only [Val.hasType] at h <;> try (simp at h; done)
    rename_i vs
    obtain ⟨rs, hrs, hsim⟩ := rep_list cs ts vs h
    exact ⟨.tuple (ValList.ofList rs), by simp only [tyReps, List.mem_map]; exact ⟨rs, hrs, rfl⟩, hsim⟩
  | .struct name fs, v, h => by
    cases v <;> simp only [Val.hasType] at h <;> try (simp at h; done)
    rename_i name' fvs
    simp only [Bool.and_eq_true] at h
    obtain ⟨rs, hrs, hsim⟩ := rep_fields cs fs fvs h.2
    exact ⟨.struct name (FieldVals.ofList ((fieldNames fs).zip rs)),
      by simp only [tyReps, List.mem_map]; exact ⟨rs, hrs, rfl⟩, hsim⟩
  | .enum name variants, v, h => by
    cases v <;> simp only [Val.hasType] at h <;> try (simp at h; done)
    rename_i name' vn isUnit vs
    simp only [Bool.and_eq_true] at h
    obtain ⟨_, h2⟩ := h
    split at h2
    · rename_i i u fts hf
      simp only [Bool.and_eq_true] at h2
      exact rep_variants cs variants name vn name' isUnit vs i u fts hf h2.2
    · simp at h2
theorem rep_list (cs : List Int) : ∀ (ts : TyList) (vs : ValList), vs.haveTypes ts = true →
    ∃ rs, rs ∈ product (tyListReps cs ts) ∧ SimList cs vs (ValList.ofList rs)
  | .nil, vs, h => by
    cases vs <;> simp only [ValList.haveTypes] at h <;> try (simp at h; done)
    exact ⟨[], by simp [tyListReps, product], trivial⟩
  | .cons t ts, vs, h => by
    cases vs <;> simp only [ValList.haveTypes] at h <;> try (simp at h; done)
    rename_i v rest
    simp only [Bool.and_eq_true] at h
    obtain ⟨r, hr, hs⟩ := rep_ty cs t v h.1
    obtain ⟨rs, hrs, hss⟩ := rep_list cs ts rest h.2
    exact ⟨r :: rs, mem_product_cons _ _ _ _ hr hrs, ⟨hs, hss⟩⟩
theorem rep_fields (cs : List Int) : ∀ (fs : Fields) (fvs : FieldVals), fvs.haveTypes fs = true →
    ∃ rs, rs ∈ product (fieldsReps cs fs) ∧ SimFields cs fvs (FieldVals.ofList ((fieldNames fs).zip rs))
  | .nil, fvs, h => by
    cases fvs <;> simp only [FieldVals.haveTypes] at h <;> try (simp at h; done)
    exact ⟨[], by simp [fieldsReps, product], trivial⟩
  | .cons n t fs, fvs, h => by
    cases fvs <;> simp only [FieldVals.haveTypes] at h <;> try (simp at h; done)
    rename_i n' v rest
    simp only [Bool.and_eq_true, beq_iff_eq] at h
    obtain ⟨⟨hn, hv⟩, hrest⟩ := h
    obtain ⟨r, hr, hs⟩ := rep_ty cs t v hv
    obtain ⟨rs, hrs, hss⟩ := rep_fields cs fs rest hrest
    refine ⟨r :: rs, mem_product_cons _ _ _ _ hr hrs, ?_⟩
    simp only [fieldNames, List.zip_cons_cons, FieldVals.ofList, SimFields]
    exact ⟨hn, hs, hss⟩
theorem rep_variants (cs : List Int) : ∀ (variants : Variants) (ename vn ename' : String) (isUnit : Bool) (vs : ValList)
    (i : Nat) (u : Bool) (fts : TyList), variants.find? vn = some (i, u, fts) → vs.haveTypes fts = true →
    ∃ r, r ∈ variantsReps cs ename variants ∧ Sim cs (.enum ename' vn isUnit vs) r
  | .nil, _, _, _, _, _, _, _, _, hf, _ => by simp [Variants.find?] at hf
  | .cons n u0 fs0 rest, ename, vn, ename', isUnit, vs, i, u, fts, hf, hv => by
    simp only [Variants.find?] at hf
    split at hf
    · rename_i hn
      simp only [Option.some.injEq, Prod.mk.injEq] at hf
      obtain ⟨_, rfl, rfl⟩ := hf
      have hn' : n = vn := by simpa using hn
      subst hn'
      obtain ⟨rs, hrs, hss⟩ := rep_list cs fs0 vs hv
      refine ⟨Val.enum ename n u0 (ValList.ofList rs), ?_, ⟨rfl, hss⟩⟩
      simp only [variantsReps, List.mem_append, List.mem_map]
      exact Or.inl ⟨rs, hrs, rfl⟩
    · split at hf
      · rename_i i' u' fs' hf'
        simp only [Option.some.injEq, Prod.mk.injEq] at hf
        obtain ⟨_, rfl, rfl⟩ := hf
        obtain ⟨r, hr, hs⟩ := rep_variants cs rest ename vn ename' isUnit vs i' u' fs' hf' hv
        exact ⟨r, by simp only [variantsReps, List.mem_append]; exact Or.inr hr, hs⟩
      · simp at hf
end

theorem firstMatch_some_mem (v : Val) : ∀ (pats : List Pat), (firstMatch v pats).isSome = true →
    ∃ p, p ∈ pats ∧ (matchPat p v).isSome = true
  | [], h => by simp [firstMatch] at h
  | p :: rest, h => by
    simp only [firstMatch] at h
    cases hp : matchPat p v with
    | some b => exact ⟨p, by simp, by simp [hp]⟩
    | none =>
      rw [hp] at h
      have : (firstMatch v rest).isSome = true := by simpa using h
      obtain ⟨q, hq, hm⟩ := firstMatch_some_mem v rest this
      exact ⟨q, by simp [hq], hm⟩

/-- **completeness of the reference procedure**: if no representative value is unmatched, every
value of the type is matched by some arm -/
theorem uncovered_complete (ty : Ty) (pats : List Pat) (h : uncovered ty pats = none) :
    ∀ v, v.hasType ty = true → ∃ p, p ∈ pats ∧ (matchPat p v).isSome = true := by
  intro v hv
  unfold uncovered at h
  obtain ⟨r, hr, hsim⟩ := rep_ty (pats.flatMap patConsts) ty v hv
  have hnone := List.find?_eq_none.mp h r hr
  have hsome : (firstMatch r pats).isSome = true := by
    cases hf : firstMatch r pats with
    | none => simp [hf] at hnone
    | some i => rfl
  obtain ⟨p, hp, hm⟩ := firstMatch_some_mem r pats hsome
  refine ⟨p, hp, ?_⟩
  rw [sim_matchPat (pats.flatMap patConsts) p v r (fun c hc => List.mem_flatMap.mpr ⟨p, hp, hc⟩) hsim]
  exact hm

end Src
end GV
