import GarbleVerif.Model.Bristol
/-! The importer never reaches a `crash` outcome: every index it uses is in range. -/
namespace GV
namespace Bristol

def ImportError.isCrash : ImportError → Bool
  | .crash _ => true
  | _ => false

/-- shape invariant of the importer state -/
structure StInv (wiresNum inputWiresNum numOutputWires : Nat) (st : ImportSt) : Prop where
  wm : st.wiresMap.length = wiresNum - inputWiresNum
  outs : st.outputGates.length = numOutputWires

theorem find?_none_lt {ws : List Nat} {n : Nat} (h : ws.find? (· ≥ n) = none) : ∀ w, w ∈ ws → w < n := by
  intro w hw
  have := List.find?_eq_none.mp h w hw
  simpa using this

theorem parseGateLine_ok {wiresNum : Nat} {parts : Line} {iw : List Nat} {ow : Nat} {gt : Tok}
    (h : parseGateLine wiresNum parts = .ok (iw, ow, gt)) : (∀ w, w ∈ iw → w < wiresNum) ∧ ow < wiresNum := by
  unfold parseGateLine at h
  split at h
  · simp at h
  · split at h
    · simp at h
    · split at h
      · simp at h
      · split at h
        · simp at h
        · split at h
          · simp at h
          · split at h
            · simp at h
            · split at h
              · simp at h
              · rename_i hfind
                split at h
                · simp at h
                · rename_i hge
                  split at h
                  · simp at h
                  · simp only [Except.ok.injEq, Prod.mk.injEq] at h
                    obtain ⟨rfl, rfl, rfl⟩ := h
                    exact ⟨find?_none_lt hfind, by omega⟩

theorem parseGateLine_no_crash {wiresNum : Nat} {parts : Line} {e : ImportError}
    (h : parseGateLine wiresNum parts = .error e) : e.isCrash = false := by
  have htok : ∀ (t : Tok) (e : ImportError), tokNum t = .error e → e.isCrash = false := by
    intro t e h; cases t <;> simp [tokNum] at h; subst h; rfl
  have hmap : ∀ (l : List Tok) (e : ImportError), l.mapM tokNum = .error e → e.isCrash = false := by
    intro l
    induction l with
    | nil => intro e h; simp [List.mapM_nil, pure, Except.pure] at h
    | cons t l ih =>
      intro e h
      simp only [List.mapM_cons, bind, Except.bind] at h
      split at h
      · rename_i e' ht
        simp only [Except.error.injEq] at h; subst h; exact htok t _ ht
      · split at h
        · rename_i e' hl
          simp only [Except.error.injEq] at h; subst h; exact ih _ hl
        · simp [pure, Except.pure] at h
  unfold parseGateLine at h
  split at h
  · simp at h; subst h; rfl
  · split at h
    · rename_i e' he; simp at h; subst h; exact htok _ _ he
    · split at h
      · rename_i e' he; simp at h; subst h; exact htok _ _ he
      · split at h
        · simp at h; subst h; rfl
        · split at h
          · rename_i e' he; simp at h; subst h; exact hmap _ _ he
          · split at h
            · rename_i e' he; simp at h; subst h; exact htok _ _ he
            · split at h
              · simp at h; subst h; rfl
              · split at h
                · simp at h; subst h; rfl
                · split at h
                  · simp at h; subst h; rfl
                  · simp at h

theorem mapWire_ok {inputWiresNum : Nat} {wm : List Nat} {w wiresNum : Nat}
    (hl : wm.length = wiresNum - inputWiresNum) (hw : w < wiresNum) :
    ∃ v, mapWire inputWiresNum wm w = .ok v := by
  unfold mapWire
  split
  · exact ⟨w, rfl⟩
  · rename_i hge
    have : w - inputWiresNum < wm.length := by omega
    rw [List.getElem?_eq_getElem this]
    exact ⟨_, rfl⟩

/-- one gate: in range, no crash, invariant kept -/
theorem applyGate_spec {wiresNum inputWiresNum numOutputWires : Nat} {st : ImportSt}
    (hinv : StInv wiresNum inputWiresNum numOutputWires st) (hout : numOutputWires ≤ wiresNum)
    {iw : List Nat} {ow : Nat} (gt : Tok) (hiw : ∀ w, w ∈ iw → w < wiresNum) (how : ow < wiresNum) :
    (∀ e, applyGate wiresNum inputWiresNum numOutputWires st iw ow gt = .error e → e.isCrash = false) ∧
    (∀ st', applyGate wiresNum inputWiresNum numOutputWires st iw ow gt = .ok st' →
      StInv wiresNum inputWiresNum numOutputWires st') := by
  have g1 : ¬ (ow ≥ wiresNum - numOutputWires ∧ ¬ (ow - (wiresNum - numOutputWires) < st.outputGates.length)) := by
    rw [hinv.outs]; omega
  have g2 : ¬ (ow ≥ inputWiresNum ∧ ¬ (ow - inputWiresNum < st.wiresMap.length)) := by
    rw [hinv.wm]; omega
  -- lengths after the updates
  have hwm : (if ow ≥ inputWiresNum then st.wiresMap.set (ow - inputWiresNum) st.nextWire else st.wiresMap).length
      = wiresNum - inputWiresNum := by split <;> simp [hinv.wm]
  have houts : (if ow ≥ wiresNum - numOutputWires then
      st.outputGates.set (ow - (wiresNum - numOutputWires)) st.nextWire else st.outputGates).length
      = numOutputWires := by split <;> simp [hinv.outs]
  simp only [applyGate, g1, g2, if_false]
  constructor
  · intro e h
    split at h
    · split at h
      · rename_i a b
        obtain ⟨x, hx⟩ := mapWire_ok hwm (hiw a (by simp))
        obtain ⟨y, hy⟩ := mapWire_ok hwm (hiw b (by simp))
        rw [hx, hy] at h
        simp at h
      · simp at h; subst h; rfl
    · split at h
      · rename_i a b
        obtain ⟨x, hx⟩ := mapWire_ok hwm (hiw a (by simp))
        obtain ⟨y, hy⟩ := mapWire_ok hwm (hiw b (by simp))
        rw [hx, hy] at h
        simp at h
      · simp at h; subst h; rfl
    · split at h
      · rename_i a
        obtain ⟨x, hx⟩ := mapWire_ok hwm (hiw a (by simp))
        rw [hx] at h
        simp at h
      · simp at h; subst h; rfl
    · simp at h; subst h; rfl
  · intro st' h
    split at h
    · split at h
      · split at h <;> simp at h
        subst h; exact ⟨by simpa using hwm, by simpa using houts⟩
      · simp at h
    · split at h
      · split at h <;> simp at h
        subst h; exact ⟨by simpa using hwm, by simpa using houts⟩
      · simp at h
    · split at h
      · split at h <;> simp at h
        subst h; exact ⟨by simpa using hwm, by simpa using houts⟩
      · simp at h
    · simp at h

theorem importGates_no_crash (wiresNum inputWiresNum numOutputWires : Nat) (hout : numOutputWires ≤ wiresNum)
    (ls : List Line) (st : ImportSt) (hinv : StInv wiresNum inputWiresNum numOutputWires st) (e : ImportError)
    (h : importGates wiresNum inputWiresNum numOutputWires ls st = .error e) : e.isCrash = false := by
  induction ls generalizing st with
  | nil => simp [importGates] at h
  | cons l rest ih =>
    simp only [importGates] at h
    split at h
    · rename_i st' hs
      apply ih st' _ h
      -- invariant of st'
      unfold importGate at hs
      split at hs
      · simp at hs; subst hs; exact hinv
      · split at hs
        · simp at hs
        · rename_i iw ow gt hp
          obtain ⟨hiw, how⟩ := parseGateLine_ok hp
          exact (applyGate_spec hinv hout gt hiw how).2 st' hs
    · rename_i e' hs
      simp only [Except.error.injEq] at h; subst h
      unfold importGate at hs
      split at hs
      · simp at hs
      · split at hs
        · rename_i e'' hp
          simp only [Except.error.injEq] at hs; subst hs
          exact parseGateLine_no_crash hp
        · rename_i iw ow gt hp
          obtain ⟨hiw, how⟩ := parseGateLine_ok hp
          exact (applyGate_spec hinv hout gt hiw how).1 _ hs

theorem parseLine_no_crash {l : Option Line} {e : ImportError} (h : parseLine l = .error e) :
    e.isCrash = false := by
  cases l with
  | none => simp [parseLine] at h; subst h; rfl
  | some l =>
    simp only [parseLine] at h
    induction l generalizing e with
    | nil => simp [List.mapM_nil, pure, Except.pure] at h
    | cons t l ih =>
      simp only [List.mapM_cons, bind, Except.bind] at h
      split at h
      · rename_i e' ht
        simp only [Except.error.injEq] at h; subst h
        cases t <;> simp at ht
        subst ht; rfl
      · split at h
        · rename_i e' hl
          simp only [Except.error.injEq] at h; subst h; exact ih hl
        · simp [pure, Except.pure] at h

theorem parseHeader_spec {lines : List Line} :
    (∀ e, parseHeader lines = .error e → e.isCrash = false) ∧
    (∀ w ig iw ow, parseHeader lines = .ok (w, ig, iw, ow) → ow ≤ w) := by
  unfold parseHeader
  constructor
  · intro e h
    repeat' (split at h)
    all_goals first
      | (simp at h; done)
      | (simp only [Except.error.injEq] at h; subst h; first | rfl | exact parseLine_no_crash (by assumption))
  · intro w ig iw ow h
    repeat' (split at h)
    all_goals first
      | (simp at h; done)
      | (simp only [Except.ok.injEq, Prod.mk.injEq] at h
         obtain ⟨rfl, _, _, rfl⟩ := h
         simp_all
         try omega)

/-- **C11 (importer totality)**: on every file the importer returns a circuit or one of its
error values; no index is ever out of range and no subtraction underflows. -/
theorem importLines_no_crash (lines : List Line) (e : ImportError) (h : importLines lines = .error e) :
    e.isCrash = false := by
  unfold importLines at h
  split at h
  · rename_i e' he
    simp only [Except.error.injEq] at h; subst h
    exact parseHeader_spec.1 _ he
  · rename_i w ig iw ow hh
    have hle := parseHeader_spec.2 w ig iw ow hh
    dsimp only at h
    split at h
    · rename_i e' he
      simp only [Except.error.injEq] at h; subst h
      exact importGates_no_crash w iw ow hle _ _ ⟨by simp, by simp⟩ _ he
    · simp at h

end Bristol
end GV
