import GarbleVerif.Proofs.BitCore
import GarbleVerif.Proofs.BitShape
import GarbleVerif.Proofs.BitAgg
import GarbleVerif.Proofs.MatchComplete
import GarbleVerif.Proofs.BeqEncode
/-!
# Scalar patterns: the compiled match bit against `Src.matchPat`
-/
namespace GV
namespace Bit
open Src

/-- the bindings a scalar pattern makes -/
def bindsOf (bind : Option String) (v : Val) : Src.Env :=
  match bind with
  | some x => [(x, v)]
  | none => []

/-- the match bit of a scalar pattern is set exactly when the pattern matches the value; then it binds what the
compiled code binds -/
theorem patBits_sound (p : Pat) (ts : STy) (v : Val) (sb : List Bool) (m : Bool) (bind : Option String)
    (hrel : Rel ts v sb) (h : patBits p ts sb = some (m, bind)) :
    matchPat p v = if m then some (bindsOf bind v) else none := by
  unfold patBits at h
  split at h
  · -- ident
    simp only [Option.some.injEq, Prod.mk.injEq] at h
    obtain ⟨rfl, rfl⟩ := h
    simp [matchPat, bindsOf]
  · -- true
    rename_i b
    simp only [Option.some.injEq, Prod.mk.injEq] at h
    obtain ⟨rfl, rfl⟩ := h
    obtain ⟨b', rfl, hb⟩ := Rel.bool_inv hrel
    simp only [List.cons.injEq, and_true] at hb
    subst hb
    cases b <;> simp [matchPat, bindsOf]
  · -- false
    rename_i b
    simp only [Option.some.injEq, Prod.mk.injEq] at h
    obtain ⟨rfl, rfl⟩ := h
    obtain ⟨b', rfl, hb⟩ := Rel.bool_inv hrel
    simp only [List.cons.injEq, and_true] at hb
    subst hb
    cases b <;> simp [matchPat, bindsOf]
  · -- number
    rename_i bs0 n k
    split at h
    · rename_i hn
      simp only [Option.some.injEq, Prod.mk.injEq] at h
      obtain ⟨rfl, rfl⟩ := h
      obtain ⟨a, rfl, ha, rfl⟩ := Rel.int_inv hrel
      have := eqBits_enc k n a hn ha
      rw [show intToBits n k.bits = enc k n from rfl, this]
      by_cases hna : n = a
      · subst hna; simp [matchPat, bindsOf]
      · simp [matchPat, bindsOf, hna]
    · simp at h
  · -- range
    rename_i bs0 lo hi k
    split at h
    · rename_i hr
      simp only [Option.some.injEq, Prod.mk.injEq] at h
      obtain ⟨rfl, rfl⟩ := h
      obtain ⟨a, rfl, ha, rfl⟩ := Rel.int_inv hrel
      have c1 := comparator_enc k a lo ha hr.1
      have c2 := comparator_enc k a hi ha hr.2
      rw [show intToBits lo k.bits = enc k lo from rfl, show intToBits hi k.bits = enc k hi from rfl, c1, c2]
      simp only [matchPat, bindsOf]
      by_cases h1 : lo ≤ a <;> by_cases h2 : a ≤ hi <;> simp [h1, h2] <;> omega
    · simp at h
  · simp at h

/-! ### patterns on aggregates -/

/-- what a compiled pattern says about the source-level match: the bit is set exactly when the pattern matches,
and then the variables it binds carry the values `matchPat` binds -/
def PatOK (m : Bool) (bb : BEnv) (r : Option Src.Env) : Prop :=
  (m = true → ∃ binds, r = some binds ∧ EnvRel binds bb) ∧ (m = false → r = none)

theorem patOK_scalar {p : Pat} {ts : STy} {v : Val} {bs : List Bool} {m : Bool} {bind : Option String}
    (hrel : Rel ts v bs) (h : patBits p ts bs = some (m, bind)) (hb : bind = none) : PatOK m [] (matchPat p v) := by
  have := patBits_sound p ts v bs m bind hrel h
  subst hb
  rw [this]
  cases m
  · exact ⟨by simp, fun _ => rfl⟩
  · exact ⟨fun _ => ⟨[], by simp [bindsOf], EnvRel.nil⟩, by simp⟩

theorem patBits_bind_none {p : Pat} {ts : STy} {bs : List Bool} {m : Bool} {bind : Option String}
    (h : patBits p ts bs = some (m, bind)) (hp : ∀ x, p ≠ .ident x) : bind = none := by
  unfold patBits at h
  split at h
  · exact absurd rfl (hp _)
  all_goals first
    | (simp only [Option.some.injEq, Prod.mk.injEq] at h; exact h.2.symm)
    | (split at h
       · simp only [Option.some.injEq, Prod.mk.injEq] at h; exact h.2.symm
       · simp at h)
    | simp at h

theorem natToBits_inj (i j sz : Nat) (hi : i < 2 ^ sz) (hj : j < 2 ^ sz) (h : natToBits i sz = natToBits j sz) : i = j := by
  have := congrArg bitsToNat h
  rwa [bitsToNat_natToBits, bitsToNat_natToBits, Nat.mod_eq_of_lt hi, Nat.mod_eq_of_lt hj] at this

/-- comparing tags is comparing variant names -/
theorem tag_eq (variants : Variants) (a b : String) (i j : Nat) (u u' : Bool) (f f' : TyList)
    (ha : variants.find? a = some (i, u, f)) (hb : variants.find? b = some (j, u', f')) :
    Arith.eqBits (natToBits i variants.tagSize) (natToBits j variants.tagSize) = (a == b) := by
  have hl := Variants.length_le_pow_tagSize variants
  have hi := Variants.find?_lt_length variants a i u f ha
  have hj := Variants.find?_lt_length variants b j u' f' hb
  have hiff := Arith.eqBits_iff (natToBits i variants.tagSize) (natToBits j variants.tagSize)
    (by rw [natToBits_length, natToBits_length])
  by_cases hab : a = b
  · subst hab
    rw [ha] at hb
    simp only [Option.some.injEq, Prod.mk.injEq] at hb
    obtain ⟨rfl, _, _⟩ := hb
    simp [hiff.mpr rfl]
  · have hne : natToBits i variants.tagSize ≠ natToBits j variants.tagSize := by
      intro he
      have := natToBits_inj i j _ (by omega) (by omega) he
      subst this
      exact hab (find?_same_index variants a b i u u' f f' ha hb)
    cases hc : Arith.eqBits (natToBits i variants.tagSize) (natToBits j variants.tagSize)
    · simp [hab]
    · exact absurd (hiff.mp hc) hne

mutual
theorem patG_sound : ∀ (p : Pat) (t : Ty) (v : Val) (m : Bool) (bb : BEnv), v.hasType t = true →
    patG p t (v.encode t) = some (m, bb) → PatOK m bb (matchPat p v)
  | .ident x, t, v, m, bb, hv, h => by
    simp only [patG, Option.some.injEq, Prod.mk.injEq] at h
    obtain ⟨rfl, rfl⟩ := h
    exact ⟨fun _ => ⟨[(x, v)], by simp [matchPat], EnvRel.cons (VRel.of_hasType hv) EnvRel.nil⟩, by simp⟩
  | .tuple ps, .tuple ts, v, m, bb, hv, h => by
    cases v with
    | tuple vs =>
      simp only [patG, Val.encode] at h
      simp only [Val.hasType] at hv
      simpa [matchPat] using patsG_sound ps ts vs m bb [] hv (by simpa using h)
    | _ => simp [Val.hasType] at hv
  | .bool b, .bool, v, m, bb, hv, h => by
    simp only [patG] at h
    split at h
    · rename_i m' bind hpb
      simp only [Option.some.injEq, Prod.mk.injEq] at h
      obtain ⟨rfl, rfl⟩ := h
      exact patOK_scalar (ts := .bool) (Rel.of_hasType (t := .bool) hv) hpb (patBits_bind_none hpb (by intro x; simp))
    · simp at h
  | .int n, .int k, v, m, bb, hv, h => by
    simp only [patG] at h
    split at h
    · rename_i m' bind hpb
      simp only [Option.some.injEq, Prod.mk.injEq] at h
      obtain ⟨rfl, rfl⟩ := h
      exact patOK_scalar (ts := .int k) (Rel.of_hasType (t := .int k) hv) hpb (patBits_bind_none hpb (by intro x; simp))
    · simp at h
  | .range lo hi, .int k, v, m, bb, hv, h => by
    simp only [patG] at h
    split at h
    · rename_i m' bind hpb
      simp only [Option.some.injEq, Prod.mk.injEq] at h
      obtain ⟨rfl, rfl⟩ := h
      exact patOK_scalar (ts := .int k) (Rel.of_hasType (t := .int k) hv) hpb (patBits_bind_none hpb (by intro x; simp))
    · simp at h
  | .tuple _, .bool, _, _, _, _, h => by simp [patG] at h
  | .tuple _, .int _, _, _, _, _, h => by simp [patG] at h
  | .tuple _, .array _ _, _, _, _, _, h => by simp [patG] at h
  | .tuple _, .struct _ _, _, _, _, _, h => by simp [patG] at h
  | .tuple _, .enum _ _, _, _, _, _, h => by simp [patG] at h
  | .bool _, .int _, _, _, _, _, h => by simp [patG] at h
  | .bool _, .array _ _, _, _, _, _, h => by simp [patG] at h
  | .bool _, .tuple _, _, _, _, _, h => by simp [patG] at h
  | .bool _, .struct _ _, _, _, _, _, h => by simp [patG] at h
  | .bool _, .enum _ _, _, _, _, _, h => by simp [patG] at h
  | .int _, .bool, _, _, _, _, h => by simp [patG] at h
  | .int _, .array _ _, _, _, _, _, h => by simp [patG] at h
  | .int _, .tuple _, _, _, _, _, h => by simp [patG] at h
  | .int _, .struct _ _, _, _, _, _, h => by simp [patG] at h
  | .int _, .enum _ _, _, _, _, _, h => by simp [patG] at h
  | .range _ _, .bool, _, _, _, _, h => by simp [patG] at h
  | .range _ _, .array _ _, _, _, _, _, h => by simp [patG] at h
  | .range _ _, .tuple _, _, _, _, _, h => by simp [patG] at h
  | .range _ _, .struct _ _, _, _, _, _, h => by simp [patG] at h
  | .range _ _, .enum _ _, _, _, _, _, h => by simp [patG] at h
  | .struct sn fps, .struct sn' fs, v, m, bb, hv, h => by
    cases v with
    | struct sn2 fvs =>
      simp only [patG, Val.encode] at h
      simp only [Val.hasType, Bool.and_eq_true] at hv
      simpa [matchPat] using fieldsG_sound fps fs fvs m bb hv.2 h
    | _ => simp [Val.hasType] at hv
  | .struct _ _, .bool, _, _, _, _, h => by simp [patG] at h
  | .struct _ _, .int _, _, _, _, _, h => by simp [patG] at h
  | .struct _ _, .array _ _, _, _, _, _, h => by simp [patG] at h
  | .struct _ _, .tuple _, _, _, _, _, h => by simp [patG] at h
  | .struct _ _, .enum _ _, _, _, _, _, h => by simp [patG] at h
  | .enumUnit en vn, .enum en' variants, v, m, bb, hv, h => by
    cases v with
    | enum name' v' isU vs =>
      simp only [Val.hasType, Bool.and_eq_true] at hv
      obtain ⟨_, hv2⟩ := hv
      split at hv2
      · rename_i i' u' fts' hf'
        simp only [patG] at h
        split at h
        · rename_i i u fts hf
          simp only [Option.some.injEq, Prod.mk.injEq] at h
          obtain ⟨rfl, rfl⟩ := h
          simp only [Val.encode, hf', List.append_assoc]
          rw [take_append_len _ _ _ (natToBits_length _ _), tag_eq variants vn v' i i' u u' fts fts' hf hf']
          simp only [matchPat]
          by_cases hvv : vn = v'
          · subst hvv; exact ⟨fun _ => ⟨[], by simp, EnvRel.nil⟩, by simp⟩
          · exact ⟨by simp [hvv], fun _ => by simp [hvv]⟩
        · simp at h
      · simp at hv2
    | _ => simp [Val.hasType] at hv
  | .enumTuple en vn ps, .enum en' variants, v, m, bb, hv, h => by
    cases v with
    | enum name' v' isU vs =>
      simp only [Val.hasType, Bool.and_eq_true] at hv
      obtain ⟨_, hv2⟩ := hv
      split at hv2
      · rename_i i' u' fts' hf'
        simp only [Bool.and_eq_true] at hv2
        simp only [patG] at h
        split at h
        · rename_i i u fts hf
          simp only [Val.encode, hf', List.append_assoc] at h
          rw [take_append_len _ _ _ (natToBits_length _ _), drop_append_len _ _ _ (natToBits_length _ _),
            tag_eq variants vn v' i i' u u' fts fts' hf hf'] at h
          split at h
          · rename_i m2 bb2 hps
            simp only [Option.some.injEq, Prod.mk.injEq] at h
            obtain ⟨rfl, rfl⟩ := h
            simp only [matchPat]
            by_cases hvv : vn = v'
            · subst hvv
              rw [hf] at hf'
              simp only [Option.some.injEq, Prod.mk.injEq] at hf'
              obtain ⟨_, _, rfl⟩ := hf'
              simpa using patsG_sound ps fts vs m2 bb2 _ hv2.2 hps
            · exact ⟨by simp [hvv], fun _ => by simp [hvv]⟩
          · simp at h
        · simp at h
      · simp at hv2
    | _ => simp [Val.hasType] at hv
  | .enumUnit _ _, .bool, _, _, _, _, h => by simp [patG] at h
  | .enumUnit _ _, .int _, _, _, _, _, h => by simp [patG] at h
  | .enumUnit _ _, .array _ _, _, _, _, _, h => by simp [patG] at h
  | .enumUnit _ _, .tuple _, _, _, _, _, h => by simp [patG] at h
  | .enumUnit _ _, .struct _ _, _, _, _, _, h => by simp [patG] at h
  | .enumTuple _ _ _, .bool, _, _, _, _, h => by simp [patG] at h
  | .enumTuple _ _ _, .int _, _, _, _, _, h => by simp [patG] at h
  | .enumTuple _ _ _, .array _ _, _, _, _, _, h => by simp [patG] at h
  | .enumTuple _ _ _, .tuple _, _, _, _, _, h => by simp [patG] at h
  | .enumTuple _ _ _, .struct _ _, _, _, _, _, h => by simp [patG] at h
theorem fieldsG_sound : ∀ (fps : FieldPats) (fs : Fields) (fvs : FieldVals) (m : Bool) (bb : BEnv), fvs.haveTypes fs = true →
    fieldsG fps fs (fvs.encodeEach fs) = some (m, bb) → PatOK m bb (matchFields fps fvs)
  | .nil, fs, fvs, m, bb, _, h => by
    simp only [fieldsG, Option.some.injEq, Prod.mk.injEq] at h
    obtain ⟨rfl, rfl⟩ := h
    exact ⟨fun _ => ⟨[], by simp [matchFields], EnvRel.nil⟩, by simp⟩
  | .cons n p r, fs, fvs, m, bb, hv, h => by
    simp only [fieldsG] at h
    split at h
    · rename_i off ti hn
      obtain ⟨vi, hg, ht, he⟩ := fields_nth fvs fs n off ti hv hn
      rw [he] at h
      split at h
      · rename_i m1 b1 m2 b2 h1 h2
        simp only [Option.some.injEq, Prod.mk.injEq] at h
        obtain ⟨rfl, rfl⟩ := h
        have i1 := patG_sound p ti vi m1 b1 ht h1
        have i2 := fieldsG_sound r fs fvs m2 b2 hv h2
        simp only [matchFields, hg]
        cases m1 with
        | false => rw [i1.2 rfl]; exact ⟨by simp, fun _ => by simp⟩
        | true =>
          obtain ⟨bd1, e1, r1⟩ := i1.1 rfl
          rw [e1]
          cases m2 with
          | false => rw [i2.2 rfl]; exact ⟨by simp, fun _ => by simp⟩
          | true =>
            obtain ⟨bd2, e2, r2⟩ := i2.1 rfl
            rw [e2]
            exact ⟨fun _ => ⟨bd2 ++ bd1, rfl, r2.append r1⟩, by simp⟩
      · simp at h
    · simp at h
theorem patsG_sound : ∀ (ps : PatList) (ts : TyList) (vs : ValList) (m : Bool) (bb : BEnv) (extra : List Bool),
    vs.haveTypes ts = true →
    patsG ps ts (vs.encodeEach ts ++ extra) = some (m, bb) → PatOK m bb (matchPats ps vs)
  | .nil, .nil, vs, m, bb, extra, hv, h => by
    cases vs with
    | nil =>
      simp only [patsG, Option.some.injEq, Prod.mk.injEq] at h
      obtain ⟨rfl, rfl⟩ := h
      exact ⟨fun _ => ⟨[], by simp [matchPats], EnvRel.nil⟩, by simp⟩
    | cons _ _ => simp [ValList.haveTypes] at hv
  | .nil, .cons _ _, _, _, _, _, _, h => by simp [patsG] at h
  | .cons _ _, .nil, _, _, _, _, _, h => by simp [patsG] at h
  | .cons p ps, .cons t ts, vs, m, bb, extra, hv, h => by
    cases vs with
    | nil => simp [ValList.haveTypes] at hv
    | cons v vs =>
      simp only [ValList.haveTypes, Bool.and_eq_true] at hv
      have hl := Val.encode_length v _ hv.1
      simp only [patsG, ValList.encodeEach, List.append_assoc] at h
      rw [take_append_len _ _ _ hl, drop_append_len _ _ _ hl] at h
      split at h
      · rename_i m1 b1 m2 b2 h1 h2
        simp only [Option.some.injEq, Prod.mk.injEq] at h
        obtain ⟨rfl, rfl⟩ := h
        have i1 := patG_sound p t v m1 b1 hv.1 h1
        have i2 := patsG_sound ps ts vs m2 b2 extra hv.2 h2
        simp only [matchPats]
        cases m1 with
        | false => rw [i1.2 rfl]; exact ⟨by simp, fun _ => by simp⟩
        | true =>
          obtain ⟨bd1, e1, r1⟩ := i1.1 rfl
          rw [e1]
          cases m2 with
          | false => rw [i2.2 rfl]; exact ⟨by simp, fun _ => by simp⟩
          | true =>
            obtain ⟨bd2, e2, r2⟩ := i2.1 rfl
            rw [e2]
            exact ⟨fun _ => ⟨bd2 ++ bd1, rfl, r2.append r1⟩, by simp⟩
      · simp at h
end

mutual
theorem total_bit : ∀ (p : Pat) (t : Ty) (bs : List Bool) (bb : BEnv), Pat.total p = true → patG p t bs = some (false, bb) → False
  | .ident x, t, bs, bb, _, h => by simp [patG] at h
  | .tuple ps, .tuple ts, bs, bb, ht, h => by
    simp only [patG] at h
    simp only [Pat.total] at ht
    exact totals_bit ps ts bs bb ht h
  | .tuple _, .bool, _, _, _, h => by simp [patG] at h
  | .tuple _, .int _, _, _, _, h => by simp [patG] at h
  | .tuple _, .array _ _, _, _, _, h => by simp [patG] at h
  | .tuple _, .struct _ _, _, _, _, h => by simp [patG] at h
  | .tuple _, .enum _ _, _, _, _, h => by simp [patG] at h
  | .bool _, _, _, _, ht, _ => by simp [Pat.total] at ht
  | .int _, _, _, _, ht, _ => by simp [Pat.total] at ht
  | .range _ _, _, _, _, ht, _ => by simp [Pat.total] at ht
  | .struct _ fps, .struct _ fs, bs, bb, ht, h => by
    simp only [patG] at h
    simp only [Pat.total] at ht
    exact ftotals_bit fps fs bs bb ht h
  | .struct _ _, .bool, _, _, _, h => by simp [patG] at h
  | .struct _ _, .int _, _, _, _, h => by simp [patG] at h
  | .struct _ _, .array _ _, _, _, _, h => by simp [patG] at h
  | .struct _ _, .tuple _, _, _, _, h => by simp [patG] at h
  | .struct _ _, .enum _ _, _, _, _, h => by simp [patG] at h
  | .enumUnit _ _, _, _, _, ht, _ => by simp [Pat.total] at ht
  | .enumTuple _ _ _, _, _, _, ht, _ => by simp [Pat.total] at ht
theorem ftotals_bit : ∀ (fps : FieldPats) (fs : Fields) (bs : List Bool) (bb : BEnv), FieldPats.total fps = true →
    fieldsG fps fs bs = some (false, bb) → False
  | .nil, fs, bs, bb, _, h => by simp [fieldsG] at h
  | .cons n p r, fs, bs, bb, ht, h => by
    simp only [FieldPats.total, Bool.and_eq_true] at ht
    simp only [fieldsG] at h
    split at h
    · split at h
      · rename_i m1 b1 m2 b2 h1 h2
        simp only [Option.some.injEq, Prod.mk.injEq, Bool.and_eq_false_iff] at h
        rcases h.1 with hm | hm
        · subst hm; exact total_bit p _ _ b1 ht.1 h1
        · subst hm; exact ftotals_bit r fs _ b2 ht.2 h2
      · simp at h
    · simp at h
theorem totals_bit : ∀ (ps : PatList) (ts : TyList) (bs : List Bool) (bb : BEnv), PatList.total ps = true →
    patsG ps ts bs = some (false, bb) → False
  | .nil, .nil, bs, bb, _, h => by simp [patsG] at h
  | .nil, .cons _ _, _, _, _, h => by simp [patsG] at h
  | .cons _ _, .nil, _, _, _, h => by simp [patsG] at h
  | .cons p ps, .cons t ts, bs, bb, ht, h => by
    simp only [PatList.total, Bool.and_eq_true] at ht
    simp only [patsG] at h
    split at h
    · rename_i m1 b1 m2 b2 h1 h2
      simp only [Option.some.injEq, Prod.mk.injEq, Bool.and_eq_false_iff] at h
      rcases h.1 with hm | hm
      · subst hm; exact total_bit p t _ b1 ht.1 h1
      · subst hm; exact totals_bit ps ts _ b2 ht.2 h2
    · simp at h
end

/-- the compiled match bit of an irrefutable pattern is always set -/
theorem irrefutable_bit {t : Ty} {p : Pat} {v : Val} {m : Bool} {bb : BEnv} (hi : irrefutable t p = true)
    (hv : v.hasType t = true) (h : patG p t (v.encode t) = some (m, bb)) :
    ∃ binds, matchPat p v = some binds ∧ EnvRel binds bb := by
  have hs := patG_sound p t v m bb hv h
  cases m with
  | true => exact hs.1 rfl
  | false =>
    exfalso
    have hnone := hs.2 rfl
    simp only [irrefutable, Bool.or_eq_true] at hi
    rcases hi with ht | hu
    · -- a binding or a tuple of bindings always matches: the bit cannot be clear
      exact absurd h (by
        intro h'
        exact total_bit p t (v.encode t) bb ht h')
    · have hnone' : uncovered t [p] = none := by
        cases hu' : uncovered t [p] with
        | none => rfl
        | some w => rw [hu'] at hu; simp at hu
      obtain ⟨q, hq, hsome⟩ := uncovered_complete t [p] hnone' v hv
      simp only [List.mem_singleton] at hq
      subst hq
      rw [hnone] at hsome
      simp at hsome

end Bit
end GV
