import GarbleVerif.Proofs.BitCore
import GarbleVerif.Proofs.BitShape
/-!
# Scalar patterns: the compiled match bit against `Src.matchPat`
-/
namespace GV
namespace Bit
open Src

/-- the bindings a scalar pattern makes -/
def bindsOf (bind : Option String) (v : Val) : Src.Env :=
  match bind with
  | some x => [(x, v)]
  | none => []

/-- the match bit of a scalar pattern is set exactly when the pattern matches the value; then it binds what the
compiled code binds -/
theorem patBits_sound (p : Pat) (ts : STy) (v : Val) (sb : List Bool) (m : Bool) (bind : Option String)
    (hrel : Rel ts v sb) (h : patBits p ts sb = some (m, bind)) :
    matchPat p v = if m then some (bindsOf bind v) else none := by
  unfold patBits at h
  split at h
  · -- ident
    simp only [Option.some.injEq, Prod.mk.injEq] at h
    obtain ⟨rfl, rfl⟩ := h
    simp [matchPat, bindsOf]
  · -- true
    rename_i b
    simp only [Option.some.injEq, Prod.mk.injEq] at h
    obtain ⟨rfl, rfl⟩ := h
    obtain ⟨b', rfl, hb⟩ := Rel.bool_inv hrel
    simp only [List.cons.injEq, and_true] at hb
    subst hb
    cases b <;> simp [matchPat, bindsOf]
  · -- false
    rename_i b
    simp only [Option.some.injEq, Prod.mk.injEq] at h
    obtain ⟨rfl, rfl⟩ := h
    obtain ⟨b', rfl, hb⟩ := Rel.bool_inv hrel
    simp only [List.cons.injEq, and_true] at hb
    subst hb
    cases b <;> simp [matchPat, bindsOf]
  · -- number
    rename_i bs0 n k
    split at h
    · rename_i hn
      simp only [Option.some.injEq, Prod.mk.injEq] at h
      obtain ⟨rfl, rfl⟩ := h
      obtain ⟨a, rfl, ha, rfl⟩ := Rel.int_inv hrel
      have := eqBits_enc k n a hn ha
      rw [show intToBits n k.bits = enc k n from rfl, this]
      by_cases hna : n = a
      · subst hna; simp [matchPat, bindsOf]
      · simp [matchPat, bindsOf, hna]
    · simp at h
  · -- range
    rename_i bs0 lo hi k
    split at h
    · rename_i hr
      simp only [Option.some.injEq, Prod.mk.injEq] at h
      obtain ⟨rfl, rfl⟩ := h
      obtain ⟨a, rfl, ha, rfl⟩ := Rel.int_inv hrel
      have c1 := comparator_enc k a lo ha hr.1
      have c2 := comparator_enc k a hi ha hr.2
      rw [show intToBits lo k.bits = enc k lo from rfl, show intToBits hi k.bits = enc k hi from rfl, c1, c2]
      simp only [matchPat, bindsOf]
      by_cases h1 : lo ≤ a <;> by_cases h2 : a ≤ hi <;> simp [h1, h2] <;> omega
    · simp at h
  · simp at h

end Bit
end GV
