import GarbleVerif.Model.BitSem
import GarbleVerif.Proofs.BitBridge
import GarbleVerif.Proofs.Wrap
/-! The bit-list operators of the compiler model on *encodings of values*: for operands that are
the encodings of in-range integers, `Arith.binop` returns the encoding of the exact result, and
its overflow condition holds exactly when the exact result is out of range. All widths. -/
namespace GV
namespace Bit
open Arith

/-- the encoding of an integer value of type `k` -/
def enc (k : IntTy) (a : Int) : List Bool := intToBits a k.bits

theorem enc_length (k : IntTy) (a : Int) : (enc k a).length = k.bits := by
  simp [enc, intToBits, natToBits_length]

theorem bits_pos (k : IntTy) : 1 ≤ k.bits := by cases k <;> decide

theorem pow_bits (k : IntTy) : (2 : Int) ^ k.bits = 2 * (2 : Int) ^ (k.bits - 1) := by
  have : k.bits = (k.bits - 1) + 1 := by have := bits_pos k; omega
  rw [this, Int.pow_succ]; simp; omega

theorem inRange_iff (k : IntTy) (a : Int) : k.inRange a = true ↔ k.lo ≤ a ∧ a ≤ k.hi := by
  simp [IntTy.inRange]

/-- unsigned value of an encoding -/
theorem toNat_enc (k : IntTy) (a : Int) : (toNat (enc k a) : Int) = a % (2 : Int) ^ k.bits := toNat_intToBits a k.bits

theorem toNat_enc_unsigned (k : IntTy) (a : Int) (hs : k.signed = false) (ha : k.inRange a = true) :
    (toNat (enc k a) : Int) = a := by
  rw [toNat_enc]
  have h := (inRange_iff k a).mp ha
  simp only [IntTy.lo, IntTy.hi, hs, Bool.false_eq_true, if_false] at h
  exact Int.emod_eq_of_lt h.1 (by omega)

/-- head bit of an encoding = sign of the residue -/
theorem head_enc (k : IntTy) (a : Int) :
    (enc k a).headD false = decide ((2 : Int) ^ (k.bits - 1) ≤ a % (2 : Int) ^ k.bits) := by
  obtain ⟨h, rest, hx, hr⟩ := exists_cons_of_length (x := enc k a) (n := k.bits - 1)
    (by rw [enc_length]; have := bits_pos k; omega)
  have hv := toNat_enc k a
  rw [hx] at hv ⊢
  simp only [List.headD_cons]
  have hi := head_iff h rest
  rw [hr] at hi
  have hP : ((2 ^ (k.bits - 1) : Nat) : Int) = (2 : Int) ^ (k.bits - 1) := by push_cast; rfl
  cases h with
  | true =>
    have : 2 ^ (k.bits - 1) ≤ toNat (true :: rest) := hi.mp rfl
    have : ((2 ^ (k.bits - 1) : Nat) : Int) ≤ (toNat (true :: rest) : Int) := by exact_mod_cast this
    rw [hP, hv] at this
    simp [this]
  | false =>
    have hn : ¬ 2 ^ (k.bits - 1) ≤ toNat (false :: rest) := fun h' => by simpa using hi.mpr h'
    have : ¬ ((2 ^ (k.bits - 1) : Nat) : Int) ≤ (toNat (false :: rest) : Int) := by
      intro h'; exact hn (by exact_mod_cast h')
    rw [hP, hv] at this
    simp [this]

/-- signed value of an encoding -/
theorem toInt_enc_signed (k : IntTy) (a : Int) (hs : k.signed = true) (ha : k.inRange a = true) :
    toInt (enc k a) = a := by
  have h := (inRange_iff k a).mp ha
  simp only [IntTy.lo, IntTy.hi, hs, if_true] at h
  have hp := pow_bits k
  have hpos : (0 : Int) < (2 : Int) ^ (k.bits - 1) := Int.pow_pos (by decide)
  unfold toInt
  rw [toNat_enc, head_enc, enc_length]
  by_cases hneg : a < 0
  · have hm : a % (2 : Int) ^ k.bits = a + (2 : Int) ^ k.bits := by
      rw [← Int.add_emod_right a ((2 : Int) ^ k.bits)]
      exact Int.emod_eq_of_lt (by omega) (by omega)
    rw [hm]
    have : (2 : Int) ^ (k.bits - 1) ≤ a + (2 : Int) ^ k.bits := by omega
    simp [this]
  · have hm : a % (2 : Int) ^ k.bits = a := Int.emod_eq_of_lt (by omega) (by omega)
    rw [hm]
    have : ¬ (2 : Int) ^ (k.bits - 1) ≤ a := by omega
    simp [this]

theorem valOf_enc (k : IntTy) (a : Int) (ha : k.inRange a = true) : valOf k.signed (enc k a) = a := by
  unfold valOf
  cases hs : k.signed
  · simpa using toNat_enc_unsigned k a hs ha
  · simpa using toInt_enc_signed k a hs ha

/-- a list of `k.bits` bits with signed value `V` is `enc k V` -/
theorem eq_enc_of_toInt (k : IntTy) (r : List Bool) (V : Int) (hl : r.length = k.bits) (h : toInt r = V) :
    r = enc k V := by
  apply eq_intToBits_of_emod r k.bits V hl
  unfold toInt at h
  rw [hl] at h
  split at h
  · have : (toNat r : Int) = V + (2 : Int) ^ k.bits := by omega
    rw [this, Int.add_emod_right]
  · have : (toNat r : Int) = V := by omega
    rw [this]

theorem eq_enc_of_toNat (k : IntTy) (r : List Bool) (V : Int) (hl : r.length = k.bits) (h : (toNat r : Int) = V) :
    r = enc k V := by
  apply eq_intToBits_of_emod r k.bits V hl
  rw [h]

theorem enc_injective (k : IntTy) (a b : Int) (ha : k.inRange a = true) (hb : k.inRange b = true)
    (h : enc k a = enc k b) : a = b := by
  have h1 := valOf_enc k a ha
  have h2 := valOf_enc k b hb
  rw [h] at h1
  omega

theorem extendToBits_self (v : List Bool) (s : Bool) (h : v ≠ []) : extendToBits v s v.length = v := by
  unfold extendToBits
  cases v with
  | nil => exact absurd rfl h
  | cons a r => simp

theorem enc_ne_nil (k : IntTy) (a : Int) : enc k a ≠ [] := by
  intro h
  have := enc_length k a
  rw [h] at this
  have := bits_pos k
  simp at *
  omega

/-- both operands, as `binop` sees them after `extend_to_bits` -/
theorem binop_operands (k : IntTy) (a b : Int) (s1 s2 : Bool) :
    extendToBits (enc k a) s1 (max (enc k a).length (enc k b).length) = enc k a ∧
    extendToBits (enc k b) s2 (max (enc k a).length (enc k b).length) = enc k b := by
  have h1 : max (enc k a).length (enc k b).length = (enc k a).length := by simp [enc_length]
  have h2 : max (enc k a).length (enc k b).length = (enc k b).length := by simp [enc_length]
  exact ⟨by rw [h1]; exact extendToBits_self _ _ (enc_ne_nil k a), by rw [h2]; exact extendToBits_self _ _ (enc_ne_nil k b)⟩

/-! ### `+` -/

theorem binop_add (k : IntTy) (a b : Int) (ha : k.inRange a = true) (hb : k.inRange b = true) :
    (k.inRange (a + b) = true →
      binop .add k.signed k.signed k.signed (enc k a) (enc k b) = (enc k (a + b), [(false, .overflow)])) ∧
    (k.inRange (a + b) = false →
      ∃ bits, binop .add k.signed k.signed k.signed (enc k a) (enc k b) = (bits, [(true, .overflow)])) := by
  have hops := binop_operands k a b k.signed k.signed
  have hlen : (enc k a).length = (enc k b).length := by simp [enc_length]
  have hra := (inRange_iff k a).mp ha
  have hrb := (inRange_iff k b).mp hb
  have hp := pow_bits k
  have hpos : (0 : Int) < (2 : Int) ^ (k.bits - 1) := Int.pow_pos (by decide)
  unfold binop
  simp only [hops.1, hops.2]
  cases hs : k.signed
  · -- unsigned
    simp only [Bool.or_self, Bool.false_eq_true, if_false]
    have hx := toNat_enc_unsigned k a hs ha
    have hy := toNat_enc_unsigned k b hs hb
    have hov := add_overflow_unsigned (enc k a) (enc k b) hlen
    have hsp := add_spec (enc k a) (enc k b) hlen
    have hal := add_length (enc k a) (enc k b) hlen
    rw [enc_length] at hov hsp hal
    simp only [IntTy.lo, IntTy.hi, hs, Bool.false_eq_true, if_false] at hra hrb
    have hP : ((2 ^ k.bits : Nat) : Int) = (2 : Int) ^ k.bits := by push_cast; rfl
    have hsum : ((toNat (enc k a) + toNat (enc k b) : Nat) : Int) = a + b := by push_cast; omega
    constructor
    · intro hr
      have hr' := (inRange_iff k (a + b)).mp hr
      simp only [IntTy.lo, IntTy.hi, hs, Bool.false_eq_true, if_false] at hr'
      have hno : (add (enc k a) (enc k b)).2.1 = false := by
        cases hc : (add (enc k a) (enc k b)).2.1
        · rfl
        · have := hov.mp hc
          have : ((2 ^ k.bits : Nat) : Int) ≤ ((toNat (enc k a) + toNat (enc k b) : Nat) : Int) := by exact_mod_cast this
          rw [hP, hsum] at this
          omega
      rw [hno] at hsp
      simp only [Bool.toNat_false, Nat.mul_zero, Nat.add_zero] at hsp
      have hv : (toNat (add (enc k a) (enc k b)).1 : Int) = a + b := by rw [hsp]; exact hsum
      rw [hno, eq_enc_of_toNat k _ (a + b) hal hv]
    · intro hr
      have hnr : ¬ (k.lo ≤ a + b ∧ a + b ≤ k.hi) := by
        intro h'; rw [(inRange_iff k (a + b)).mpr h'] at hr; simp at hr
      simp only [IntTy.lo, IntTy.hi, hs, Bool.false_eq_true, if_false] at hnr
      have : (add (enc k a) (enc k b)).2.1 = true := by
        apply hov.mpr
        have : (2 : Int) ^ k.bits ≤ a + b := by omega
        rw [← hP, ← hsum] at this
        exact_mod_cast this
      exact ⟨_, by rw [this]⟩
  · -- signed
    simp only [Bool.or_self, if_true]
    obtain ⟨xa, xr, hxa, hxl⟩ := exists_cons_of_length (x := enc k a) (n := k.bits - 1)
      (by rw [enc_length]; have := bits_pos k; omega)
    obtain ⟨ya, yr, hya, hyl⟩ := exists_cons_of_length (x := enc k b) (n := k.bits - 1)
      (by rw [enc_length]; have := bits_pos k; omega)
    have hx := toInt_enc_signed k a hs ha
    have hy := toInt_enc_signed k b hs hb
    rw [hxa] at hx
    rw [hya] at hy
    have hsg := add_signed xa ya xr yr (by rw [hxl, hyl])
    simp only at hsg
    rw [hx, hy, hxl] at hsg
    have hal := add_length (xa :: xr) (ya :: yr) (by simp [hxl, hyl])
    simp only [IntTy.lo, IntTy.hi, hs, if_true] at hra hrb
    rw [hxa, hya]
    constructor
    · intro hr
      have hr' := (inRange_iff k (a + b)).mp hr
      simp only [IntTy.lo, IntTy.hi, hs, if_true] at hr'
      have hno : ((add (xa :: xr) (ya :: yr)).2.1 ^^ (add (xa :: xr) (ya :: yr)).2.2) = false := by
        cases hc : ((add (xa :: xr) (ya :: yr)).2.1 ^^ (add (xa :: xr) (ya :: yr)).2.2)
        · rfl
        · have := hsg.2.mp hc; omega
      have hv := hsg.1 hno
      have hl : (add (xa :: xr) (ya :: yr)).1.length = k.bits := by
        rw [hal]; simp [hxl]; have := bits_pos k; omega
      rw [hno, eq_enc_of_toInt k _ (a + b) hl hv]
    · intro hr
      have hnr : ¬ (k.lo ≤ a + b ∧ a + b ≤ k.hi) := by
        intro h'; rw [(inRange_iff k (a + b)).mpr h'] at hr; simp at hr
      simp only [IntTy.lo, IntTy.hi, hs, if_true] at hnr
      have : ((add (xa :: xr) (ya :: yr)).2.1 ^^ (add (xa :: xr) (ya :: yr)).2.2) = true := by
        apply hsg.2.mpr; omega
      exact ⟨_, by rw [this]⟩

/-! ### `-` -/

theorem binop_sub (k : IntTy) (a b : Int) (ha : k.inRange a = true) (hb : k.inRange b = true) :
    (k.inRange (a - b) = true →
      binop .sub k.signed k.signed k.signed (enc k a) (enc k b) = (enc k (a - b), [(false, .overflow)])) ∧
    (k.inRange (a - b) = false →
      ∃ bits, binop .sub k.signed k.signed k.signed (enc k a) (enc k b) = (bits, [(true, .overflow)])) := by
  have hops := binop_operands k a b k.signed k.signed
  have hlen : (enc k a).length = (enc k b).length := by simp [enc_length]
  have hra := (inRange_iff k a).mp ha
  have hrb := (inRange_iff k b).mp hb
  have hp := pow_bits k
  have hpos : (0 : Int) < (2 : Int) ^ (k.bits - 1) := Int.pow_pos (by decide)
  unfold binop
  simp only [hops.1, hops.2]
  cases hs : k.signed
  · have hx := toNat_enc_unsigned k a hs ha
    have hy := toNat_enc_unsigned k b hs hb
    have hsu := sub_unsigned (enc k a) (enc k b) hlen
    rw [enc_length] at hsu
    simp only [IntTy.lo, IntTy.hi, hs, Bool.false_eq_true, if_false] at hra hrb
    constructor
    · intro hr
      have hr' := (inRange_iff k (a - b)).mp hr
      simp only [IntTy.lo, IntTy.hi, hs, Bool.false_eq_true, if_false] at hr'
      have hno : (sub (enc k a) (enc k b) false).2 = false := by
        cases hc : (sub (enc k a) (enc k b) false).2
        · rfl
        · have := hsu.1.mp hc
          have : (toNat (enc k a) : Int) < (toNat (enc k b) : Int) := by exact_mod_cast this
          omega
      have hv : (toNat (sub (enc k a) (enc k b) false).1 : Int) = a - b := by
        rw [hsu.2.1 hno]
        have : toNat (enc k b) ≤ toNat (enc k a) := by
          have : (toNat (enc k b) : Int) ≤ (toNat (enc k a) : Int) := by omega
          exact_mod_cast this
        rw [Int.ofNat_sub this]; omega
      rw [hno, eq_enc_of_toNat k _ (a - b) hsu.2.2 hv]
    · intro hr
      have hnr : ¬ (k.lo ≤ a - b ∧ a - b ≤ k.hi) := by
        intro h'; rw [(inRange_iff k (a - b)).mpr h'] at hr; simp at hr
      simp only [IntTy.lo, IntTy.hi, hs, Bool.false_eq_true, if_false] at hnr
      have : (sub (enc k a) (enc k b) false).2 = true := by
        apply hsu.1.mpr
        have : (toNat (enc k a) : Int) < (toNat (enc k b) : Int) := by omega
        exact_mod_cast this
      exact ⟨_, by rw [this]⟩
  · obtain ⟨xa, xr, hxa, hxl⟩ := exists_cons_of_length (x := enc k a) (n := k.bits - 1)
      (by rw [enc_length]; have := bits_pos k; omega)
    obtain ⟨ya, yr, hya, hyl⟩ := exists_cons_of_length (x := enc k b) (n := k.bits - 1)
      (by rw [enc_length]; have := bits_pos k; omega)
    have hx := toInt_enc_signed k a hs ha
    have hy := toInt_enc_signed k b hs hb
    rw [hxa] at hx
    rw [hya] at hy
    have hsg := sub_signed xa ya xr yr (by rw [hxl, hyl])
    simp only at hsg
    rw [hx, hy, hxl] at hsg
    simp only [IntTy.lo, IntTy.hi, hs, if_true] at hra hrb
    rw [hxa, hya]
    constructor
    · intro hr
      have hr' := (inRange_iff k (a - b)).mp hr
      simp only [IntTy.lo, IntTy.hi, hs, if_true] at hr'
      have hno : (sub (xa :: xr) (ya :: yr) true).2 = false := by
        cases hc : (sub (xa :: xr) (ya :: yr) true).2
        · rfl
        · have := hsg.1.mp hc; omega
      have hl : (sub (xa :: xr) (ya :: yr) true).1.length = k.bits := by
        rw [hsg.2.2]; have := bits_pos k; omega
      rw [hno, eq_enc_of_toInt k _ (a - b) hl (hsg.2.1 hno)]
    · intro hr
      have hnr : ¬ (k.lo ≤ a - b ∧ a - b ≤ k.hi) := by
        intro h'; rw [(inRange_iff k (a - b)).mpr h'] at hr; simp at hr
      simp only [IntTy.lo, IntTy.hi, hs, if_true] at hnr
      have : (sub (xa :: xr) (ya :: yr) true).2 = true := by
        apply hsg.1.mpr; omega
      exact ⟨_, by rw [this]⟩

/-! ### `<`, `>` -/

theorem comparator_enc (k : IntTy) (a b : Int) (ha : k.inRange a = true) (hb : k.inRange b = true) :
    comparator (enc k a) k.signed (enc k b) k.signed = (decide (a < b), decide (b < a)) := by
  have hlen : (enc k a).length = (enc k b).length := by simp [enc_length]
  cases hs : k.signed
  · rw [comparator_unsigned _ _ hlen]
    have hx := toNat_enc_unsigned k a hs ha
    have hy := toNat_enc_unsigned k b hs hb
    have e1 : (toNat (enc k a) < toNat (enc k b)) ↔ a < b := by
      constructor
      · intro h; have : (toNat (enc k a) : Int) < (toNat (enc k b) : Int) := by exact_mod_cast h
        omega
      · intro h; have : (toNat (enc k a) : Int) < (toNat (enc k b) : Int) := by omega
        exact_mod_cast this
    have e2 : (toNat (enc k b) < toNat (enc k a)) ↔ b < a := by
      constructor
      · intro h; have : (toNat (enc k b) : Int) < (toNat (enc k a) : Int) := by exact_mod_cast h
        omega
      · intro h; have : (toNat (enc k b) : Int) < (toNat (enc k a) : Int) := by omega
        exact_mod_cast this
    simp only [e1, e2]
  · obtain ⟨xa, xr, hxa, hxl⟩ := exists_cons_of_length (x := enc k a) (n := k.bits - 1)
      (by rw [enc_length]; have := bits_pos k; omega)
    obtain ⟨ya, yr, hya, hyl⟩ := exists_cons_of_length (x := enc k b) (n := k.bits - 1)
      (by rw [enc_length]; have := bits_pos k; omega)
    have hx := toInt_enc_signed k a hs ha
    have hy := toInt_enc_signed k b hs hb
    rw [hxa] at hx ⊢
    rw [hya] at hy ⊢
    rw [comparator_signed xa ya xr yr (by rw [hxl, hyl]), hx, hy]

theorem binop_lt (k : IntTy) (a b : Int) (ha : k.inRange a = true) (hb : k.inRange b = true) :
    binop .lt k.signed k.signed false (enc k a) (enc k b) = ([decide (a < b)], []) := by
  have hops := binop_operands k a b k.signed k.signed
  unfold binop
  simp only [hops.1, hops.2, comparator_enc k a b ha hb]

theorem binop_gt (k : IntTy) (a b : Int) (ha : k.inRange a = true) (hb : k.inRange b = true) :
    binop .gt k.signed k.signed false (enc k a) (enc k b) = ([decide (b < a)], []) := by
  have hops := binop_operands k a b k.signed k.signed
  unfold binop
  simp only [hops.1, hops.2, comparator_enc k a b ha hb]

/-! ### `==`, `!=` -/

theorem eqBits_enc (k : IntTy) (a b : Int) (ha : k.inRange a = true) (hb : k.inRange b = true) :
    eqBits (enc k a) (enc k b) = decide (a = b) := by
  have hlen : (enc k a).length = (enc k b).length := by simp [enc_length]
  have := eqBits_iff (enc k a) (enc k b) hlen
  by_cases h : a = b
  · subst h; simp [this.mpr rfl]
  · have hne : enc k a ≠ enc k b := fun h' => h (enc_injective k a b ha hb h')
    cases hc : eqBits (enc k a) (enc k b)
    · simp [h]
    · exact absurd (this.mp hc) hne

theorem binop_eq_int (k : IntTy) (a b : Int) (ha : k.inRange a = true) (hb : k.inRange b = true) :
    binop .eq false false false (enc k a) (enc k b) = ([decide (a = b)], []) ∧
    binop .ne false false false (enc k a) (enc k b) = ([!decide (a = b)], []) := by
  have hops := binop_operands k a b false false
  unfold binop
  simp only [hops.1, hops.2, eqBits_enc k a b ha hb]
  trivial

theorem binop_bool (a b : Bool) :
    binop .eq false false false [a] [b] = ([a == b], []) ∧
    binop .ne false false false [a] [b] = ([a != b], []) ∧
    binop .bitAnd false false false [a] [b] = ([a && b], []) ∧
    binop .bitOr false false false [a] [b] = ([a || b], []) ∧
    binop .bitXor false false false [a] [b] = ([a != b], []) := by
  cases a <;> cases b <;> decide

/-! ### unary `-` -/

theorem negChecked_enc (k : IntTy) (a : Int) (hs : k.signed = true) (ha : k.inRange a = true) :
    (k.inRange (-a) = true → negChecked (enc k a) = (enc k (-a), false)) ∧
    (k.inRange (-a) = false → (negChecked (enc k a)).2 = true) := by
  obtain ⟨xa, xr, hxa, hxl⟩ := exists_cons_of_length (x := enc k a) (n := k.bits - 1)
    (by rw [enc_length]; have := bits_pos k; omega)
  have hx := toInt_enc_signed k a hs ha
  have hsp := negChecked_spec xa xr
  simp only at hsp
  rw [hxa] at hx ⊢
  rw [hx, hxl] at hsp
  have hra := (inRange_iff k a).mp ha
  simp only [IntTy.lo, IntTy.hi, hs, if_true] at hra
  have hp := pow_bits k
  have hpos : (0 : Int) < (2 : Int) ^ (k.bits - 1) := Int.pow_pos (by decide)
  constructor
  · intro hr
    have hr' := (inRange_iff k (-a)).mp hr
    simp only [IntTy.lo, IntTy.hi, hs, if_true] at hr'
    have hno : (negChecked (xa :: xr)).2 = false := by
      cases hc : (negChecked (xa :: xr)).2
      · rfl
      · have := hsp.1.mp hc; omega
    have hl : (negChecked (xa :: xr)).1.length = k.bits := by
      simp only [negChecked, neg_length, List.length_cons, hxl]; have := bits_pos k; omega
    have := eq_enc_of_toInt k _ (-a) hl (hsp.2 hno)
    exact Prod.ext this hno
  · intro hr
    have hnr : ¬ (k.lo ≤ -a ∧ -a ≤ k.hi) := by
      intro h'; rw [(inRange_iff k (-a)).mpr h'] at hr; simp at hr
    simp only [IntTy.lo, IntTy.hi, hs, if_true] at hnr
    exact hsp.1.mpr (by omega)

/-! ### `<=`, `>=` -/

theorem le_bits (k : IntTy) (a b : Int) (ha : k.inRange a = true) (hb : k.inRange b = true) :
    bOr (comparator (enc k a) k.signed (enc k b) k.signed).1 (eqBits (enc k a) (enc k b)) = decide (a ≤ b) ∧
    bOr (comparator (enc k a) k.signed (enc k b) k.signed).2 (eqBits (enc k a) (enc k b)) = decide (a ≥ b) := by
  rw [comparator_enc k a b ha hb, eqBits_enc k a b ha hb, bOr_eq, bOr_eq]
  constructor
  · by_cases h1 : a < b <;> by_cases h2 : a = b <;> simp [h1, h2] <;> omega
  · by_cases h1 : b < a <;> by_cases h2 : a = b <;> simp [h1, h2] <;> omega

/-! ### `as` -/

theorem intToBits_congr (a b : Int) (w : Nat) (h : a % (2 : Int) ^ w = b % (2 : Int) ^ w) :
    intToBits a w = intToBits b w := by
  unfold intToBits; rw [h]

/-- the bits of a cast are the encoding of the source value in the target width -/
theorem cast_bits (x : List Bool) (s : Bool) (w : Nat) (V : Int) (hx : x ≠ []) (hv : valOf s x = V) :
    Arith.cast x s w = intToBits V w := by
  obtain ⟨a, rest, rfl⟩ : ∃ a rest, x = a :: rest := by
    cases x with
    | nil => exact absurd rfl hx
    | cons a rest => exact ⟨a, rest, rfl⟩
  have hl := cast_length (a :: rest) s w (by simp)
  obtain ⟨q, hq⟩ := cast_spec a rest s w
  apply eq_intToBits_of_emod _ w V hl
  rw [← hv, hq, Int.add_mul_emod_self_right]

theorem cast_int_int (k k' : IntTy) (n : Int) (hn : k.inRange n = true) :
    Arith.cast (enc k n) k.signed k'.bits = enc k' (Src.wrapTo k' n) ∧ k'.inRange (Src.wrapTo k' n) = true := by
  constructor
  · rw [cast_bits (enc k n) k.signed k'.bits n (enc_ne_nil k n) (valOf_enc k n hn)]
    unfold enc
    exact intToBits_congr _ _ _ (Src.wrapTo_emod k' n).symm
  · have := Src.wrapTo_range k' n
    exact (inRange_iff k' _).mpr this

theorem cast_bool_int (k' : IntTy) (b : Bool) :
    Arith.cast [b] false k'.bits = enc k' (if b then 1 else 0) ∧ k'.inRange (if b then 1 else 0) = true := by
  constructor
  · have hv : valOf false [b] = (if b then 1 else 0) := by cases b <;> decide
    rw [cast_bits [b] false k'.bits _ (by simp) hv]; rfl
  · cases b <;> cases k' <;> decide

theorem cast_int_bool (k : IntTy) (n : Int) (hn : k.inRange n = true) :
    Arith.cast (enc k n) k.signed 1 = [n % 2 == 1] := by
  rw [cast_bits (enc k n) k.signed 1 n (enc_ne_nil k n) (valOf_enc k n hn)]
  have h0 := Int.emod_nonneg n (by decide : (2 : Int) ≠ 0)
  have h1 := Int.emod_lt_of_pos n (by decide : (0 : Int) < 2)
  have hcases : n % 2 = 0 ∨ n % 2 = 1 := by omega
  simp only [intToBits, natToBits, Int.pow_one, Nat.pow_zero, Nat.div_one]
  rcases hcases with h | h <;> rw [h] <;> rfl

end Bit
end GV
