import GarbleVerif.Model.Literal
import GarbleVerif.Proofs.Encoding
/-!
# A literal that `is_of_type` accepts denotes a well-typed value, and `as_bits` emits that value's encoding
-/
namespace GV

namespace Fields
def names : Fields → List String
  | nil => []
  | cons n _ r => n :: r.names
def toList : Fields → List (String × Ty)
  | nil => []
  | cons n t r => (n, t) :: r.toList
end Fields

/- `DefsOK`: the definitions the literal is encoded with are the ones the type was expanded from; struct fields
have distinct names; a unit variant has no fields -/
mutual
def Ty.DefsOK (d : Defs) : Ty → Prop
  | .bool => True
  | .int _ => True
  | .array t _ => t.DefsOK d
  | .tuple ts => ts.DefsOK d
  | .struct name fs => d.struct? name = some fs ∧ fs.names.Nodup ∧ fs.DefsOK d
  | .enum name vs => d.enum? name = some vs ∧ vs.DefsOK d
def TyList.DefsOK (d : Defs) : TyList → Prop
  | .nil => True
  | .cons t r => t.DefsOK d ∧ r.DefsOK d
def Fields.DefsOK (d : Defs) : Fields → Prop
  | .nil => True
  | .cons _ t r => t.DefsOK d ∧ r.DefsOK d
def Variants.DefsOK (d : Defs) : Variants → Prop
  | .nil => True
  | .cons _ u fs r => (u = true → fs = .nil) ∧ fs.DefsOK d ∧ r.DefsOK d
end

/-! ### lookups -/

theorem Fields.find?_DefsOK (d : Defs) : ∀ (fs : Fields) (n : String) (t : Ty), fs.DefsOK d → fs.find? n = some t →
    t.DefsOK d
  | .nil, n, t, _, h => by simp [Fields.find?] at h
  | .cons n' t' r, n, t, hd, h => by
    simp only [Fields.find?] at h
    simp only [Fields.DefsOK] at hd
    split at h
    · simp only [Option.some.injEq] at h; subst h; exact hd.1
    · exact Fields.find?_DefsOK d r n t hd.2 h

theorem Fields.find?_mem_names : ∀ (fs : Fields) (n : String) (t : Ty), fs.find? n = some t → n ∈ fs.names
  | .nil, n, t, h => by simp [Fields.find?] at h
  | .cons n' t' r, n, t, h => by
    simp only [Fields.find?] at h
    simp only [Fields.names, List.mem_cons]
    split at h
    · rename_i hn; left; exact (by simpa using hn : n' = n).symm
    · right; exact Fields.find?_mem_names r n t h

theorem Fields.mem_names_of_mem : ∀ (fs : Fields) (n : String) (t : Ty), (n, t) ∈ fs.toList → n ∈ fs.names
  | .nil, n, t, h => by simp [Fields.toList] at h
  | .cons n2 t2 r2, n, t, h => by
    simp only [Fields.toList, List.mem_cons, Prod.mk.injEq] at h
    simp only [Fields.names, List.mem_cons]
    rcases h with ⟨rfl, _⟩ | h
    · left; rfl
    · right; exact Fields.mem_names_of_mem r2 n t h

theorem Fields.find?_of_mem : ∀ (fs : Fields) (n : String) (t : Ty), fs.names.Nodup → (n, t) ∈ fs.toList →
    fs.find? n = some t
  | .nil, n, t, _, h => by simp [Fields.toList] at h
  | .cons n' t' r, n, t, hnd, h => by
    simp only [Fields.toList, List.mem_cons, Prod.mk.injEq] at h
    simp only [Fields.names, List.nodup_cons] at hnd
    simp only [Fields.find?]
    rcases h with ⟨rfl, rfl⟩ | h
    · simp
    · have hne : ¬ (n' == n) = true := by
        intro he
        have : n' = n := by simpa using he
        subst this
        -- the name occurs later as well
        have : n' ∈ r.names := Fields.mem_names_of_mem r n' t h
        exact hnd.1 this
      simp only [hne, if_false]
      exact Fields.find?_of_mem r n t hnd.2 h

theorem Variants.find?_DefsOK (d : Defs) : ∀ (vs : Variants) (name : String) (i : Nat) (u : Bool) (fts : TyList),
    vs.DefsOK d → vs.find? name = some (i, u, fts) → fts.DefsOK d ∧ (u = true → fts = .nil)
  | .nil, _, _, _, _, _, h => by simp [Variants.find?] at h
  | .cons n u' fs r, name, i, u, fts, hd, h => by
    simp only [Variants.find?] at h
    simp only [Variants.DefsOK] at hd
    split at h
    · simp only [Option.some.injEq, Prod.mk.injEq] at h
      obtain ⟨_, rfl, rfl⟩ := h
      exact ⟨hd.2.1, hd.1⟩
    · split at h
      · rename_i i' u'' fs' hr
        simp only [Option.some.injEq, Prod.mk.injEq] at h
        obtain ⟨_, rfl, rfl⟩ := h
        exact Variants.find?_DefsOK d r name i' u'' fs' hd.2.2 hr
      · simp at h

/-! ### pigeonhole on field names -/

theorem mem_of_nodup_subset_length {α : Type} [DecidableEq α] : ∀ (l1 l2 : List α), l1.Nodup → (∀ x ∈ l1, x ∈ l2) →
    l2.length ≤ l1.length → ∀ y ∈ l2, y ∈ l1
  | [], l2, _, _, hl, y, hy => by
    have : l2 = [] := List.eq_nil_of_length_eq_zero (by simpa using hl)
    subst this; simp at hy
  | a :: l1, l2, hnd, hsub, hl, y, hy => by
    have ha : a ∈ l2 := hsub a (List.mem_cons_self ..)
    have hnd' := List.nodup_cons.mp hnd
    have hlen : (l2.erase a).length = l2.length - 1 := List.length_erase_of_mem ha
    have hpos : 0 < l2.length := List.length_pos_of_mem ha
    have ih := mem_of_nodup_subset_length l1 (l2.erase a) hnd'.2
      (fun x hx => (List.mem_erase_of_ne (fun e => hnd'.1 (by rw [← e]; exact hx))).mpr (hsub x (List.mem_cons_of_mem _ hx)))
      (by simp only [List.length_cons] at hl; omega)
    by_cases hya : y = a
    · subst hya; exact List.mem_cons_self ..
    · exact List.mem_cons_of_mem _ (ih y ((List.mem_erase_of_ne hya).mpr hy))

/-! ### numbers, repeats, ranges -/

theorem natToBits_mod (n S : Nat) : ∀ size, size ≤ S → natToBits (n % 2 ^ S) size = natToBits n size := by
  intro size
  induction size with
  | zero => intro _; rfl
  | succ j ih =>
    intro hj
    simp only [natToBits]
    rw [ih (by omega)]
    congr 2
    have hS : 2 ^ S = 2 ^ j * 2 ^ (S - j) := by rw [← Nat.pow_add]; congr 1; omega
    rw [hS, Nat.mod_mul_right_div_self]
    have : 2 ∣ 2 ^ (S - j) := by
      have : S - j = (S - j - 1) + 1 := by omega
      rw [this, Nat.pow_succ]; exact Nat.dvd_mul_left _ _
    rw [Nat.mod_mod_of_dvd _ this]

theorem intToBits_natCast (n size : Nat) : intToBits (n : Int) size = natToBits n size := by
  unfold intToBits
  have h2 : ((2 : Int) ^ size) = ((2 ^ size : Nat) : Int) := by simp
  rw [h2, ← Int.natCast_emod, Int.toNat_natCast]
  exact natToBits_mod n size size (Nat.le_refl _)

theorem replicate_length (n : Nat) (v : Val) : (ValList.replicate n v).length = n := by
  induction n with
  | zero => rfl
  | succ n ih => simp [ValList.replicate, ValList.length, ih]

theorem replicate_allHaveType (n : Nat) (v : Val) (t : Ty) (h : v.hasType t = true) :
    (ValList.replicate n v).allHaveType t = true := by
  induction n with
  | zero => rfl
  | succ n ih => simp [ValList.replicate, ValList.allHaveType, h, ih]

theorem repeatBits_encodeAll (n : Nat) (v : Val) (t : Ty) :
    repeatBits (v.encode t) n = (ValList.replicate n v).encodeAll t := by
  induction n with
  | zero => rfl
  | succ n ih => simp [repeatBits, ValList.replicate, ValList.encodeAll, ih]

theorem rangeVals_length (min count : Nat) : (rangeVals min count).length = count := by
  induction count generalizing min with
  | zero => rfl
  | succ c ih => simp [rangeVals, ValList.length, ih]

theorem rangeVals_allHaveType (k : IntTy) (hs : k.signed = false) : ∀ (count min : Nat),
    (count = 0 ∨ k.inRange ((min + count : Nat) - 1 : Int) = true) →
    (rangeVals min count).allHaveType (.int k) = true := by
  intro count
  induction count with
  | zero => intro min _; rfl
  | succ c ih =>
    intro min h
    have hr : k.inRange ((min + (c + 1) : Nat) - 1 : Int) = true := by
      rcases h with h | h
      · omega
      · exact h
    simp only [IntTy.inRange, IntTy.lo, IntTy.hi, hs, Bool.false_eq_true, if_false, Bool.and_eq_true,
      decide_eq_true_eq] at hr
    simp only [rangeVals, ValList.allHaveType, Val.hasType, Bool.and_eq_true]
    constructor
    · simp only [IntTy.inRange, IntTy.lo, IntTy.hi, hs, Bool.false_eq_true, if_false, Bool.and_eq_true,
        decide_eq_true_eq]
      omega
    · apply ih (min + 1)
      by_cases hc : c = 0
      · left; exact hc
      · right
        simp only [IntTy.inRange, IntTy.lo, IntTy.hi, hs, Bool.false_eq_true, if_false, Bool.and_eq_true,
          decide_eq_true_eq]
        omega

theorem rangeBits_encodeAll (k : IntTy) : ∀ (count min : Nat),
    rangeBits k.bits min count = (rangeVals min count).encodeAll (.int k) := by
  intro count
  induction count with
  | zero => intro min; rfl
  | succ c ih =>
    intro min
    simp only [rangeBits, rangeVals, ValList.encodeAll, Val.encode, ih (min + 1), intToBits_natCast]

/-! ### struct fields: from "each literal field is a field of the definition" to "in definition order" -/

theorem fieldsOfType_names : ∀ (lfs : LitFields) (fs : Fields), lfs.fieldsOfType fs = true →
    ∀ x ∈ lfs.names, x ∈ fs.names
  | .nil, _, _, x, hx => by simp [LitFields.names] at hx
  | .cons n l r, fs, h, x, hx => by
    simp only [LitFields.fieldsOfType, Bool.and_eq_true] at h
    simp only [LitFields.names, List.mem_cons] at hx
    rcases hx with rfl | hx
    · cases hf : fs.find? x with
      | none => simp [hf] at h
      | some t => exact Fields.find?_mem_names fs x t hf
    · exact fieldsOfType_names r fs h.2 x hx

theorem Fields.names_length : ∀ fs : Fields, fs.names.length = fs.length
  | .nil => rfl
  | .cons _ _ r => by simp [Fields.names, Fields.length, Fields.names_length r]

theorem LitFields.names_length : ∀ lfs : LitFields, lfs.names.length = lfs.length
  | .nil => rfl
  | .cons _ _ r => by simp [LitFields.names, LitFields.length, LitFields.names_length r]

/-- the fields of a suffix of the definition, in order -/
theorem inOrder (d : Defs) (lfs : LitFields) (fs0 : Fields)
    (hall : ∀ n t, fs0.find? n = some t → n ∈ lfs.names →
      ∃ v, lfs.denoteField n t = some v ∧ v.hasType t = true ∧ lfs.findBits d n = some (v.encode t)) :
    ∀ fs : Fields, (∀ n t, (n, t) ∈ fs.toList → fs0.find? n = some t ∧ n ∈ lfs.names) →
      ∃ fvs, lfs.denoteInOrder fs = some fvs ∧ fvs.haveTypes fs = true ∧ lfs.asBitsInOrder d fs = fvs.encodeEach fs
  | .nil, _ => ⟨.nil, by simp [LitFields.denoteInOrder], by simp [FieldVals.haveTypes],
    by simp [LitFields.asBitsInOrder, FieldVals.encodeEach]⟩
  | .cons n t rest, hmem => by
    obtain ⟨hf, hn⟩ := hmem n t (by simp [Fields.toList])
    obtain ⟨v, hv1, hv2, hv3⟩ := hall n t hf hn
    obtain ⟨fvs, h1, h2, h3⟩ := inOrder d lfs fs0 hall rest
      (fun n' t' h' => hmem n' t' (by simp [Fields.toList, h']))
    refine ⟨.cons n v fvs, ?_, ?_, ?_⟩
    · simp [LitFields.denoteInOrder, hv1, h1]
    · simp [FieldVals.haveTypes, hv2, h2]
    · simp [LitFields.asBitsInOrder, hv3, h3, FieldVals.encodeEach]

/-! ### the theorem -/

mutual
theorem Lit.accept (d : Defs) : (l : Lit) → ∀ (t : Ty), t.DefsOK d → l.isOfType t = true →
    ∃ v, l.denote t = some v ∧ v.hasType t = true ∧ l.asBits d = v.encode t
  | .true, t, _, h => by
    cases t <;> simp only [Lit.isOfType] at h <;> try (simp at h; done)
    exact ⟨.bool true, by simp [Lit.denote], by simp [Val.hasType], by simp [Lit.asBits, Val.encode]⟩
  | .false, t, _, h => by
    cases t <;> simp only [Lit.isOfType] at h <;> try (simp at h; done)
    exact ⟨.bool false, by simp [Lit.denote], by simp [Val.hasType], by simp [Lit.asBits, Val.encode]⟩
  | .numU n k, t, hd, h => by
    cases t <;> simp only [Lit.isOfType] at h <;> try (simp at h; done)
    rename_i k2
    simp only [Bool.and_eq_true, beq_iff_eq, Bool.not_eq_true'] at h
    obtain ⟨⟨rfl, hs⟩, hr⟩ := h
    refine ⟨.int n, by simp [Lit.denote, hs], by simpa [Val.hasType] using hr, ?_⟩
    simp [Lit.asBits, Val.encode, intToBits_natCast]
  | .numS n k, t, hd, h => by
    cases t <;> simp only [Lit.isOfType] at h <;> try (simp at h; done)
    rename_i k2
    simp only [Bool.and_eq_true, beq_iff_eq] at h
    obtain ⟨⟨rfl, hs⟩, hr⟩ := h
    exact ⟨.int n, by simp [Lit.denote, hs], by simpa [Val.hasType] using hr, by simp [Lit.asBits, Val.encode]⟩
  | .arrayRepeat elem n, t, hd, h => by
    cases t <;> simp only [Lit.isOfType] at h <;> try (simp at h; done)
    rename_i te n2
    simp only [Bool.and_eq_true, beq_iff_eq] at h
    obtain ⟨rfl, he⟩ := h
    simp only [Ty.DefsOK] at hd
    obtain ⟨v, hv1, hv2, hv3⟩ := Lit.accept d elem te hd he
    refine ⟨.array (ValList.replicate n v), by simp [Lit.denote, hv1], ?_, ?_⟩
    · simp [Val.hasType, replicate_length, replicate_allHaveType n v te hv2]
    · simp only [Lit.asBits, Val.encode, hv3, repeatBits_encodeAll]
  | .array elems, t, hd, h => by
    cases t <;> simp only [Lit.isOfType] at h <;> try (simp at h; done)
    rename_i te n2
    simp only [Bool.and_eq_true, beq_iff_eq] at h
    obtain ⟨hl, he⟩ := h
    simp only [Ty.DefsOK] at hd
    obtain ⟨vs, h1, h2, h3, h4⟩ := LitList.acceptAll d elems te hd he
    refine ⟨.array vs, by simp [Lit.denote, h1], ?_, ?_⟩
    · simp [Val.hasType, h2, h3, hl]
    · simp only [Lit.asBits, Val.encode, h4]
  | .tuple ls, t, hd, h => by
    cases t <;> simp only [Lit.isOfType] at h <;> try (simp at h; done)
    rename_i ts
    simp only [Ty.DefsOK] at hd
    obtain ⟨vs, h1, h2, h3⟩ := LitList.acceptEach d ls ts hd h
    exact ⟨.tuple vs, by simp [Lit.denote, h1], by simp [Val.hasType, h2], by simp only [Lit.asBits, Val.encode, h3]⟩
  | .struct name lfs, t, hd, h => by
    cases t <;> simp only [Lit.isOfType] at h <;> try (simp at h; done)
    rename_i name' fs
    simp only [Bool.and_eq_true, beq_iff_eq, decide_eq_true_eq] at h
    obtain ⟨⟨⟨rfl, hlen⟩, hft⟩, hnd⟩ := h
    simp only [Ty.DefsOK] at hd
    obtain ⟨hdef, hfnd, hfd⟩ := hd
    -- every field of the definition occurs in the literal
    have hcover : ∀ y ∈ fs.names, y ∈ lfs.names :=
      mem_of_nodup_subset_length lfs.names fs.names hnd (fieldsOfType_names lfs fs hft)
        (by rw [Fields.names_length, LitFields.names_length, hlen]; exact Nat.le_refl _)
    have hall := LitFields.acceptField d lfs fs hfd hft
    obtain ⟨fvs, h1, h2, h3⟩ := inOrder d lfs fs hall fs (fun n t hm =>
      ⟨Fields.find?_of_mem fs n t hfnd hm, hcover n (Fields.mem_names_of_mem fs n t hm)⟩)
    refine ⟨.struct name fvs, ?_, by simp [Val.hasType, h2], ?_⟩
    · simp [Lit.denote, hlen, h1]
    · simp only [Lit.asBits, hdef, Val.encode, h3]
  | .enum name variant isUnit ls, t, hd, h => by
    cases t <;> simp only [Lit.isOfType] at h <;> try (simp at h; done)
    rename_i name' variants
    simp only [Bool.and_eq_true, beq_iff_eq] at h
    obtain ⟨rfl, hv⟩ := h
    simp only [Ty.DefsOK] at hd
    obtain ⟨hdef, hvd⟩ := hd
    cases hf : variants.find? variant with
    | none => simp [hf] at hv
    | some r =>
      obtain ⟨i, u, fts⟩ := r
      simp only [hf, Bool.and_eq_true, beq_iff_eq, Bool.or_eq_true] at hv
      obtain ⟨rfl, hor⟩ := hv
      obtain ⟨hftd, hunit⟩ := Variants.find?_DefsOK d variants variant i u fts hvd hf
      cases u with
      | true =>
        have hnil := hunit rfl
        subst hnil
        refine ⟨.enum name variant true .nil, by simp [Lit.denote, hf], by simp [Val.hasType, hf, ValList.haveTypes], ?_⟩
        simp [Lit.asBits, hdef, hf, Val.encode, ValList.encodeEach]
      | false =>
        have he : ls.eachOfType fts = true := by simpa using hor
        obtain ⟨vs, h1, h2, h3⟩ := LitList.acceptEach d ls fts hftd he
        refine ⟨.enum name variant false vs, by simp [Lit.denote, hf, h1], by simp [Val.hasType, hf, h2], ?_⟩
        simp [Lit.asBits, hdef, hf, Val.encode, h3]
  | .range min max k, t, hd, h => by
    cases t <;> simp only [Lit.isOfType] at h <;> try (simp at h; done)
    rename_i te n
    cases te <;> try (simp at h; done)
    rename_i k'
    simp only [Bool.and_eq_true, beq_iff_eq, Bool.not_eq_true', decide_eq_true_eq, Bool.or_eq_true] at h
    obtain ⟨⟨⟨⟨rfl, hs⟩, hle⟩, hn⟩, hin⟩ := h
    refine ⟨.array (rangeVals min (max - min)), by simp [Lit.denote, hle], ?_, ?_⟩
    · simp only [Val.hasType, rangeVals_length, Bool.and_eq_true, beq_iff_eq]
      refine ⟨hn, rangeVals_allHaveType k hs _ _ ?_⟩
      rcases hin with h1 | h1
      · left; omega
      · right
        have : ((min + (max - min) : Nat) : Int) - 1 = (max : Int) - 1 := by omega
        rw [this]; exact h1
    · simp only [Lit.asBits, Val.encode, rangeBits_encodeAll]
theorem LitList.acceptAll (d : Defs) : (ls : LitList) → ∀ (t : Ty), t.DefsOK d → ls.allOfType t = true →
    ∃ vs, ls.denoteAll t = some vs ∧ vs.allHaveType t = true ∧ vs.length = ls.length ∧ ls.asBits d = vs.encodeAll t
  | .nil, _, _, _ => ⟨.nil, by simp [LitList.denoteAll], by simp [ValList.allHaveType],
    by simp [ValList.length, LitList.length], by simp [LitList.asBits, ValList.encodeAll]⟩
  | .cons l r, t, hd, h => by
    simp only [LitList.allOfType, Bool.and_eq_true] at h
    obtain ⟨v, hv1, hv2, hv3⟩ := Lit.accept d l t hd h.1
    obtain ⟨vs, h1, h2, h3, h4⟩ := LitList.acceptAll d r t hd h.2
    exact ⟨.cons v vs, by simp [LitList.denoteAll, hv1, h1], by simp [ValList.allHaveType, hv2, h2],
      by simp [ValList.length, LitList.length, h3], by simp [LitList.asBits, ValList.encodeAll, hv3, h4]⟩
theorem LitList.acceptEach (d : Defs) : (ls : LitList) → ∀ (ts : TyList), ts.DefsOK d → ls.eachOfType ts = true →
    ∃ vs, ls.denoteEach ts = some vs ∧ vs.haveTypes ts = true ∧ ls.asBits d = vs.encodeEach ts
  | .nil, ts, _, h => by
    cases ts with
    | nil => exact ⟨.nil, by simp [LitList.denoteEach], by simp [ValList.haveTypes],
        by simp [LitList.asBits, ValList.encodeEach]⟩
    | cons _ _ => simp [LitList.eachOfType] at h
  | .cons l r, ts, hd, h => by
    cases ts with
    | nil => simp [LitList.eachOfType] at h
    | cons t ts =>
      simp only [LitList.eachOfType, Bool.and_eq_true] at h
      simp only [TyList.DefsOK] at hd
      obtain ⟨v, hv1, hv2, hv3⟩ := Lit.accept d l t hd.1 h.1
      obtain ⟨vs, h1, h2, h3⟩ := LitList.acceptEach d r ts hd.2 h.2
      exact ⟨.cons v vs, by simp [LitList.denoteEach, hv1, h1], by simp [ValList.haveTypes, hv2, h2],
        by simp [LitList.asBits, ValList.encodeEach, hv3, h3]⟩
theorem LitFields.acceptField (d : Defs) : (lfs : LitFields) → ∀ (fs0 : Fields), fs0.DefsOK d →
    lfs.fieldsOfType fs0 = true → ∀ n t, fs0.find? n = some t → n ∈ lfs.names →
    ∃ v, lfs.denoteField n t = some v ∧ v.hasType t = true ∧ lfs.findBits d n = some (v.encode t)
  | .nil, _, _, _, n, t, _, hn => by simp [LitFields.names] at hn
  | .cons n' l r, fs0, hd, h, n, t, hf, hn => by
    simp only [LitFields.fieldsOfType, Bool.and_eq_true] at h
    by_cases hnn : (n' == n) = true
    · have hn' : n' = n := by simpa using hnn
      subst hn'
      rw [hf] at h
      obtain ⟨v, hv1, hv2, hv3⟩ := Lit.accept d l t (Fields.find?_DefsOK d fs0 n' t hd hf) h.1
      exact ⟨v, by simp [LitFields.denoteField, hv1], hv2, by simp [LitFields.findBits, hv3]⟩
    · simp only [LitFields.names, List.mem_cons] at hn
      have hn2 : n ∈ r.names := by
        rcases hn with rfl | hn
        · simp at hnn
        · exact hn
      obtain ⟨v, hv1, hv2, hv3⟩ := LitFields.acceptField d r fs0 hd h.2 n t hf hn2
      exact ⟨v, by simp [LitFields.denoteField, hnn, hv1], hv2, by simp [LitFields.findBits, hnn, hv3]⟩
end

end GV
