import GarbleVerif.Model.Ssa
/-! Helper lemmas: a validated SSA circuit evaluates without hitting an undefined wire. -/
namespace GV
namespace Circuit

theorem flatten_length_of_shapeOk {sizes : List Nat} {ins : List (List Bool)}
    (h : shapeOk sizes ins = true) : ins.flatten.length = sizes.sum := by
  simp only [shapeOk, beq_iff_eq] at h
  subst h
  induction ins with
  | nil => simp
  | cons a as ih => simp [ih]

theorem evalGate_some {ws : List Bool} {g : Gate} (h : gateOk g ws.length = true) :
    ∃ v, evalGate ws g = some v := by
  cases g with
  | xor x y =>
    simp only [gateOk, Bool.and_eq_true, decide_eq_true_eq] at h
    simp [evalGate, List.getElem?_eq_getElem h.1, List.getElem?_eq_getElem h.2]
  | and x y =>
    simp only [gateOk, Bool.and_eq_true, decide_eq_true_eq] at h
    simp [evalGate, List.getElem?_eq_getElem h.1, List.getElem?_eq_getElem h.2]
  | not x =>
    simp only [gateOk, decide_eq_true_eq] at h
    simp [evalGate, List.getElem?_eq_getElem h]

theorem evalGates_some (gs : List Gate) (ws : List Bool)
    (h : validateGates gs ws.length = .ok ()) :
    ∃ out, evalGates gs ws = some out ∧ out.length = ws.length + gs.length := by
  induction gs generalizing ws with
  | nil => exact ⟨ws, rfl, by simp⟩
  | cons g gs ih =>
    simp only [validateGates] at h
    split at h
    · rename_i hg
      obtain ⟨v, hv⟩ := evalGate_some hg
      have := ih (ws ++ [v]) (by simpa using h)
      obtain ⟨out, ho, hl⟩ := this
      refine ⟨out, ?_, ?_⟩
      · simp [evalGates, hv, ho]
      · simp at hl ⊢; omega
    · simp at h

theorem validateOutputs_lt {n : Nat} {os : List Nat} (h : validateOutputs n os = .ok ()) :
    ∀ o ∈ os, o < n := by
  induction os with
  | nil => simp
  | cons o os ih =>
    simp only [validateOutputs] at h
    split at h
    · rename_i ho
      intro x hx
      simp at hx
      rcases hx with rfl | hx
      · exact ho
      · exact ih h x hx
    · simp at h

theorem mapM_getElem?_some {α} (ws : List α) (os : List Nat) (h : ∀ o ∈ os, o < ws.length) :
    ∃ out, os.mapM (fun o => ws[o]?) = some out ∧ out.length = os.length := by
  induction os with
  | nil => exact ⟨[], by simp, rfl⟩
  | cons o os ih =>
    obtain ⟨out, ho, hl⟩ := ih (fun x hx => h x (by simp [hx]))
    have : o < ws.length := h o (by simp)
    refine ⟨ws[o] :: out, ?_, by simp [hl]⟩
    simp [List.mapM_cons, List.getElem?_eq_getElem this, ho]

end Circuit
end GV
