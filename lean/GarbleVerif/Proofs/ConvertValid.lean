import GarbleVerif.Proofs.ConvertSound
/-!
# The converted register circuit passes its own validation
-/
namespace GV
namespace Reg
open RCircuit

def notInput : Op → Prop
  | .input _ _ => False
  | _ => True

theorem opOf_notInput {st : Alloc} {gate : Gate} {op : Op} (h : opOf st gate = some op) : notInput op := by
  cases gate with
  | xor a b =>
    simp only [opOf] at h
    cases h1 : regOf st a <;> simp [h1] at h
    cases h2 : regOf st b <;> simp [h2] at h
    subst h; trivial
  | and a b =>
    simp only [opOf] at h
    cases h1 : regOf st a <;> simp [h1] at h
    cases h2 : regOf st b <;> simp [h2] at h
    subst h; trivial
  | not a =>
    simp only [opOf] at h
    cases h1 : regOf st a <;> simp [h1] at h
    subst h; trivial

/-- the gate loop appends one instruction per gate, none of them an `Input` -/
theorem convertGates_emits (last : List LastUse) (N : Nat) (gs : List Gate) (g : Nat) (st : Alloc)
    (hinv : Inv0 last N g st) (hN : g + gs.length ≤ N)
    (hval : Circuit.validateGates gs g = .ok ())
    (hlate : ∀ j gate, gs[j]? = some gate → ∀ a, a ∈ gateOperands gate → LateUse last a (g + j))
    (stF : Alloc) (hc : convertGates last gs g st = some stF) :
    ∃ em, stF.insts = st.insts ++ em ∧ em.length = gs.length ∧ ∀ inst, inst ∈ em → notInput inst.op := by
  induction gs generalizing g st with
  | nil =>
    simp only [convertGates, Option.some.injEq] at hc
    subst hc
    exact ⟨[], by simp, rfl, by simp⟩
  | cons gate rest ih =>
    simp only [Circuit.validateGates] at hval
    split at hval
    · rename_i hok
      obtain ⟨out, st1, op, hop, hf, hcg⟩ := convertGate_spec hinv gate hok
        (fun a ha => by simpa using hlate 0 gate (by simp) a ha)
      have hg : g < N := by simp at hN; omega
      simp only [convertGates, hcg] at hc
      have hinv' := inv0_step hinv hf hg (st.insts ++ [⟨out, op⟩]) (st.andOps + isAnd gate)
      obtain ⟨em, h1, h2, h3⟩ := ih (g + 1) _ hinv' (by simp at hN ⊢; omega) hval
        (fun j gt hj a ha => by
          have := hlate (j + 1) gt (by simpa using hj) a ha
          have e : g + (j + 1) = g + 1 + j := by omega
          rw [e] at this; exact this) hc
      refine ⟨⟨out, op⟩ :: em, ?_, by simp [h2], ?_⟩
      · rw [h1]; simp [bind]
      · intro inst hi
        simp only [List.mem_cons] at hi
        rcases hi with rfl | hi
        · exact opOf_notInput hop
        · exact h3 inst hi
    · simp at hval

/-- the `Input` instruction at position `j` writes register `pos + j` -/
theorem inputInsts_out (sizes : List Nat) : ∀ (party pos j : Nat) (inst : Inst),
    (inputInsts sizes party pos)[j]? = some inst → inst.out = pos + j := by
  induction sizes with
  | nil => intro party pos j inst h; simp [inputInsts] at h
  | cons sz rest ih =>
    intro party pos j inst h
    simp only [inputInsts] at h
    by_cases hj : j < sz
    · rw [List.getElem?_append_left (by simpa using hj)] at h
      simp only [List.getElem?_map, List.getElem?_range hj, Option.map_some, Option.some.injEq] at h
      subst h; rfl
    · rw [List.getElem?_append_right (by simp; omega)] at h
      simp only [List.length_map, List.length_range] at h
      have := ih (party + 1) (pos + sz) (j - sz) inst h
      omega

/-! ### strict evaluation succeeds ⇒ the instruction loop of `validate` succeeds -/

/-- every defined register is marked -/
structure Rel2 (set : List Bool) (regs : List (Option Bool)) : Prop where
  len : set.length = regs.length
  marked : ∀ r v, regs[r]? = some (some v) → set.getD r false = true

theorem Rel2.init (n : Nat) : Rel2 (List.replicate n false) (List.replicate n none) := by
  refine ⟨by simp, ?_⟩
  intro r v h
  simp [List.getElem?_replicate] at h

theorem Rel2.set {set regs} (h : Rel2 set regs) (o : Nat) (v : Bool) (ho : o < regs.length) :
    Rel2 (set.set o true) (regs.set o (some v)) := by
  refine ⟨by simp [h.len], ?_⟩
  intro r w hr
  by_cases hro : o = r
  · subst hro
    have : o < set.length := by rw [h.len]; exact ho
    simp [List.getD_eq_getElem?_getD, List.getElem?_set, this]
  · rw [List.getElem?_set, if_neg hro] at hr
    have := h.marked r w hr
    simpa [List.getD_eq_getElem?_getD, List.getElem?_set, hro] using this

theorem Rel2.isSet {set regs r v} (h : Rel2 set regs) (hr : readReg regs r = some v) :
    r < regs.length ∧ isSet set r = true := by
  unfold readReg at hr
  cases hq : regs[r]? with
  | none => simp [hq] at hr
  | some o =>
    cases o with
    | none => simp [hq] at hr
    | some w =>
      have hlt : r < regs.length := by
        rcases Nat.lt_or_ge r regs.length with h1 | h1
        · exact h1
        · rw [List.getElem?_eq_none h1] at hq; simp at hq
      exact ⟨hlt, h.marked r w hq⟩

theorem strict_validate {inputRegs : List Nat} {n : Nat} {ins : List (List Bool)}
    (hs : Circuit.shapeOk inputRegs ins = true) :
    ∀ (insts : List Inst) (i : Nat) (set : List Bool) (regs regsF : List (Option Bool)),
      Rel2 set regs → regs.length = n →
      (∀ j inst, insts[j]? = some inst → ¬ notInput inst.op → inst.out = i + j) →
      strictInsts ins insts regs = some regsF →
      ∃ setF, validateInsts inputRegs n insts i set = .ok setF ∧ Rel2 setF regsF ∧ regsF.length = n := by
  intro insts
  induction insts with
  | nil =>
    intro i set regs regsF hr hn _ h
    simp only [strictInsts, Option.some.injEq] at h
    subst h
    exact ⟨set, rfl, hr, hn⟩
  | cons inst rest ih =>
    intro i set regs regsF hr hn hpos h
    simp only [strictInsts] at h
    cases hop : strictOp ins regs inst.op with
    | none => simp [hop] at h
    | some v =>
      simp only [hop] at h
      split at h
      · rename_i hout
        have hvi : validateInst inputRegs n set i inst = .ok (set.set inst.out true) := by
          unfold validateInst
          have h1 : (!decide (inst.out < n)) = false := by simp; omega
          simp only [h1, Bool.false_eq_true, if_false]
          cases hio : inst.op with
          | input p idx =>
            have hp := hpos 0 inst (by simp) (by rw [hio]; simp [notInput])
            simp only [Nat.add_zero] at hp
            rw [hio] at hop
            simp only [strictOp, Option.bind_eq_bind] at hop
            cases hq : ins[p]? with
            | none => simp [hq] at hop
            | some party =>
              simp only [hq, Option.bind_some] at hop
              have hidx : idx < party.length := by
                rcases Nat.lt_or_ge idx party.length with h1 | h1
                · exact h1
                · rw [List.getElem?_eq_none h1] at hop; simp at hop
              have hsz : inputRegs[p]? = some party.length := by
                simp only [Circuit.shapeOk, beq_iff_eq] at hs
                rw [← hs]; simp [List.getElem?_map, hq]
              simp [hp, hsz, hidx]
          | xor a b =>
            rw [hio] at hop
            simp only [strictOp, Option.bind_eq_bind] at hop
            cases ha : readReg regs a with
            | none => simp [ha] at hop
            | some x =>
              cases hb : readReg regs b with
              | none => simp [ha, hb] at hop
              | some y =>
                obtain ⟨ha1, ha2⟩ := hr.isSet ha
                obtain ⟨hb1, hb2⟩ := hr.isSet hb
                have : a < n ∧ b < n := by omega
                simp [this.1, this.2, ha2, hb2]
          | and a b =>
            rw [hio] at hop
            simp only [strictOp, Option.bind_eq_bind] at hop
            cases ha : readReg regs a with
            | none => simp [ha] at hop
            | some x =>
              cases hb : readReg regs b with
              | none => simp [ha, hb] at hop
              | some y =>
                obtain ⟨ha1, ha2⟩ := hr.isSet ha
                obtain ⟨hb1, hb2⟩ := hr.isSet hb
                have : a < n ∧ b < n := by omega
                simp [this.1, this.2, ha2, hb2]
          | not a =>
            rw [hio] at hop
            simp only [strictOp, Option.bind_eq_bind] at hop
            cases ha : readReg regs a with
            | none => simp [ha] at hop
            | some x =>
              obtain ⟨ha1, ha2⟩ := hr.isSet ha
              have : a < n := by omega
              simp [this, ha2]
        obtain ⟨setF, h1, h2, h3⟩ := ih (i + 1) (set.set inst.out true) (regs.set inst.out (some v)) regsF
          (hr.set inst.out v hout) (by simp [hn])
          (fun j inst' hj hni => by
            have := hpos (j + 1) inst' (by simpa using hj) hni
            omega) h
        exact ⟨setF, by simp [validateInsts, hvi, h1], h2, h3⟩
      · simp at h

/-! ### the remaining clauses of `validate` -/

theorem mapM_readReg_facts {set : List Bool} {regs : List (Option Bool)} (hr : Rel2 set regs) :
    ∀ (outs : List Nat) (out : List Bool), outs.mapM (fun r => readReg regs r) = some out →
      validateOutputs regs.length outs = .ok () ∧ validateOutputsSet set outs = .ok () := by
  intro outs
  induction outs with
  | nil => intro out _; exact ⟨rfl, rfl⟩
  | cons o os ih =>
    intro out h
    simp only [List.mapM_cons, Option.bind_eq_bind] at h
    cases ho : readReg regs o with
    | none => simp [ho] at h
    | some v =>
      cases hos : os.mapM (fun r => readReg regs r) with
      | none => simp [ho, hos] at h
      | some rest =>
        obtain ⟨h1, h2⟩ := hr.isSet ho
        obtain ⟨i1, i2⟩ := ih rest hos
        have h2' : set[o]?.getD false = true := by
          have : set.getD o false = true := h2
          simpa [List.getD_eq_getElem?_getD] using this
        simp [validateOutputs, validateOutputsSet, h1, h2', i1, i2]

theorem all_zero_false (l : List Nat) (h : 1 ≤ l.sum) : l.all (· == 0) = false := by
  induction l with
  | nil => simp at h
  | cons a l ih =>
    simp only [List.all_cons, List.sum_cons] at h ⊢
    by_cases ha : a = 0
    · subst ha
      simp only [Nat.zero_add] at h
      simp [ih h]
    · simp [ha]

theorem mapM_length {α β : Type} (f : α → Option β) : ∀ (l : List α) (out : List β), l.mapM f = some out →
    out.length = l.length := by
  intro l
  induction l with
  | nil => intro out h; simp at h; subst h; rfl
  | cons a l ih =>
    intro out h
    simp only [List.mapM_cons, Option.bind_eq_bind] at h
    cases ha : f a with
    | none => simp [ha] at h
    | some b =>
      cases hl : l.mapM f with
      | none => simp [ha, hl] at h
      | some r =>
        simp [ha, hl] at h
        subst h
        simp [ih r hl]

/-- what `Circuit::validate` establishes -/
theorem validate_all (c : Circuit) (hv : c.validate = .ok ()) :
    Circuit.validateGates c.gates c.totalInputs = .ok () ∧ c.outputGates ≠ [] ∧
    (∀ o, o ∈ c.outputGates → o < c.wiresLen) ∧ c.wiresLen + c.totalInputs ≤ MAX_GATES := by
  obtain ⟨hg, ho⟩ := validate_facts c hv
  unfold Circuit.validate at hv
  split at hv
  · simp at hv
  · split at hv
    · simp at hv
    · split at hv
      · simp at hv
      · rename_i hne
        split at hv
        · simp at hv
        · split at hv
          · simp at hv
          · refine ⟨hg, ?_, ho, by omega⟩
            intro e; rw [e] at hne; simp at hne

/-- a valid circuit has at least one input wire -/
theorem totalInputs_pos (c : Circuit) (hv : c.validate = .ok ()) : 1 ≤ c.totalInputs := by
  obtain ⟨hg, hne, ho, _⟩ := validate_all c hv
  rcases Nat.lt_or_ge 0 c.totalInputs with h | h
  · exact h
  · exfalso
    have h0 : c.totalInputs = 0 := by omega
    cases hgs : c.gates with
    | nil =>
      cases hos : c.outputGates with
      | nil => exact hne hos
      | cons o os =>
        have := ho o (by rw [hos]; simp)
        simp [Circuit.wiresLen, hgs, h0] at this
    | cons g gs =>
      rw [hgs, h0] at hg
      simp only [Circuit.validateGates] at hg
      split at hg
      · rename_i hok
        cases g <;> simp [Circuit.gateOk] at hok
      · simp at hg

end Reg
end GV
