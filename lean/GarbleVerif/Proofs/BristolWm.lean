import GarbleVerif.Model.Bristol
/-!
# The wire renumbering of the Bristol export is a bijection with the outputs at the end
-/
namespace GV
namespace Bristol

/-- number of output wires among `[TI, s)` -/
def ocf (outs : List Nat) (TI : Nat) : Nat → Nat
  | 0 => 0
  | s + 1 => ocf outs TI s + (if TI ≤ s ∧ s ∈ outs then 1 else 0)

/-- number of wires in `[TI, s)` that are not outputs -/
def nocf (outs : List Nat) (TI : Nat) : Nat → Nat
  | 0 => 0
  | s + 1 => nocf outs TI s + (if TI ≤ s ∧ s ∉ outs then 1 else 0)

theorem ocf_add_nocf (outs : List Nat) (TI s : Nat) : ocf outs TI s + nocf outs TI s = s - TI := by
  induction s with
  | zero => simp [ocf, nocf]
  | succ s ih =>
    simp only [ocf, nocf]
    by_cases h1 : TI ≤ s <;> by_cases h2 : s ∈ outs <;> simp [h1, h2] <;> omega

theorem nocf_mono (outs : List Nat) (TI : Nat) {a b : Nat} (h : a ≤ b) : nocf outs TI a ≤ nocf outs TI b := by
  induction b with
  | zero => have : a = 0 := by omega
            subst this; exact Nat.le_refl _
  | succ b ih =>
    by_cases hab : a = b + 1
    · subst hab; exact Nat.le_refl _
    · have := ih (by omega)
      simp only [nocf]; omega

theorem ocf_cons (o : Nat) (os : List Nat) (TI N : Nat) :
    ocf (o :: os) TI N = ocf os TI N + (if TI ≤ o ∧ o < N ∧ o ∉ os then 1 else 0) := by
  induction N with
  | zero => simp [ocf]
  | succ N ih =>
    simp only [ocf, ih, List.mem_cons]
    rcases Nat.lt_trichotomy o N with h | h | h
    · have e1 : o < N + 1 := by omega
      have e2 : ¬ N = o := by omega
      by_cases h1 : TI ≤ N <;> by_cases h2 : N ∈ os <;> by_cases h5 : o ∈ os <;> by_cases h6 : TI ≤ o <;>
        simp [h, e1, e2, h1, h2, h5, h6] <;> omega
    · subst h
      by_cases h1 : TI ≤ o <;> by_cases h5 : o ∈ os <;> simp [h1, h5]
    · have e1 : ¬ o < N + 1 := by omega
      have e2 : ¬ N = o := by omega
      have e3 : ¬ o < N := by omega
      by_cases h1 : TI ≤ N <;> by_cases h2 : N ∈ os <;> simp [e1, e2, e3, h1, h2]

theorem ocf_eq_length (outs : List Nat) (TI N : Nat) (hnd : outs.Nodup)
    (hr : ∀ o ∈ outs, TI ≤ o ∧ o < N) : ocf outs TI N = outs.length := by
  induction outs with
  | nil =>
    induction N with
    | zero => rfl
    | succ N ih => simp [ocf] at *; exact ih
  | cons o os ih =>
    rw [ocf_cons, ih (List.nodup_cons.mp hnd).2 (fun x hx => hr x (List.mem_cons_of_mem _ hx))]
    have := hr o (List.mem_cons_self ..)
    have hn := (List.nodup_cons.mp hnd).1
    simp [this.1, this.2, hn]

/-! ### `outPos` -/

theorem outPos_go_not_mem (w : Nat) (l : List Nat) (i : Nat) (acc : Option Nat) (h : w ∉ l) :
    outPos.go w l i acc = acc := by
  induction l generalizing i acc with
  | nil => rfl
  | cons o rest ih =>
    simp only [outPos.go]
    have : o ≠ w := fun e => h (e ▸ List.mem_cons_self ..)
    rw [ih _ _ (fun hm => h (List.mem_cons_of_mem _ hm))]
    simp [this]

theorem outPos_go_getElem (l : List Nat) (hnd : l.Nodup) (k : Nat) (hk : k < l.length) (i : Nat)
    (acc : Option Nat) : outPos.go l[k] l i acc = some (i + k) := by
  induction l generalizing i acc k with
  | nil => simp at hk
  | cons o rest ih =>
    simp only [outPos.go]
    cases k with
    | zero =>
      simp only [List.getElem_cons_zero, beq_self_eq_true, if_true, Nat.add_zero]
      exact outPos_go_not_mem _ _ _ _ (List.nodup_cons.mp hnd).1
    | succ k =>
      simp only [List.getElem_cons_succ]
      rw [ih (List.nodup_cons.mp hnd).2 k (by simpa using hk)]
      congr 1; omega

theorem outPos_getElem (outs : List Nat) (hnd : outs.Nodup) (k : Nat) (hk : k < outs.length) :
    outPos outs outs[k] = some k := by
  unfold outPos; rw [outPos_go_getElem outs hnd k hk]; simp

theorem outPos_not_mem (outs : List Nat) (w : Nat) (h : w ∉ outs) : outPos outs w = none := by
  unfold outPos; exact outPos_go_not_mem _ _ _ _ h

theorem outPos_mem (outs : List Nat) (hnd : outs.Nodup) (w : Nat) (h : w ∈ outs) :
    ∃ k, ∃ hk : k < outs.length, outs[k] = w ∧ outPos outs w = some k := by
  obtain ⟨k, hk, rfl⟩ := List.getElem_of_mem h
  exact ⟨k, hk, rfl, outPos_getElem outs hnd k hk⟩

/-! ### the renumbering as a function -/

def wmVal (TI TW : Nat) (outs : List Nat) (i : Nat) : Nat :=
  if i < TI then i else
  match outPos outs i with
  | some idx => TW - outs.length + idx
  | none => i - ocf outs TI i

theorem wiresMap_go_eq (TI TW : Nat) (outs : List Nat) (n s : Nat) :
    wiresMap.go TI TW outs (List.range' s n) (ocf outs TI s) = (List.range' s n).map (wmVal TI TW outs) := by
  induction n generalizing s with
  | zero => simp [wiresMap.go]
  | succ n ih =>
    simp only [List.range'_succ, wiresMap.go, List.map_cons, wmVal]
    by_cases h1 : s < TI
    · simp only [h1, if_true]
      have : ocf outs TI (s + 1) = ocf outs TI s := by simp [ocf]; omega
      rw [← this, ih]
    · simp only [h1, if_false]
      by_cases hm : s ∈ outs
      · cases hp : outPos outs s with
        | none =>
          exfalso
          unfold outPos at hp
          -- a member is always found
          have : ∀ (l : List Nat) i acc, s ∈ l → outPos.go s l i acc ≠ none := by
            intro l
            induction l with
            | nil => intro _ _ h; simp at h
            | cons o rest ih2 =>
              intro i acc h
              simp only [outPos.go]
              by_cases ho : o = s
              · subst ho
                by_cases hr : o ∈ rest
                · exact ih2 _ _ hr
                · rw [outPos_go_not_mem _ _ _ _ hr]; simp
              · have : s ∈ rest := by
                  cases h with
                  | head => exact absurd rfl ho
                  | tail _ h => exact h
                exact ih2 _ _ this
          exact this outs 0 none hm hp
        | some idx =>
          simp only
          have : ocf outs TI (s + 1) = ocf outs TI s + 1 := by simp [ocf, hm]; omega
          rw [← this, ih]
      · rw [outPos_not_mem outs s hm]
        simp only
        have : ocf outs TI (s + 1) = ocf outs TI s := by simp [ocf, hm]
        rw [← this, ih]

theorem wiresMap_eq (TI TW : Nat) (outs : List Nat) :
    wiresMap TI TW outs = (List.range TW).map (wmVal TI TW outs) := by
  unfold wiresMap
  rw [List.range_eq_range']
  exact wiresMap_go_eq TI TW outs TW 0

/-- what the import proof needs to know about the renumbering `f` -/
structure WmOK (TI TW : Nat) (outs : List Nat) (f : Nat → Nat) : Prop where
  inputs : ∀ i, i < TI → f i = i
  range : ∀ i, TI ≤ i → i < TW → TI ≤ f i ∧ f i < TW
  outs_at : ∀ k (hk : k < outs.length), f outs[k] = TW - outs.length + k
  non_outs : ∀ i, TI ≤ i → i < TW → i ∉ outs → f i < TW - outs.length
  inj : ∀ i j, i < TW → j < TW → f i = f j → i = j
  outs_le : outs.length ≤ TW - TI

theorem wmVal_ok (TI TW : Nat) (outs : List Nat) (hTI : TI ≤ TW) (hnd : outs.Nodup)
    (hr : ∀ o ∈ outs, TI ≤ o ∧ o < TW) : WmOK TI TW outs (wmVal TI TW outs) := by
  have hoc := ocf_eq_length outs TI TW hnd hr
  have hsum := ocf_add_nocf outs TI TW
  have hle : outs.length ≤ TW - TI := by omega
  -- non-output wires
  have hnon : ∀ i, TI ≤ i → i < TW → i ∉ outs →
      wmVal TI TW outs i = TI + nocf outs TI i ∧ nocf outs TI i < nocf outs TI TW := by
    intro i h1 h2 h3
    have hs := ocf_add_nocf outs TI i
    have hstep : nocf outs TI (i + 1) = nocf outs TI i + 1 := by simp [nocf, h1, h3]
    have hm := nocf_mono outs TI (show i + 1 ≤ TW by omega)
    refine ⟨?_, by omega⟩
    unfold wmVal
    rw [if_neg (by omega), outPos_not_mem outs i h3]
    simp only; omega
  have hout : ∀ k (hk : k < outs.length), wmVal TI TW outs outs[k] = TW - outs.length + k := by
    intro k hk
    unfold wmVal
    have := hr outs[k] (List.getElem_mem hk)
    rw [if_neg (by omega), outPos_getElem outs hnd k hk]
  refine ⟨?_, ?_, hout, ?_, ?_, hle⟩
  · intro i hi; simp [wmVal, hi]
  · intro i h1 h2
    by_cases hm : i ∈ outs
    · obtain ⟨k, hk, rfl⟩ := List.getElem_of_mem hm
      rw [hout k hk]; omega
    · obtain ⟨e, hlt⟩ := hnon i h1 h2 hm
      omega
  · intro i h1 h2 h3
    obtain ⟨e, hlt⟩ := hnon i h1 h2 h3
    omega
  · -- injectivity: three classes with disjoint images
    have hval : ∀ i, i < TW → (i < TI ∧ wmVal TI TW outs i = i) ∨
        (TI ≤ i ∧ i ∉ outs ∧ wmVal TI TW outs i = TI + nocf outs TI i ∧ nocf outs TI i < nocf outs TI TW) ∨
        (∃ k, ∃ hk : k < outs.length, outs[k] = i ∧ wmVal TI TW outs i = TW - outs.length + k) := by
      intro i hi
      by_cases h1 : i < TI
      · left; exact ⟨h1, by simp [wmVal, h1]⟩
      · by_cases hm : i ∈ outs
        · right; right
          obtain ⟨k, hk, rfl⟩ := List.getElem_of_mem hm
          exact ⟨k, hk, rfl, hout k hk⟩
        · right; left
          exact ⟨by omega, hm, hnon i (by omega) hi hm⟩
    intro i j hi hj hij
    rcases hval i hi with ⟨a1, a2⟩ | ⟨a1, a2, a3, a4⟩ | ⟨k, hk, a1, a2⟩ <;>
    rcases hval j hj with ⟨b1, b2⟩ | ⟨b1, b2, b3, b4⟩ | ⟨k', hk', b1, b2⟩
    · omega
    · omega
    · omega
    · omega
    · -- both non-outputs: nocf is strictly increasing on them
      rw [a3, b3] at hij
      have heq : nocf outs TI i = nocf outs TI j := by omega
      by_cases hlt : i < j
      · have hstep : nocf outs TI (i + 1) = nocf outs TI i + 1 := by simp [nocf, a1, a2]
        have := nocf_mono outs TI (show i + 1 ≤ j by omega)
        omega
      · by_cases hgt : j < i
        · have hstep : nocf outs TI (j + 1) = nocf outs TI j + 1 := by simp [nocf, b1, b2]
          have := nocf_mono outs TI (show j + 1 ≤ i by omega)
          omega
        · omega
    · omega
    · omega
    · omega
    · have : k = k' := by omega
      subst this
      rw [← a1, ← b1]

end Bristol
end GV
