import GarbleVerif.Proofs.ArithSMul
/-!
# Multiplication by a literal: repeated checked addition (`constMul`)
-/
namespace GV
namespace Arith

/-- the loop body of `constMul` -/
def cmStep (y : List Bool) (signed : Bool) (acc : List Bool × Bool) : List Bool × Bool :=
  ((add acc.1 y).1, acc.2 || (if signed then (add acc.1 y).2.1 ^^ (add acc.1 y).2.2 else (add acc.1 y).2.1))

/-- `k`-fold application -/
def iter {α : Type} (F : α → α) : Nat → α → α
  | 0, a => a
  | k + 1, a => iter F k (F a)

theorem iter_succ' {α : Type} (F : α → α) : ∀ (k : Nat) (a : α), iter F (k + 1) a = F (iter F k a) := by
  intro k
  induction k with
  | zero => intro a; rfl
  | succ k ih => intro a; rw [iter, ih (F a)]; rfl

theorem foldl_const_fn {α β : Type} (F : α → α) : ∀ (l : List β) (init : α),
    l.foldl (fun acc _ => F acc) init = iter F l.length init := by
  intro l
  induction l with
  | nil => intro init; rfl
  | cons a l ih => intro init; simp [List.foldl_cons, ih, iter]

theorem constMul_unfold (y : List Bool) (signed : Bool) (n : Nat) (isNeg : Bool) :
    constMul y signed n isNeg =
      if isNeg then
        ((negChecked (iter (cmStep y signed) (n - 1) (y, false)).1).1,
          (iter (cmStep y signed) (n - 1) (y, false)).2 || (negChecked (iter (cmStep y signed) (n - 1) (y, false)).1).2)
      else iter (cmStep y signed) (n - 1) (y, false) := by
  have h : (List.range (n - 1)).foldl (fun (acc : List Bool × Bool) _ =>
      let (sum, carry, prev) := add acc.1 y
      (sum, acc.2 || (if signed then carry ^^ prev else carry))) (y, false) = iter (cmStep y signed) (n - 1) (y, false) := by
    have := foldl_const_fn (β := Nat) (cmStep y signed) (List.range (n - 1)) (y, false)
    simp only [List.length_range] at this
    rw [← this]
    rfl
  simp only [constMul, h]

theorem toInt_range' (a : Bool) (x : List Bool) :
    -(2 : Int) ^ x.length ≤ toInt (a :: x) ∧ toInt (a :: x) < (2 : Int) ^ x.length := by
  rw [toInt_cons]
  have h := toNat_lt x
  have hP : ((2 ^ x.length : Nat) : Int) = (2 : Int) ^ x.length := by push_cast; rfl
  rw [← hP]
  cases a <;> simp <;> omega

/-! ### unsigned -/

theorem cm_unsigned_iter (y : List Bool) : ∀ k : Nat,
    let acc := iter (cmStep y false) k (y, false)
    acc.1.length = y.length ∧ (acc.2 = false → toNat acc.1 = (k + 1) * toNat y) ∧
    (acc.2 = true ↔ 2 ^ y.length ≤ (k + 1) * toNat y) := by
  intro k
  induction k with
  | zero =>
    have := toNat_lt y
    simp only [iter, Nat.zero_add, Nat.one_mul]
    exact ⟨trivial, fun _ => trivial, by simp; omega⟩
  | succ k ih =>
    rw [iter_succ']
    generalize iter (cmStep y false) k (y, false) = acc at ih
    obtain ⟨s, f⟩ := acc
    simp only at ih
    obtain ⟨hl, hv, hf⟩ := ih
    have hmul : (k + 1 + 1) * toNat y = (k + 1) * toNat y + toNat y := Nat.succ_mul _ _
    have hadd := add_overflow_unsigned s y hl
    have hsp := add_spec s y hl
    have hal := add_length s y hl
    simp only [cmStep, Bool.false_eq_true, if_false]
    rw [hl] at hadd hsp
    refine ⟨by rw [hal, hl], ?_, ?_⟩
    · intro hff
      simp only [Bool.or_eq_false_iff] at hff
      have := hv hff.1
      rw [hff.2] at hsp
      simp at hsp
      rw [hsp, this, hmul]
    · cases f with
      | true =>
        have := hf.mp rfl
        simp only [Bool.true_or, true_iff]
        omega
      | false =>
        have hval := hv rfl
        simp only [Bool.false_or]
        rw [hadd, hval, hmul]

/-- **multiplication of an unsigned operand by a literal `n ≥ 1`**: exact product unless the flag is set; flag ⇔ the
product needs more than the width -/
theorem constMul_unsigned (y : List Bool) (n : Nat) (hn : 1 ≤ n) :
    let r := constMul y false n false
    r.1.length = y.length ∧ (r.2 = false → toNat r.1 = n * toNat y) ∧ (r.2 = true ↔ 2 ^ y.length ≤ n * toNat y) := by
  rw [constMul_unfold]
  simp only [Bool.false_eq_true, if_false]
  have := cm_unsigned_iter y (n - 1)
  have e : n - 1 + 1 = n := by omega
  rw [e] at this
  exact this

/-! ### signed -/

theorem cm_signed_iter (b : Bool) (yr : List Bool) : ∀ k : Nat,
    let acc := iter (cmStep (b :: yr) true) k (b :: yr, false)
    let V := toInt (b :: yr)
    acc.1.length = yr.length + 1 ∧ (acc.2 = false → toInt acc.1 = ((k + 1 : Nat) : Int) * V) ∧
    (acc.2 = true ↔ (((k + 1 : Nat) : Int) * V < -(2 : Int) ^ yr.length ∨ (2 : Int) ^ yr.length ≤ ((k + 1 : Nat) : Int) * V)) ∧
    (0 < V → V ≤ ((k + 1 : Nat) : Int) * V) ∧ (V < 0 → ((k + 1 : Nat) : Int) * V ≤ V) ∧
    (V = 0 → ((k + 1 : Nat) : Int) * V = 0) := by
  intro k
  have hrange := toInt_range' b yr
  induction k with
  | zero =>
    simp only [iter, Nat.zero_add, Int.natCast_one, Int.one_mul]
    refine ⟨by simp, fun _ => trivial, by simp; omega, fun _ => Int.le_refl _, fun _ => Int.le_refl _, fun h => h⟩
  | succ k ih =>
    rw [iter_succ']
    generalize iter (cmStep (b :: yr) true) k (b :: yr, false) = acc at ih
    obtain ⟨s, f⟩ := acc
    simp only at ih
    obtain ⟨hl, hv, hf, hp, hn, hz⟩ := ih
    obtain ⟨a, sr, rfl, hsr⟩ := exists_cons_of_length hl
    have hmul : (((k + 1 + 1 : Nat) : Int)) * toInt (b :: yr) = ((k + 1 : Nat) : Int) * toInt (b :: yr) + toInt (b :: yr) := by
      push_cast; rw [Int.add_mul, Int.one_mul]
    have hadd := add_signed a b sr yr hsr
    have hal := add_length (a :: sr) (b :: yr) (by simp [hsr])
    simp only at hadd
    rw [hsr] at hadd
    simp only [cmStep, if_true]
    generalize ((k + 1 : Nat) : Int) * toInt (b :: yr) = P at *
    generalize (((k + 1 + 1 : Nat) : Int)) * toInt (b :: yr) = P' at *
    subst hmul
    refine ⟨by rw [hal]; simp [hsr], ?_, ?_, by omega, by omega, by omega⟩
    · intro hff
      simp only [Bool.or_eq_false_iff] at hff
      rw [hadd.1 hff.2, hv hff.1]
    · cases f with
      | true =>
        have := hf.mp rfl
        simp only [Bool.true_or, true_iff]
        rcases this with h | h
        · left
          have : toInt (b :: yr) < 0 := by
            rcases Int.lt_trichotomy (toInt (b :: yr)) 0 with h0 | h0 | h0
            · exact h0
            · have := hz h0; omega
            · have := hp h0; omega
          omega
        · right
          have : 0 < toInt (b :: yr) := by
            rcases Int.lt_trichotomy (toInt (b :: yr)) 0 with h0 | h0 | h0
            · have := hn h0; have hp2 : (0 : Int) < (2 : Int) ^ yr.length := Int.pow_pos (by decide); omega
            · have := hz h0; have hp2 : (0 : Int) < (2 : Int) ^ yr.length := Int.pow_pos (by decide); omega
            · exact h0
          omega
      | false =>
        have hval := hv rfl
        simp only [Bool.false_or]
        rw [hadd.2, hval]

/-- **multiplication of a signed operand by a positive literal `n ≥ 1`**: exact product unless the flag is set;
flag ⇔ the product is outside the type -/
theorem constMul_signed_pos (b : Bool) (yr : List Bool) (n : Nat) (hn : 1 ≤ n) :
    let r := constMul (b :: yr) true n false
    r.1.length = yr.length + 1 ∧
    (r.2 = false → toInt r.1 = (n : Int) * toInt (b :: yr)) ∧
    (r.2 = true ↔ ((n : Int) * toInt (b :: yr) < -(2 : Int) ^ yr.length ∨
      (2 : Int) ^ yr.length ≤ (n : Int) * toInt (b :: yr))) := by
  rw [constMul_unfold]
  simp only [Bool.false_eq_true, if_false]
  have := cm_signed_iter b yr (n - 1)
  have e : n - 1 + 1 = n := by omega
  rw [e] at this
  exact ⟨this.1, this.2.1, this.2.2.1⟩

/-- **multiplication by a negative literal `-n`, `n ≥ 1`**: the operand is added `n` times and the sum negated. The
result is the exact product unless the flag is set, and the flag is set exactly when `n·y` is not strictly inside
`(-2^w, 2^w)`. -/
theorem constMul_signed_neg (b : Bool) (yr : List Bool) (n : Nat) (hn : 1 ≤ n) :
    let r := constMul (b :: yr) true n true
    (r.2 = false → toInt r.1 = -((n : Int) * toInt (b :: yr))) ∧
    (r.2 = true ↔ ((n : Int) * toInt (b :: yr) ≤ -(2 : Int) ^ yr.length ∨
      (2 : Int) ^ yr.length ≤ (n : Int) * toInt (b :: yr))) := by
  rw [constMul_unfold]
  simp only [if_true]
  have := cm_signed_iter b yr (n - 1)
  have e : n - 1 + 1 = n := by omega
  rw [e] at this
  generalize iter (cmStep (b :: yr) true) (n - 1) (b :: yr, false) = acc at this
  obtain ⟨s, f⟩ := acc
  simp only at this
  obtain ⟨hl, hv, hf, _, _, _⟩ := this
  obtain ⟨a, sr, rfl, hsr⟩ := exists_cons_of_length hl
  have hneg := negChecked_spec a sr
  simp only at hneg
  rw [hsr] at hneg
  generalize (n : Int) * toInt (b :: yr) = P at *
  constructor
  · intro hff
    simp only [Bool.or_eq_false_iff] at hff
    rw [hneg.2 hff.2, hv hff.1]
  · cases f with
    | true =>
      have := hf.mp rfl
      simp only [Bool.true_or, true_iff]
      omega
    | false =>
      have hval := hv rfl
      have hin : ¬ (P < -(2 : Int) ^ yr.length ∨ (2 : Int) ^ yr.length ≤ P) := fun h => by
        have := hf.mpr h; simp at this
      simp only [Bool.false_or]
      rw [hneg.1, hval]
      omega

/-- the recorded finding, exactly: with a negative literal the flag is set although the exact product is
representable precisely when `n·y = 2^w`, i.e. when the product is the minimum value -/
theorem constMul_neg_spurious (b : Bool) (yr : List Bool) (n : Nat) (hn : 1 ≤ n) :
    let r := constMul (b :: yr) true n true
    let prod := -((n : Int) * toInt (b :: yr))
    (r.2 = true ∧ -(2 : Int) ^ yr.length ≤ prod ∧ prod < (2 : Int) ^ yr.length) ↔ prod = -(2 : Int) ^ yr.length := by
  have h := (constMul_signed_neg b yr n hn).2
  simp only at h ⊢
  rw [h]
  have hp2 : (0 : Int) < (2 : Int) ^ yr.length := Int.pow_pos (by decide)
  generalize (n : Int) * toInt (b :: yr) = P at *
  omega

end Arith
end GV
