import GarbleVerif.Proofs.BristolImport
/-!
# Bristol export followed by import: the same gates, the same function
-/
namespace GV
namespace Bristol
open Circuit

theorem validateGates_getElem (gs : List Gate) : ∀ i, validateGates gs i = .ok () →
    ∀ j (hj : j < gs.length), gateOk gs[j] (i + j) = true := by
  induction gs with
  | nil => intro i _ j hj; simp at hj
  | cons g gs ih =>
    intro i hv j hj
    simp only [validateGates] at hv
    split at hv
    · rename_i hg
      cases j with
      | zero => simpa using hg
      | succ j =>
        have := ih (i + 1) hv j (by simpa using hj)
        simpa [show i + (j + 1) = i + 1 + j by omega] using this
    · simp at hv

theorem validateGates_append (a b : List Gate) : ∀ i, validateGates a i = .ok () →
    validateGates b (i + a.length) = .ok () → validateGates (a ++ b) i = .ok () := by
  induction a with
  | nil => intro i _ h; simpa using h
  | cons g a ih =>
    intro i ha hb
    simp only [validateGates] at ha
    split at ha
    · rename_i hg
      simp only [List.cons_append, validateGates, hg, if_true]
      exact ih (i + 1) ha (by simpa [show i + 1 + a.length = i + (a.length + 1) by omega] using hb)
    · simp at ha

section loop
variable {TI TW : Nat} {outs : List Nat} {f : Nat → Nat} {gates : List Gate}
  (hf : WmOK TI TW outs f) (hTW : TW = gates.length + TI) (hv : validateGates gates TI = .ok ())
include hf hTW hv

theorem importGates_all : ∀ (n j : Nat) (st : ImportSt), n = gates.length - j → j ≤ gates.length →
    Inv TI outs f gates j st →
    ∃ st', importGates TW TI outs.length (linesOf f TI (gates.drop j) j) st = .ok st' ∧
      Inv TI outs f gates gates.length st' := by
  intro n
  induction n with
  | zero =>
    intro j st hn hj hinv
    have : j = gates.length := by omega
    subst this
    exact ⟨st, by simp [linesOf, importGates], hinv⟩
  | succ n ih =>
    intro j st hn hj hinv
    have hj' : j < gates.length := by omega
    have hg := validateGates_getElem gates TI hv j hj'
    obtain ⟨st1, hs1, hinv1⟩ := importGate_step hf hTW hj' hinv hg
    obtain ⟨st2, hs2, hinv2⟩ := ih (j + 1) st1 (by omega) (by omega) hinv1
    refine ⟨st2, ?_, hinv2⟩
    rw [List.drop_eq_getElem_cons hj']
    simp only [linesOf, importGates]
    rw [show j + TI = TI + j by omega, hs1]
    exact hs2

end loop

/-! ### the header -/

theorem parseLine_nums (ns : List Nat) : parseLine (some (ns.map .num)) = .ok ns := by
  simp only [parseLine]
  induction ns with
  | nil => simp [List.mapM_nil, pure, Except.pure]
  | cons n ns ih => simp [List.mapM_cons, ih, bind, Except.bind, pure, Except.pure]

theorem checkedSum_cons2 (a n : Nat) (ns : List Nat) (h : a + n < USIZE_LIMIT) :
    checkedSum (a :: n :: ns) = checkedSum ((a + n) :: ns) := by
  have : a < USIZE_LIMIT := by omega
  simp [checkedSum, h, this]

theorem checkedSum_cons (ns : List Nat) : ∀ a, a + ns.sum < USIZE_LIMIT →
    checkedSum (a :: ns) = some (a + ns.sum) := by
  induction ns with
  | nil => intro a h; simp at h; simp [checkedSum, h]
  | cons n ns ih =>
    intro a h
    simp only [List.sum_cons] at h
    rw [checkedSum_cons2 a n ns (by omega), ih (a + n) (by omega)]
    simp [Nat.add_assoc]

theorem checkedSum_eq (ns : List Nat) (h : ns.sum < USIZE_LIMIT) : checkedSum ns = some ns.sum := by
  cases ns with
  | nil => simp [checkedSum]
  | cons a ns => simpa using checkedSum_cons ns a (by simpa using h)

theorem parseHeader_exported (TG TW nOut : Nat) (ig : List Nat) (ls : List Line)
    (hig : ig ≠ []) (hsum : ig.sum ≤ TW) (hn : nOut ≤ TW) (hls : TW - ig.sum ≤ ls.length + 1)
    (hmax : TW ≤ MAX_GATES) :
    parseHeader ([[.num TG, .num TW], .num ig.length :: ig.map .num, [.num 1, .num nOut], []] ++ ls)
      = .ok (TW, ig, ig.sum, nOut) := by
  have hlim : MAX_GATES < USIZE_LIMIT := by decide
  have l0 : parseLine (some [Tok.num TG, Tok.num TW]) = .ok [TG, TW] := parseLine_nums [TG, TW]
  have l1 : parseLine (some (Tok.num ig.length :: ig.map Tok.num)) = .ok (ig.length :: ig) :=
    parseLine_nums (ig.length :: ig)
  have l2 : parseLine (some [Tok.num 1, Tok.num nOut]) = .ok [1, nOut] := parseLine_nums [1, nOut]
  have hlen : 0 < ig.length := List.length_pos_iff.mpr hig
  have c1 : checkedSum ig = some ig.sum := checkedSum_eq ig (by omega)
  have c2 : checkedSum [nOut] = some nOut := by
    have := checkedSum_eq [nOut] (by simp; omega)
    simpa using this
  simp only [parseHeader, List.cons_append, List.nil_append, List.getElem?_cons_zero, List.getElem?_cons_succ, l0, l1, l2]
  simp only [List.length_cons, List.drop_succ_cons, List.drop_zero, List.getD_cons_zero, c1, c2]
  have e1 : ¬ (ig.length + 1 < 2) := by omega
  have e3 : ¬ (ig.sum > TW) := by omega
  have e4 : ¬ (TW - ig.sum > ls.length + 1) := by omega
  have e5 : ¬ (nOut > TW) := by omega
  have e6 : ¬ (TW > MAX_GATES) := by omega
  simp [e1, e3, e4, e5, e6]


/-! ### export, then import -/

theorem linesOf_length (f : Nat → Nat) (TI : Nat) (gs : List Gate) : ∀ i, (linesOf f TI gs i).length = gs.length := by
  induction gs with
  | nil => intro i; rfl
  | cons g gs ih => intro i; simp [linesOf, ih]

theorem validate_ok {c : Circuit} (hv : c.validate = .ok ()) :
    c.inputGates ≠ [] ∧ validateGates c.gates c.totalInputs = .ok () ∧
    validateOutputs c.wiresLen c.outputGates = .ok () ∧ c.wiresLen + c.totalInputs ≤ MAX_GATES := by
  unfold validate at hv
  split at hv
  · simp at hv
  · rename_i h1
    split at hv
    · simp at hv
    · rename_i h2
      split at hv
      · simp at hv
      · split at hv
        · simp at hv
        · rename_i h3
          split at hv
          · simp at hv
          · rename_i h4
            refine ⟨?_, h2, h3, by omega⟩
            intro e; rw [e] at h1; simp at h1

theorem inv_init (TI : Nat) (outs : List Nat) (f : Nat → Nat) (gates : List Gate) (TW : Nat)
    (hTW : TW = gates.length + TI) (hge : ∀ o ∈ outs, TI ≤ o) :
    Inv TI outs f gates 0
      { wiresMap := List.replicate (TW - TI) 0, nextWire := TI, gates := [],
        outputGates := List.replicate outs.length 0 } := by
  refine ⟨rfl, by simp, by simp; omega, ?_, by simp, ?_⟩
  · intro w h1 h2; omega
  · intro k hk h
    have := hge outs[k] (List.getElem_mem hk)
    omega

/-- **shape of the exported file**: header with the right counts, then one line per gate of
`c.gates ++ copies` in that order (so operands are assigned before they are used, `valid`), where gate `j`
assigns wire `f (TI + j)` and `f` is injective, fixes the inputs and sends the `k`-th (pairwise distinct)
output to the `k`-th of the last wires (`WmOK`) -/
theorem export_shape (c : Circuit) (hv : c.validate = .ok ()) (h161 : 161 ≤ c.outputGates.length)
    (hin : ∀ o ∈ c.outputGates.drop 161, c.totalInputs ≤ o) :
    ∃ (f : Nat → Nat) (outs : List Nat) (gates : List Gate),
      WmOK c.totalInputs (gates.length + c.totalInputs) outs f ∧ outs.Nodup ∧
      outs.length = (c.outputGates.drop 161).length ∧
      validateGates gates c.totalInputs = .ok () ∧
      exportLines c = .ok ([[.num gates.length, .num (gates.length + c.totalInputs)],
        .num c.inputGates.length :: c.inputGates.map .num, [.num 1, .num outs.length], []] ++
        linesOf f c.totalInputs gates 0) := by
  obtain ⟨hig, hvg, hvo, hsz⟩ := validate_ok hv
  have hlt : ∀ o ∈ c.outputGates.drop 161, o < c.gates.length + c.totalInputs := by
    intro o ho
    have := validateOutputs_lt hvo o (List.mem_of_mem_drop ho)
    simp only [wiresLen] at this; omega
  obtain ⟨added, hadd, hok⟩ := dealias_spec (c.outputGates.drop 161) [] (c.gates.length + c.totalInputs) [] hlt
  cases hd : dealias (c.outputGates.drop 161) [] (c.gates.length + c.totalInputs) [] with
  | mk outs extra =>
  rw [hd] at hadd hok
  simp only [List.nil_append] at hadd hok
  subst hadd
  have hrange : ∀ o ∈ outs, c.totalInputs ≤ o ∧ o < (c.gates ++ extra).length + c.totalInputs := by
    intro o ho
    constructor
    · rcases hok.mem o ho with ⟨h1, _⟩ | h2
      · exact hin o h1
      · omega
    · have := hok.lt o ho; simp; omega
  have hf := wmVal_ok c.totalInputs ((c.gates ++ extra).length + c.totalInputs) outs (by omega) hok.nodup hrange
  have hvall : validateGates (c.gates ++ extra) c.totalInputs = .ok () :=
    validateGates_append _ _ _ hvg (by rw [Nat.add_comm]; exact hok.valid)
  have hlines := lines_eq (wmVal c.totalInputs ((c.gates ++ extra).length + c.totalInputs) outs) c.totalInputs
    ((c.gates ++ extra).length + c.totalInputs) (c.gates ++ extra) 0 (by simpa using hvall) (by omega)
  have hany : (c.outputGates.drop 161).any (· < c.totalInputs) = false := by
    rw [List.any_eq_false]
    intro o ho; have := hin o ho; simp; omega
  refine ⟨_, outs, c.gates ++ extra, hf, hok.nodup, hok.len, hvall, ?_⟩
  simp only [exportLines, show ¬ c.outputGates.length < 161 by omega, if_false, hany, Bool.false_eq_true, hd,
    wiresMap_eq, hlines]

/-- **export, then import**: the importer reads back exactly the exported gate list (the circuit's gates
followed by the copies made for repeated outputs), with the de-aliased outputs -/
theorem export_import (c : Circuit) (hv : c.validate = .ok ()) (h161 : 161 ≤ c.outputGates.length)
    (hin : ∀ o ∈ c.outputGates.drop 161, c.totalInputs ≤ o)
    (hmax : c.gates.length + (dealias (c.outputGates.drop 161) [] (c.gates.length + c.totalInputs) []).2.length
      + c.totalInputs ≤ MAX_GATES) :
    ∃ ls, exportLines c = .ok ls ∧
      importLines ls = .ok
        { inputGates := c.inputGates
          gates := c.gates ++ (dealias (c.outputGates.drop 161) [] (c.gates.length + c.totalInputs) []).2
          outputGates := (dealias (c.outputGates.drop 161) [] (c.gates.length + c.totalInputs) []).1 } := by
  obtain ⟨hig, hvg, hvo, hsz⟩ := validate_ok hv
  have hlt : ∀ o ∈ c.outputGates.drop 161, o < c.gates.length + c.totalInputs := by
    intro o ho
    have := validateOutputs_lt hvo o (List.mem_of_mem_drop ho)
    simp only [wiresLen] at this; omega
  obtain ⟨added, hadd, hok⟩ := dealias_spec (c.outputGates.drop 161) [] (c.gates.length + c.totalInputs) [] hlt
  cases hd : dealias (c.outputGates.drop 161) [] (c.gates.length + c.totalInputs) [] with
  | mk outs extra =>
  rw [hd] at hadd hok hmax
  simp only [List.nil_append] at hadd hok hmax
  subst hadd
  -- the exported gate list and its renumbering
  have hTW : c.gates.length + extra.length + c.totalInputs = (c.gates ++ extra).length + c.totalInputs := by simp
  have hrange : ∀ o ∈ outs, c.totalInputs ≤ o ∧ o < (c.gates ++ extra).length + c.totalInputs := by
    intro o ho
    constructor
    · rcases hok.mem o ho with ⟨h1, _⟩ | h2
      · exact hin o h1
      · omega
    · have := hok.lt o ho; simp; omega
  have hf := wmVal_ok c.totalInputs ((c.gates ++ extra).length + c.totalInputs) outs (by omega) hok.nodup hrange
  have hvall : validateGates (c.gates ++ extra) c.totalInputs = .ok () :=
    validateGates_append _ _ _ hvg (by rw [Nat.add_comm]; exact hok.valid)
  have hlines := lines_eq (wmVal c.totalInputs ((c.gates ++ extra).length + c.totalInputs) outs) c.totalInputs
    ((c.gates ++ extra).length + c.totalInputs) (c.gates ++ extra) 0 (by simpa using hvall) (by omega)
  have hany : (c.outputGates.drop 161).any (· < c.totalInputs) = false := by
    rw [List.any_eq_false]
    intro o ho; have := hin o ho; simp; omega
  refine ⟨[[.num (c.gates ++ extra).length, .num ((c.gates ++ extra).length + c.totalInputs)],
      .num c.inputGates.length :: c.inputGates.map .num, [.num 1, .num outs.length], []] ++
      linesOf (wmVal c.totalInputs ((c.gates ++ extra).length + c.totalInputs) outs) c.totalInputs (c.gates ++ extra) 0,
    ?_, ?_⟩
  · simp only [exportLines, show ¬ c.outputGates.length < 161 by omega, if_false, hany, Bool.false_eq_true, hd,
      wiresMap_eq, hlines]
  · -- the importer
    unfold importLines
    rw [parseHeader_exported _ _ outs.length c.inputGates _ hig (by simp only [totalInputs] at hTW ⊢; omega)
      (by have := hf.outs_le; omega) ?_ (by omega)]
    · simp only [List.cons_append, List.nil_append, List.drop_succ_cons, List.drop_zero, importGates, importGate,
        List.isEmpty_nil, if_true]
      have hinit := inv_init c.totalInputs outs (wmVal c.totalInputs ((c.gates ++ extra).length + c.totalInputs) outs)
        (c.gates ++ extra) ((c.gates ++ extra).length + c.totalInputs) rfl (fun o ho => (hrange o ho).1)
      obtain ⟨st', hst, hinv⟩ := importGates_all hf rfl hvall (c.gates ++ extra).length 0 _ (by simp) (by omega) hinit
      simp only [List.drop_zero] at hst
      simp only [totalInputs] at hst ⊢
      rw [hst]
      simp only [Except.ok.injEq]
      have hg : st'.gates = c.gates ++ extra := by rw [hinv.gatesEq, List.take_length]
      have ho : st'.outputGates = outs := by
        apply List.ext_getElem?
        intro k
        by_cases hk : k < outs.length
        · rw [hinv.out k hk (by have := (hrange _ (List.getElem_mem hk)).2; omega), List.getElem?_eq_getElem hk]
        · rw [List.getElem?_eq_none (by rw [hinv.outLen]; omega), List.getElem?_eq_none (by omega)]
      rw [hg, ho]
    · -- enough lines
      rw [List.length_append, linesOf_length]; simp only [totalInputs]; omega


/-! ### the function computed -/

theorem evalGates_append (a b : List Gate) : ∀ ws : List Bool,
    evalGates (a ++ b) ws = (evalGates a ws).bind (evalGates b) := by
  induction a with
  | nil => intro ws; simp [evalGates]
  | cons g a ih =>
    intro ws
    simp only [List.cons_append, evalGates]
    cases evalGate ws g with
    | none => simp
    | some v => simp [ih]

theorem mapM_congr_map {β : Type} (l1 : List Nat) : ∀ (l2 : List Nat) (f g : Nat → Option β),
    l1.map f = l2.map g → l1.mapM f = l2.mapM g := by
  induction l1 with
  | nil => intro l2 f g h; cases l2 with
    | nil => rfl
    | cons _ _ => simp at h
  | cons a l1 ih =>
    intro l2 f g h
    cases l2 with
    | nil => simp at h
    | cons b l2 =>
      simp only [List.map_cons, List.cons.injEq] at h
      simp only [List.mapM_cons, h.1, ih l2 f g h.2]

theorem mapM_drop {β : Type} (f : Nat → Option β) (l : List Nat) : ∀ (n : Nat) (out : List β),
    l.mapM f = some out → (l.drop n).mapM f = some (out.drop n) := by
  induction l with
  | nil => intro n out h; simp at h; subst h; simp
  | cons a l ih =>
    intro n out h
    cases n with
    | zero => simpa using h
    | succ n =>
      simp only [List.mapM_cons] at h
      cases hfa : f a with
      | none => simp [hfa] at h
      | some v =>
        cases hl : l.mapM f with
        | none => simp [hfa, hl] at h
        | some out' =>
          simp [hfa, hl] at h
          subst h
          simpa using ih n out' hl

/-- **C11 (round trip)**: a valid circuit whose outputs are not input wires and whose export stays within
the importer's size limit is exported to a file that the importer accepts, and the imported circuit
computes, for every input of the declared shape, the outputs of the original one without its panic
record. -/
theorem roundtrip (c : Circuit) (hv : c.validate = .ok ()) (h161 : 161 ≤ c.outputGates.length)
    (hin : ∀ o ∈ c.outputGates.drop 161, c.totalInputs ≤ o)
    (hmax : c.gates.length + (dealias (c.outputGates.drop 161) [] (c.gates.length + c.totalInputs) []).2.length
      + c.totalInputs ≤ MAX_GATES) :
    ∃ ls c', exportLines c = .ok ls ∧ importLines ls = .ok c' ∧
      ∀ ins, shapeOk c.inputGates ins = true → c'.eval? ins = (c.eval? ins).map (List.drop 161) := by
  obtain ⟨ls, hex, him⟩ := export_import c hv h161 hin hmax
  refine ⟨ls, _, hex, him, ?_⟩
  intro ins hshape
  obtain ⟨hig, hvg, hvo, hsz⟩ := validate_ok hv
  have hlt : ∀ o ∈ c.outputGates.drop 161, o < c.gates.length + c.totalInputs := by
    intro o ho
    have := validateOutputs_lt hvo o (List.mem_of_mem_drop ho)
    simp only [wiresLen] at this; omega
  obtain ⟨added, hadd, hok⟩ := dealias_spec (c.outputGates.drop 161) [] (c.gates.length + c.totalInputs) [] hlt
  simp only [List.nil_append] at hadd
  have hflat := flatten_length_of_shapeOk hshape
  obtain ⟨ws, hws, hwl⟩ := evalGates_some c.gates ins.flatten (by rw [hflat]; exact hvg)
  obtain ⟨out, hout, _⟩ := mapM_getElem?_some ws c.outputGates (by
    intro o ho
    have := validateOutputs_lt hvo o ho
    simp only [wiresLen, totalInputs] at this; omega)
  obtain ⟨ext, hev, _, hmap⟩ := hok.sem ws (by simp only [totalInputs]; omega)
  have hshape' : (!shapeOk c.inputGates ins) = false := by simp [hshape]
  simp only [eval?, hshape', Bool.false_eq_true, if_false, hws, hout, Option.map_some]
  rw [evalGates_append, hws, hadd]
  simp only [Option.bind_some, hev]
  rw [mapM_congr_map _ _ _ _ hmap]
  exact mapM_drop _ _ 161 out hout

end Bristol
end GV
