import GarbleVerif.Model.Bristol
import GarbleVerif.Proofs.SsaEval
/-!
# De-aliasing of repeated outputs in the Bristol export: the added XOR gates copy the wire
-/
namespace GV
namespace Bristol
open Circuit

structure DealiasOK (rest seen : List Nat) (W : Nat) (outs : List Nat) (added : List Gate) : Prop where
  len : outs.length = rest.length
  mem : ∀ x ∈ outs, (x ∈ rest ∧ x ∉ seen) ∨ W < x
  lt : ∀ x ∈ outs, x < W + added.length
  nodup : outs.Nodup
  valid : validateGates added W = .ok ()
  sem : ∀ ws : List Bool, ws.length = W → ∃ ext, evalGates added ws = some (ws ++ ext) ∧
    ext.length = added.length ∧ outs.map (fun o => (ws ++ ext)[o]?) = rest.map (fun o => ws[o]?)

theorem dealias_spec (rest : List Nat) : ∀ (seen : List Nat) (W : Nat) (extra : List Gate),
    (∀ o ∈ rest, o < W) →
    ∃ added, (dealias rest seen W extra).2 = extra ++ added ∧
      DealiasOK rest seen W (dealias rest seen W extra).1 added := by
  induction rest with
  | nil =>
    intro seen W extra _
    refine ⟨[], by simp [dealias], ⟨rfl, by simp [dealias], by simp [dealias], by simp [dealias], rfl, ?_⟩⟩
    intro ws _
    exact ⟨[], by simp [evalGates], rfl, by simp [dealias]⟩
  | cons o rest ih =>
    intro seen W extra hlt
    have ho : o < W := hlt o (List.mem_cons_self ..)
    have hrest : ∀ x ∈ rest, x < W := fun x hx => hlt x (List.mem_cons_of_mem _ hx)
    by_cases hs : seen.contains o = true
    · obtain ⟨added', he, hok⟩ := ih seen (W + 2) (extra ++ [.xor o o, .xor o W])
        (fun x hx => by have := hrest x hx; omega)
      cases hd : dealias rest seen (W + 2) (extra ++ [.xor o o, .xor o W]) with
      | mk outs' extra' =>
        rw [hd] at he hok
        simp only at he hok
        refine ⟨[.xor o o, .xor o W] ++ added', ?_, ?_⟩
        · simp only [dealias, hs, if_true, hd]; rw [he]; simp
        · simp only [dealias, hs, if_true, hd]
          have hnot : (W + 1) ∉ outs' := by
            intro hm
            rcases hok.mem _ hm with ⟨h1, _⟩ | h2
            · have := hrest _ h1; omega
            · omega
          refine ⟨by simp [hok.len], ?_, ?_, ?_, ?_, ?_⟩
          · intro x hx
            simp only [List.mem_cons] at hx
            rcases hx with rfl | hx
            · right; omega
            · rcases hok.mem x hx with ⟨h1, h2⟩ | h2
              · left; exact ⟨List.mem_cons_of_mem _ h1, h2⟩
              · right; omega
          · intro x hx
            simp only [List.mem_cons] at hx
            rcases hx with rfl | hx
            · simp
            · have := hok.lt x hx; simp; omega
          · exact List.nodup_cons.mpr ⟨hnot, hok.nodup⟩
          · simp [validateGates, gateOk, ho, hok.valid]
            omega
          · intro ws hws
            have hoW : o < ws.length := by omega
            obtain ⟨ext', hev, hlen, hmap⟩ := hok.sem (ws ++ [false] ++ [ws[o]]) (by simp; omega)
            refine ⟨[false, ws[o]] ++ ext', ?_, by simp [hlen], ?_⟩
            · have e1 : evalGate ws (.xor o o) = some false := by
                simp [evalGate, List.getElem?_eq_getElem hoW]
              have e2 : evalGate (ws ++ [false]) (.xor o W) = some ws[o] := by
                have h1 : (ws ++ [false])[o]? = some ws[o] := by
                  rw [List.getElem?_append_left hoW, List.getElem?_eq_getElem hoW]
                have h2 : (ws ++ [false])[W]? = some false := by
                  rw [List.getElem?_append_right (by omega)]; simp [hws]
                simp [evalGate, h1, h2]
              simp only [List.cons_append, List.nil_append, evalGates, e1, e2]
              rw [hev]; simp
            · simp only [List.map_cons]
              have hassoc : ws ++ ([false, ws[o]] ++ ext') = (ws ++ [false] ++ [ws[o]]) ++ ext' := by simp
              rw [hassoc, hmap]
              congr 1
              · rw [List.getElem?_append_left (by simp; omega)]
                rw [List.getElem?_append_right (by simp; omega)]
                simp [hws, List.getElem?_eq_getElem hoW]
              · apply List.map_congr_left
                intro x hx
                have := hrest x hx
                rw [List.append_assoc, List.getElem?_append_left (by omega)]
    · obtain ⟨added', he, hok⟩ := ih (o :: seen) W extra hrest
      cases hd : dealias rest (o :: seen) W extra with
      | mk outs' extra' =>
        rw [hd] at he hok
        simp only at he hok
        have hs' : seen.contains o = false := by simpa using hs
        refine ⟨added', ?_, ?_⟩
        · simp only [dealias, hs', hd, Bool.false_eq_true, if_false]; exact he
        · simp only [dealias, hs', hd, Bool.false_eq_true, if_false]
          have hns : o ∉ seen := by simpa using hs
          have hnot : o ∉ outs' := by
            intro hm
            rcases hok.mem _ hm with ⟨_, h2⟩ | h2
            · exact h2 (List.mem_cons_self ..)
            · omega
          refine ⟨by simp [hok.len], ?_, ?_, ?_, hok.valid, ?_⟩
          · intro x hx
            simp only [List.mem_cons] at hx
            rcases hx with rfl | hx
            · left; exact ⟨List.mem_cons_self .., hns⟩
            · rcases hok.mem x hx with ⟨h1, h2⟩ | h2
              · left; exact ⟨List.mem_cons_of_mem _ h1, fun h => h2 (List.mem_cons_of_mem _ h)⟩
              · right; exact h2
          · intro x hx
            simp only [List.mem_cons] at hx
            rcases hx with rfl | hx
            · omega
            · exact hok.lt x hx
          · exact List.nodup_cons.mpr ⟨hnot, hok.nodup⟩
          · intro ws hws
            obtain ⟨ext, hev, hlen, hmap⟩ := hok.sem ws hws
            refine ⟨ext, hev, hlen, ?_⟩
            simp only [List.map_cons, hmap]
            congr 1
            rw [List.getElem?_append_left (by omega)]

end Bristol
end GV
