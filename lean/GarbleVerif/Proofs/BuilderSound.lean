import GarbleVerif.Proofs.BuilderSem
namespace GV
namespace Builder

/-- post-condition of a request that returns wire `r.1` in builder `r.2` -/
def Post (b : Builder) (op : Bool → Bool → Bool) (x y : Nat) (r : Nat × Builder) : Prop :=
  WF r.2 ∧ Ext b r.2 ∧ r.1 < r.2.counter ∧
  ∀ inp, inp.length + 2 = b.shift → r.2.sem inp r.1 = op (b.sem inp x) (b.sem inp y)

theorem Post.of_same {b : Builder} {op : Bool → Bool → Bool} {x y w : Nat} (hb : WF b) (hw : w < b.counter)
    (h : ∀ inp, inp.length + 2 = b.shift → b.sem inp w = op (b.sem inp x) (b.sem inp y)) :
    Post b op x y (w, b) := ⟨hb, Ext.refl b, hw, h⟩

/-- transporting a post-condition along an equality of semantics -/
theorem Post.mono {b : Builder} {op op' : Bool → Bool → Bool} {x y x' y' : Nat} {r : Nat × Builder}
    (h : Post b op' x' y' r)
    (heq : ∀ inp, inp.length + 2 = b.shift → op' (b.sem inp x') (b.sem inp y') = op (b.sem inp x) (b.sem inp y)) :
    Post b op x y r := by
  obtain ⟨h1, h2, h3, h4⟩ := h
  exact ⟨h1, h2, h3, fun inp hi => by rw [h4 inp hi, heq inp hi]⟩

theorem cacheEntry_mono {b b' : Builder} (h : Ext b b') (g : BGate) (w : Nat)
    (hs : w < b.counter ∧ opsLt g b.counter ∧
      ∀ inp, inp.length + 2 = b.shift → b.sem inp w = gateVal (b.vals inp) g) :
    w < b'.counter ∧ opsLt g b'.counter ∧
      ∀ inp, inp.length + 2 = b'.shift → b'.sem inp w = gateVal (b'.vals inp) g := by
  obtain ⟨h1, h2, h3⟩ := hs
  refine ⟨Nat.lt_of_lt_of_le h1 h.counter_le, opsLt_mono h2 h.counter_le, fun inp hi => ?_⟩
  rw [h.shift] at hi
  rw [h.sem_eq inp hi w h1, h.gateVal_eq inp hi g h2, h3 inp hi]

theorem negEntry_mono {b b' : Builder} (h : Ext b b') (a n : Nat)
    (hs : a < b.counter ∧ n < b.counter ∧
      ∀ inp, inp.length + 2 = b.shift → b.sem inp n = !b.sem inp a) :
    a < b'.counter ∧ n < b'.counter ∧
      ∀ inp, inp.length + 2 = b'.shift → b'.sem inp n = !b'.sem inp a := by
  obtain ⟨h1, h2, h3⟩ := hs
  refine ⟨Nat.lt_of_lt_of_le h1 h.counter_le, Nat.lt_of_lt_of_le h2 h.counter_le, fun inp hi => ?_⟩
  rw [h.shift] at hi
  rw [h.sem_eq inp hi n h2, h.sem_eq inp hi a h1, h3 inp hi]

theorem pushGate_ext (b : Builder) (g : BGate) : Ext b (b.pushGate g).2 :=
  ⟨rfl, rfl, ⟨[g], rfl⟩⟩

theorem pushGate_counter (b : Builder) (g : BGate) : (b.pushGate g).2.counter = b.counter + 1 := by
  simp [pushGate, counter]; omega

theorem pushGate_sem_new (b : Builder) (g : BGate) (inp : List Bool) (hi : inp.length + 2 = b.shift) :
    (b.pushGate g).2.sem inp b.counter = gateVal (b.vals inp) g := by
  simp only [sem, vals, pushGate, valsFrom_append]
  simp only [valsFrom, List.foldl_cons, List.foldl_nil, stepVals]
  have hlen := vals_length b inp hi
  simp only [vals, valsFrom] at hlen
  rw [List.getD_eq_getElem?_getD, List.getElem?_append_right (by omega)]
  simp [hlen, vals, valsFrom]

/-- the gates after a push: the old ones, then the new one -/
theorem pushGate_getElem? (b : Builder) (g g' : BGate) (i : Nat) (h : (b.pushGate g).2.gates[i]? = some g') :
    (i < b.gates.length ∧ b.gates[i]? = some g') ∨ (i = b.gates.length ∧ g' = g) := by
  simp only [pushGate] at h
  rcases Nat.lt_or_ge i b.gates.length with hlt | hge
  · rw [List.getElem?_append_left hlt] at h
    exact Or.inl ⟨hlt, h⟩
  · rw [List.getElem?_append_right hge] at h
    rcases Nat.eq_zero_or_pos (i - b.gates.length) with hz | hp
    · simp [hz] at h
      exact Or.inr ⟨by omega, h.symm⟩
    · have : (i - b.gates.length) ≠ 0 := by omega
      simp [List.getElem?_cons, this] at h

/-- same unordered pair of operands -/
def samePair (x y x' y' : Nat) : Prop := (x = x' ∧ y = y') ∨ (x = y' ∧ y = x')

theorem pushGate_spec {b : Builder} (hb : WF b) (g : BGate) (hg : opsLt g b.counter)
    (hn : ∀ x y, g = .and x y → x ≠ y ∧ 2 ≤ x ∧ 2 ≤ y)
    (hu : b.cacheOn = true → ∀ x y, g = .and x y → ∀ (i x' y' : Nat), b.gates[i]? = some (BGate.and x' y') →
      ¬ samePair x y x' y') :
    WF (b.pushGate g).2 ∧ (b.pushGate g).1 = b.counter ∧
    ∀ inp, inp.length + 2 = b.shift → (b.pushGate g).2.sem inp b.counter = gateVal (b.vals inp) g := by
  have hext := pushGate_ext b g
  have hcnt := pushGate_counter b g
  refine ⟨?_, rfl, pushGate_sem_new b g⟩
  refine ⟨hb.shift2, ?ops, ?cs, ?ns, ?an, ?cc, ?au⟩
  case cc =>
    intro hc i x y hi
    have hc' : b.cacheOn = true := hc
    have hcache : (b.pushGate g).2.cache = b.cache.insert g b.counter := by simp [pushGate, hc']
    rw [hcache, Std.HashMap.getElem?_insert]
    split
    · rfl
    · rename_i hne
      rcases pushGate_getElem? b g _ i hi with ⟨_, hold⟩ | ⟨_, hnew⟩
      · exact hb.cacheCover hc' i x y hold
      · exact absurd (by simp [hnew]) hne
  case au =>
    intro hc i j x y x' y' hi hj hsame
    have hc' : b.cacheOn = true := hc
    rcases pushGate_getElem? b g _ i hi with ⟨hil, hio⟩ | ⟨hil, hin⟩ <;>
    rcases pushGate_getElem? b g _ j hj with ⟨hjl, hjo⟩ | ⟨hjl, hjn⟩
    · exact hb.andUniq hc' i j x y x' y' hio hjo hsame
    · exact absurd (show samePair x' y' x y from by
        rcases hsame with ⟨rfl, rfl⟩ | ⟨rfl, rfl⟩
        · exact Or.inl ⟨rfl, rfl⟩
        · exact Or.inr ⟨rfl, rfl⟩) (hu hc' x' y' hjn.symm i x y hio)
    · exact absurd hsame (hu hc' x y hin.symm j x' y' hjo)
    · omega
  case an =>
    intro i x y hi
    simp only [pushGate] at hi
    rcases Nat.lt_or_ge i b.gates.length with hlt | hge
    · rw [List.getElem?_append_left hlt] at hi
      exact hb.andNorm i x y hi
    · rw [List.getElem?_append_right hge] at hi
      rcases Nat.eq_zero_or_pos (i - b.gates.length) with hz | hp
      · simp [hz] at hi
        exact hn x y hi
      · have : (i - b.gates.length) ≠ 0 := by omega
        simp [List.getElem?_cons, this] at hi
  case ops =>
    intro i g' hi
    simp only [pushGate] at hi
    rcases Nat.lt_or_ge i b.gates.length with hlt | hge
    · rw [List.getElem?_append_left hlt] at hi
      exact hb.ops i g' hi
    · rw [List.getElem?_append_right hge] at hi
      rcases Nat.eq_zero_or_pos (i - b.gates.length) with hz | hp
      · simp [hz] at hi
        subst hi
        have : b.shift + i = b.counter := by simp [counter]; omega
        show opsLt g (b.shift + i)
        rw [this]; exact hg
      · have : (i - b.gates.length) ≠ 0 := by omega
        simp [List.getElem?_cons, this] at hi
  case cs =>
    intro g' w hgw
    by_cases hc : b.cacheOn
    · simp only [pushGate, hc, if_true] at hgw
      rw [Std.HashMap.getElem?_insert] at hgw
      split at hgw
      · rename_i heq
        have heq : g = g' := by simpa using heq
        subst heq
        simp at hgw; subst hgw
        refine ⟨by rw [hcnt]; omega, opsLt_mono hg (by rw [hcnt]; omega), fun inp hi => ?_⟩
        have hi' : inp.length + 2 = b.shift := hi
        rw [pushGate_sem_new b g inp hi', hext.gateVal_eq inp hi' g hg]
      · exact cacheEntry_mono hext g' w (hb.cacheSound g' w hgw)
    · have hc' : b.cacheOn = false := by simpa using hc
      simp only [pushGate, hc'] at hgw
      exact cacheEntry_mono hext g' w (hb.cacheSound g' w hgw)
  case ns =>
    intro a n han
    exact negEntry_mono hext a n (hb.negSound a n han)

theorem getCached_sound {b : Builder} (hb : WF b) (g : BGate) (w : Nat) (h : b.getCached g = some w) :
    w < b.counter ∧ ∀ inp, inp.length + 2 = b.shift → b.sem inp w = gateVal (b.vals inp) g := by
  simp only [getCached] at h
  split at h
  · simp at h
  · split at h
    · rename_i w' hw'
      simp at h; subst h
      have := hb.cacheSound g w' hw'
      exact ⟨this.1, this.2.2⟩
    · cases g with
      | xor x y =>
        have := hb.cacheSound _ w h
        refine ⟨this.1, fun inp hi => ?_⟩
        rw [this.2.2 inp hi, gateVal_xor, gateVal_xor, Bool.xor_comm]
      | and x y =>
        have := hb.cacheSound _ w h
        refine ⟨this.1, fun inp hi => ?_⟩
        rw [this.2.2 inp hi, gateVal_and, gateVal_and, Bool.and_comm]

theorem optimizeXor_sound {b : Builder} (hb : WF b) (x y w : Nat) (hx : x < b.counter) (hy : y < b.counter)
    (h : b.optimizeXor x y = some w) :
    w < b.counter ∧ ∀ inp, inp.length + 2 = b.shift → b.sem inp w = (b.sem inp x ^^ b.sem inp y) := by
  have c2 : 2 ≤ b.counter := by have := hb.shift2; simp [counter]; omega
  simp only [optimizeXor] at h
  split at h
  · rename_i hx0; simp at h; subst h; subst hx0
    exact ⟨hy, fun inp _ => by simp [sem_zero]⟩
  split at h
  · rename_i hy0; simp at h; subst h; subst hy0
    exact ⟨hx, fun inp _ => by simp [sem_zero]⟩
  split at h
  · rename_i hxy; simp at h; subst h; subst hxy
    exact ⟨by omega, fun inp _ => by simp [sem_zero]⟩
  -- negation / cache
  split at h
  · -- viaNeg = some w
    rename_i w' hv
    simp at h; subst h
    split at hv
    · rename_i xn hxn
      have hn := hb.negSound x xn hxn
      split at hv
      · rename_i hxy; simp at hv; subst hv; subst hxy
        exact ⟨by omega, fun inp hi => by rw [sem_one, hn.2.2 inp hi]; cases b.sem inp x <;> rfl⟩
      · split at hv
        · rename_i hy1; simp at hv; subst hv; subst hy1
          exact ⟨hn.2.1, fun inp hi => by rw [sem_one, hn.2.2 inp hi]; cases b.sem inp x <;> rfl⟩
        · simp at hv
    · split at hv
      · rename_i yn hyn
        have hn := hb.negSound y yn hyn
        split at hv
        · rename_i hyx; simp at hv; subst hv; subst hyx
          exact ⟨by omega, fun inp hi => by rw [sem_one, hn.2.2 inp hi]; cases b.sem inp y <;> rfl⟩
        · split at hv
          · rename_i hx1; simp at hv; subst hv; subst hx1
            exact ⟨hn.2.1, fun inp hi => by rw [sem_one, hn.2.2 inp hi]; cases b.sem inp y <;> rfl⟩
          · simp at hv
      · simp at hv
  · have := getCached_sound hb _ w h
    exact ⟨this.1, fun inp hi => by rw [this.2 inp hi, gateVal_xor]⟩

theorem pushXorRaw_post {b : Builder} (hb : WF b) (x y : Nat) (hx : x < b.counter) (hy : y < b.counter) :
    Post b (· ^^ ·) x y (b.pushXorRaw x y) := by
  have hg : opsLt (.xor x y) b.counter := ⟨hx, hy⟩
  obtain ⟨hwf, _, hsem⟩ := pushGate_spec hb (.xor x y) hg (fun _ _ h => by simp at h) (fun _ _ _ h => by simp at h)
  have hext := pushGate_ext b (.xor x y)
  have hcnt := pushGate_counter b (.xor x y)
  -- the builder after the optional `negated` updates has the same gates
  have key : ∀ (b2 : Builder), b2.gates = (b.pushGate (.xor x y)).2.gates → b2.shift = b.shift →
      b2.cacheOn = b.cacheOn → b2.cache = (b.pushGate (.xor x y)).2.cache →
      (∀ a n, b2.negated[a]? = some n → a < b2.counter ∧ n < b2.counter ∧
        ∀ inp, inp.length + 2 = b2.shift → b2.sem inp n = !b2.sem inp a) →
      Post b (· ^^ ·) x y (b.counter, b2) := by
    intro b2 hgates hshift hco hcache hneg
    have hsem2 : ∀ inp w, b2.sem inp w = (b.pushGate (.xor x y)).2.sem inp w := by
      intro inp w; simp [sem, vals, hgates]
    have hvals2 : ∀ inp, b2.vals inp = (b.pushGate (.xor x y)).2.vals inp := by
      intro inp; simp [vals, hgates]
    have hcnt2 : b2.counter = b.counter + 1 := by
      rw [← hcnt]; simp [counter, hgates, hshift, pushGate]
    have hco2 : b2.cacheOn = (b.pushGate (.xor x y)).2.cacheOn := by rw [hco]; rfl
    refine ⟨⟨by rw [hshift]; exact hb.shift2, ?_, ?_, hneg, fun i x' y' hi => hwf.andNorm i x' y' (by rw [← hgates]; exact hi),
        fun hc i x' y' hi => by rw [hcache]; exact hwf.cacheCover (by rw [← hco2]; exact hc) i x' y' (by rw [← hgates]; exact hi),
        fun hc i j x1 y1 x2 y2 hi hj hs => hwf.andUniq (by rw [← hco2]; exact hc) i j x1 y1 x2 y2
          (by rw [← hgates]; exact hi) (by rw [← hgates]; exact hj) hs⟩,
      ⟨hshift, hco, ⟨[.xor x y], by rw [hgates]; rfl⟩⟩,
      by show b.counter < b2.counter; omega, fun inp hi => ?_⟩
    · intro i g hi; rw [hgates] at hi; rw [hshift]; exact hwf.ops i g hi
    · intro g w hgw; rw [hcache] at hgw
      have := hwf.cacheSound g w hgw
      refine ⟨by rw [hcnt2, ← hcnt]; exact this.1, by rw [hcnt2, ← hcnt]; exact this.2.1, fun inp hi => ?_⟩
      rw [hsem2, hvals2]; exact this.2.2 inp (by rw [hshift] at hi; exact hi)
    · rw [hsem2, hsem inp hi, gateVal_xor]
  -- now unfold pushXorRaw
  have hnegBase := hwf.negSound
  simp only [pushXorRaw]
  generalize hb1 : (b.pushGate (.xor x y)) = r at *
  obtain ⟨w, b1⟩ := r
  have hw : w = b.counter := by have := congrArg Prod.fst hb1; simpa [pushGate] using this.symm
  subst hw
  simp only at hwf hsem hext hcnt hnegBase key ⊢
  -- semantics of the new wire
  have hnew : ∀ inp, inp.length + 2 = b.shift → b1.sem inp b.counter = (b.sem inp x ^^ b.sem inp y) := by
    intro inp hi; rw [hsem inp hi, gateVal_xor]
  have hold : ∀ inp, inp.length + 2 = b.shift → ∀ w, w < b.counter → b1.sem inp w = b.sem inp w :=
    fun inp hi w hw => hext.sem_eq inp hi w hw
  have hb1shift : b1.shift = b.shift := hext.shift
  apply key
  · split <;> split <;> rfl
  · split <;> split <;> simp [hb1shift]
  · split <;> split <;> simp [hext.cacheOn]
  · split <;> split <;> rfl
  · -- negated soundness after the updates
    intro a n han
    have hc1 : b1.counter = b.counter + 1 := hcnt
    -- generic helper: soundness of the two inserted entries
    have ins : ∀ (m : Std.HashMap Nat Nat) (z : Nat), z < b.counter →
        (∀ inp, inp.length + 2 = b.shift → b1.sem inp b.counter = !b1.sem inp z) →
        (∀ a n, m[a]? = some n → a < b1.counter ∧ n < b1.counter ∧
          ∀ inp, inp.length + 2 = b1.shift → b1.sem inp n = !b1.sem inp a) →
        (∀ a n, ((m.insert z b.counter).insert b.counter z)[a]? = some n →
          a < b1.counter ∧ n < b1.counter ∧
          ∀ inp, inp.length + 2 = b1.shift → b1.sem inp n = !b1.sem inp a) := by
      intro m z hz hzsem hm a n h
      rw [Std.HashMap.getElem?_insert] at h
      split at h
      · rename_i e; have e : b.counter = a := by simpa using e
        subst e; simp at h; subst h
        refine ⟨by omega, by omega, fun inp hi => ?_⟩
        rw [hb1shift] at hi
        rw [hzsem inp hi]; simp
      · rw [Std.HashMap.getElem?_insert] at h
        split at h
        · rename_i e; have e : z = a := by simpa using e
          subst e; simp at h; subst h
          refine ⟨by omega, by omega, fun inp hi => ?_⟩
          rw [hb1shift] at hi
          exact hzsem inp hi
        · exact hm a n h
    -- case analysis on x = 1 / y = 1
    by_cases hx1 : x = 1 <;> by_cases hy1 : y = 1
    · -- x = 1, y = 1 impossible here? keep general
      subst hx1; subst hy1
      simp only [if_true] at han ⊢
      refine ins _ 1 hx ?_ (ins _ 1 hx ?_ hnegBase) a n han
      · intro inp hi; rw [hnew inp hi, hold inp hi 1 hx]; simp [sem_one]
      · intro inp hi; rw [hnew inp hi, hold inp hi 1 hx]; simp [sem_one]
    · subst hx1
      simp only [if_true, hy1, if_false] at han ⊢
      refine ins _ y hy ?_ hnegBase a n han
      intro inp hi; rw [hnew inp hi, hold inp hi y hy]; simp [sem_one]
    · subst hy1
      simp only [hx1, if_false, if_true] at han ⊢
      refine ins _ x hx ?_ hnegBase a n han
      intro inp hi; rw [hnew inp hi, hold inp hi x hx]; simp [sem_one]
    · simp only [hx1, hy1, if_false] at han ⊢
      exact hnegBase a n han

end Builder
end GV
