import GarbleVerif.Model.Scan
/-! Location bookkeeping of the scanner: every location it produces has start ≤ end, and its
line counter equals the number of newlines consumed. -/
namespace GV
namespace Scan

/-- number of newline characters -/
def nl (cs : List Char) : Nat := cs.count '\n'

@[simp] theorem nl_nil : nl [] = 0 := rfl
theorem nl_cons (c : Char) (cs : List Char) : nl (c :: cs) = (if c = '\n' then 1 else 0) + nl cs := by
  unfold nl
  rw [List.count_cons]
  split <;> rename_i h
  · have : c = '\n' := by simpa using h
    simp [this]; omega
  · have : ¬ c = '\n' := by simpa using h
    simp [this]
theorem nl_append (a b : List Char) : nl (a ++ b) = nl a + nl b := by
  unfold nl; exact List.count_append

def MetaOK (m : Meta) (line : Nat) : Prop := Pos.le m.start m.stop ∧ m.stop.line ≤ line

theorem MetaOK.mono {m : Meta} {l l' : Nat} (h : MetaOK m l) (hl : l ≤ l') : MetaOK m l' :=
  ⟨h.1, Nat.le_trans h.2 hl⟩

theorem Pos.le_refl (p : Pos) : Pos.le p p := Or.inr ⟨rfl, Nat.le_refl _⟩
theorem Pos.le_col (l c n : Nat) : Pos.le ⟨l, c⟩ ⟨l, c + n⟩ := Or.inr ⟨rfl, by simp⟩
theorem Pos.le_trans {a b c : Pos} (h1 : Pos.le a b) (h2 : Pos.le b c) : Pos.le a c := by
  unfold Pos.le at *
  omega

/-- the scanner's invariant: the pending token start is not after the cursor, and every location
recorded so far is well-formed and lies on a line already reached -/
structure Inv (s : St) : Prop where
  start_le : Pos.le s.start ⟨s.line, s.col⟩
  toks : ∀ tm, tm ∈ s.tokens → MetaOK tm.2 s.line
  errs : ∀ em, em ∈ s.errors → MetaOK em.2 s.line

theorem inv_init : Inv St.init :=
  ⟨Pos.le_refl _, by simp [St.init], by simp [St.init]⟩

/-- moving the cursor forward keeps the invariant -/
theorem inv_move {s : St} (h : Inv s) (l c : Nat) (hle : Pos.le ⟨s.line, s.col⟩ ⟨l, c⟩) :
    Inv { s with line := l, col := c } := by
  have hl : s.line ≤ l := by unfold Pos.le at hle; simp at hle; omega
  exact ⟨Pos.le_trans h.start_le hle, fun tm htm => (h.toks tm htm).mono hl,
    fun em hem => (h.errs em hem).mono hl⟩

theorem inv_advN {s : St} (h : Inv s) (n : Nat) : Inv (advN s n) := by
  have := inv_move h s.line (s.col + n) (Or.inr ⟨rfl, by simp⟩)
  simpa [advN] using this

theorem inv_setStart {s : St} (h : Inv s) : Inv { s with start := ⟨s.line, s.col⟩ } :=
  ⟨Pos.le_refl _, h.toks, h.errs⟩

theorem inv_pushToken {s : St} (h : Inv s) (t : String) : Inv (pushToken s t) := by
  unfold pushToken
  dsimp only
  refine ⟨Pos.le_refl _, ?_, ?_⟩
  · intro tm htm
    simp only [List.mem_cons] at htm
    rcases htm with rfl | htm
    · refine ⟨?_, Nat.le_refl _⟩
      dsimp only
      have := h.start_le
      unfold Pos.le at *
      simp only at this ⊢
      split <;> omega
    · exact h.toks tm htm
  · exact h.errs

theorem inv_pushError {s : St} (h : Inv s) (k : ErrKind) : Inv (pushError s k) := by
  unfold pushError
  dsimp only
  refine ⟨h.start_le, h.toks, ?_⟩
  intro em hem
  simp only [List.mem_cons] at hem
  rcases hem with rfl | hem
  · exact ⟨Pos.le_refl _, Nat.le_refl _⟩
  · exact h.errs em hem

@[simp] theorem advN_line (s : St) (n : Nat) : (advN s n).line = s.line := rfl
@[simp] theorem pushToken_line (s : St) (t : String) : (pushToken s t).line = s.line := rfl
@[simp] theorem pushError_line (s : St) (k : ErrKind) : (pushError s k).line = s.line := rfl

/-! ### consumed input and the line counter -/

theorem spanP_nl (p : Char → Bool) (hp : p '\n' = false) (cs : List Char) :
    nl (spanP p cs).2 = nl cs := by
  induction cs with
  | nil => simp [spanP]
  | cons c cs ih =>
    simp only [spanP]
    split
    · rename_i hc
      have : c ≠ '\n' := by intro h; subst h; simp [hp] at hc
      simp [nl_cons, this, ih]
    · rfl

theorem isDigit_nl : isDigit '\n' = false := by decide
theorem isAlnum_nl : isAlnum '\n' = false := by decide

theorem isPrefixOf_eq_append {a b : List Char} (h : a.isPrefixOf b = true) : b = a ++ b.drop a.length := by
  induction a generalizing b with
  | nil => simp
  | cons x a ih =>
    cases b with
    | nil => simp at h
    | cons y b =>
      simp only [List.isPrefixOf, Bool.and_eq_true, beq_iff_eq] at h
      obtain ⟨rfl, h⟩ := h
      simp only [List.length_cons, List.drop_succ_cons, List.cons_append, List.cons.injEq, true_and]
      exact ih h

theorem matchOp_spec (opts : List (List Char × String)) (hopts : ∀ o, o ∈ opts → nl o.1 = 0)
    (rest : List Char) (s : St) (h : Inv s) :
    Inv (matchOp opts rest s).2 ∧ (matchOp opts rest s).2.line = s.line ∧
    nl (matchOp opts rest s).1 = nl rest := by
  induction opts with
  | nil => exact ⟨h, rfl, rfl⟩
  | cons o more ih =>
    obtain ⟨suf, name⟩ := o
    simp only [matchOp]
    split
    · rename_i hp
      refine ⟨inv_pushToken (inv_advN h _) _, rfl, ?_⟩
      have h0 : nl suf = 0 := hopts (suf, name) (by simp)
      have := congrArg nl (isPrefixOf_eq_append hp)
      rw [nl_append, h0] at this
      dsimp only
      omega
    · exact ih (fun o ho => hopts o (by simp [ho]))

theorem opList_nl : ∀ e, e ∈ opList → ∀ o, o ∈ e.2 → nl o.1 = 0 := by decide

theorem opTable_nl (c : Char) (opts : List (List Char × String)) (h : opTable c = some opts) :
    ∀ o, o ∈ opts → nl o.1 = 0 := by
  unfold opTable at h
  cases hf : opList.find? (fun e => e.1 == c) with
  | none => simp [hf] at h
  | some e =>
    simp [hf] at h
    subst h
    exact opList_nl e (List.mem_of_find?_eq_some hf)

/-! block comments -/

theorem blockIter3_spec (cs : List Char) (level line col : Nat) :
    Pos.le ⟨line, col⟩ ⟨(blockIter3 cs level line col).2.2.1, (blockIter3 cs level line col).2.2.2⟩ ∧
    (blockIter3 cs level line col).2.2.1 + nl (blockIter3 cs level line col).1 = line + nl cs := by
  cases cs with
  | nil => simp [blockIter3, Pos.le]
  | cons c r =>
    simp only [blockIter3]
    split
    · rename_i hc; subst hc
      simp [Pos.le, nl_cons]; omega
    · rename_i hc
      split
      · simp [Pos.le]
      · simp [Pos.le, nl_cons, hc]

theorem blockIter2_spec (cs : List Char) (level line col : Nat) :
    Pos.le ⟨line, col⟩ ⟨(blockIter2 cs level line col).2.2.1, (blockIter2 cs level line col).2.2.2⟩ ∧
    (blockIter2 cs level line col).2.2.1 + nl (blockIter2 cs level line col).1 = line + nl cs := by
  cases cs with
  | nil => simpa [blockIter2] using blockIter3_spec [] level line col
  | cons c r =>
    simp only [blockIter2]
    split
    · rename_i hc; subst hc
      have hstar : nl ('*' :: r) = nl r := by simp [nl_cons]
      cases r with
      | nil =>
        have := blockIter3_spec [] level line (col + 1)
        refine ⟨Pos.le_trans (Pos.le_col _ _ 1) this.1, ?_⟩
        rw [hstar]; exact this.2
      | cons d r2 =>
        dsimp only
        split
        · rename_i hd; subst hd
          simp [Pos.le, nl_cons]
        · have := blockIter3_spec (d :: r2) level line (col + 1)
          refine ⟨Pos.le_trans (Pos.le_col _ _ 1) this.1, ?_⟩
          rw [hstar]; exact this.2
    · exact blockIter3_spec (c :: r) level line col

theorem blockIter_spec (cs : List Char) (level line col : Nat) :
    Pos.le ⟨line, col⟩ ⟨(blockIter cs level line col).2.2.1, (blockIter cs level line col).2.2.2⟩ ∧
    (blockIter cs level line col).2.2.1 + nl (blockIter cs level line col).1 = line + nl cs := by
  cases cs with
  | nil => simpa [blockIter] using blockIter2_spec [] level line col
  | cons c r =>
    simp only [blockIter]
    split
    · rename_i hc; subst hc
      have hsl : nl ('/' :: r) = nl r := by simp [nl_cons]
      cases r with
      | nil =>
        have := blockIter2_spec [] level line (col + 1)
        refine ⟨Pos.le_trans (Pos.le_col _ _ 1) this.1, ?_⟩
        rw [hsl]; exact this.2
      | cons d r2 =>
        dsimp only
        split
        · rename_i hd; subst hd
          simp [Pos.le, nl_cons]
        · have := blockIter2_spec (d :: r2) level line (col + 1)
          refine ⟨Pos.le_trans (Pos.le_col _ _ 1) this.1, ?_⟩
          rw [hsl]; exact this.2
    · exact blockIter2_spec (c :: r) level line col

theorem blockLoop_spec (cs : List Char) (level line col : Nat) :
    Pos.le ⟨line, col⟩ ⟨(blockLoop cs level line col).2.1, (blockLoop cs level line col).2.2⟩ ∧
    (blockLoop cs level line col).2.1 + nl (blockLoop cs level line col).1 = line + nl cs := by
  fun_induction blockLoop cs level line col with
  | case1 cs level line col r h => exact blockIter_spec cs level line col
  | case2 cs level line col r h ih =>
    have h1 := blockIter_spec cs level line col
    exact ⟨Pos.le_trans h1.1 ih.1, by rw [ih.2]; exact h1.2⟩

/-! numbers -/

theorem scanUnsigned_spec (c : Char) (rest : List Char) (s : St) (h : Inv s) :
    Inv (scanUnsigned c rest s).2 ∧ (scanUnsigned c rest s).2.line = s.line ∧
    nl (scanUnsigned c rest s).1 = nl rest := by
  unfold scanUnsigned
  have h1 := spanP_nl isDigit isDigit_nl rest
  have h2 := spanP_nl isAlnum isAlnum_nl (spanP isDigit rest).2
  dsimp only
  split
  · split
    · exact ⟨inv_pushToken (inv_advN (inv_advN h _) _) _, rfl, by rw [h2, h1]⟩
    · exact ⟨inv_pushToken (inv_pushError (inv_advN (inv_advN h _) _) _) _, rfl, by rw [h2, h1]⟩
  · exact ⟨inv_pushError (inv_advN h _) _, rfl, h1⟩

theorem scanSigned_spec (rest : List Char) (s : St) (h : Inv s) :
    Inv (scanSigned rest s).2 ∧ (scanSigned rest s).2.line = s.line ∧
    nl (scanSigned rest s).1 = nl rest := by
  unfold scanSigned
  have h1 := spanP_nl isDigit isDigit_nl rest
  have h2 := spanP_nl isAlnum isAlnum_nl (spanP isDigit rest).2
  dsimp only
  split
  · split
    · exact ⟨inv_pushToken (inv_advN (inv_advN h _) _) _, rfl, by rw [h2, h1]⟩
    · exact ⟨inv_pushToken (inv_pushError (inv_advN (inv_advN h _) _) _) _, rfl, by rw [h2, h1]⟩
  · exact ⟨inv_pushError (inv_advN h _) _, rfl, h1⟩

/-- the body of the main loop: invariant kept, line counter = newlines consumed -/
theorem scanOne_spec (c : Char) (rest : List Char) (s : St) (h : Inv s) :
    Inv (scanOne c rest s).2 ∧
    (scanOne c rest s).2.line + nl (scanOne c rest s).1 = s.line + nl (c :: rest) := by
  unfold scanOne
  split
  · rename_i hc
    have : c ≠ '\n' := by rcases hc with rfl | rfl | rfl <;> decide
    exact ⟨inv_setStart h, by simp [nl_cons, this]⟩
  · split
    · rename_i hc; subst hc
      refine ⟨inv_move h _ _ (Or.inl (by simp)), ?_⟩
      simp [nl_cons]; omega
    · rename_i hc
      have hnl : nl (c :: rest) = nl rest := by simp [nl_cons, hc]
      rw [hnl]
      split
      · rename_i opts hopts
        have := matchOp_spec opts (opTable_nl c opts hopts) rest s h
        exact ⟨this.1, by rw [this.2.1, this.2.2]⟩
      · split
        · split
          · exact ⟨inv_pushToken (inv_advN h _) _, by simp [nl_cons]⟩
          · rename_i r
            have := spanP_nl (fun c => c != '\n') (by decide) r
            exact ⟨inv_advN h _, by simp [nl_cons, this]⟩
          · rename_i r
            have := blockLoop_spec r 1 s.line (s.col + 1)
            refine ⟨inv_move h _ _ (Pos.le_trans (Pos.le_col _ _ 1) this.1), ?_⟩
            simp [nl_cons]; exact this.2
          · exact ⟨inv_pushToken h _, rfl⟩
        · split
          · split
            · exact ⟨inv_pushToken (inv_advN h _) _, by simp [nl_cons]⟩
            · exact ⟨inv_pushToken (inv_advN h _) _, by simp [nl_cons]⟩
            · split
              · refine ⟨(scanSigned_spec _ s h).1, ?_⟩
                rw [(scanSigned_spec _ s h).2.1, (scanSigned_spec _ s h).2.2]
              · exact ⟨inv_pushToken h _, rfl⟩
            · exact ⟨inv_pushToken h _, rfl⟩
          · split
            · have := scanUnsigned_spec c rest s h
              exact ⟨this.1, by rw [this.2.1, this.2.2]⟩
            · split
              · exact ⟨inv_pushToken (inv_advN h _) _, by
                  simp [spanP_nl isAlnum isAlnum_nl rest]⟩
              · exact ⟨inv_pushError h _, rfl⟩

theorem scanLoop_spec (cs : List Char) (s : St) (h : Inv s) :
    Inv (scanLoop cs s) ∧ (scanLoop cs s).line = s.line + nl cs := by
  fun_induction scanLoop cs s with
  | case1 s => exact ⟨h, by simp⟩
  | case2 s c rest r ih =>
    have h1 := scanOne_spec c rest s h
    have hinv : Inv { r.2 with col := r.2.col + 1 } := by
      have := inv_advN h1.1 1
      simpa [advN] using this
    have := ih hinv
    refine ⟨this.1, ?_⟩
    rw [this.2]
    exact h1.2

/-! ### the renderer -/

theorem splitNL_length (cs : List Char) : (splitNL cs).length = nl cs + 1 := by
  induction cs with
  | nil => simp [splitNL]
  | cons c cs ih =>
    simp only [splitNL]
    split
    · rename_i hc; subst hc
      simp [nl_cons, ih]; omega
    · rename_i hc
      split
      · rename_i p ps heq
        rw [heq] at ih
        simp only [List.length_cons] at ih ⊢
        simp [nl_cons, hc]; omega
      · rename_i heq
        rw [heq] at ih
        simp at ih

theorem rustLines_length (cs : List Char) : nl cs ≤ (rustLines cs).length := by
  unfold rustLines
  have := splitNL_length cs
  simp only [List.length_append, List.length_map, List.length_dropLast]
  omega

theorem renderLine_some (lines : List (List Char)) (m : Meta) (l : Int)
    (h : m.stop.line ≤ lines.length) : (renderLine lines m l).isSome := by
  unfold renderLine
  dsimp only
  split
  · rename_i hhl
    simp only [decide_eq_true_eq] at hhl
    split
    · rename_i heq
      exfalso
      split at heq
      · simp at heq
      · split at heq
        · simp at heq
        · rename_i hne hout
          apply hout
          omega
    · rfl
  · rfl

theorem renderLines_some (lines : List (List Char)) (m : Meta) (ls : List Int)
    (h : m.stop.line ≤ lines.length) : (renderLines lines m ls).isSome := by
  induction ls with
  | nil => rfl
  | cons l ls ih =>
    simp only [renderLines]
    have h1 := renderLine_some lines m l h
    cases ha : renderLine lines m l with
    | none => simp [ha] at h1
    | some a =>
      cases hb : renderLines lines m ls with
      | none => simp [hb] at ih
      | some b => rfl

end Scan
end GV
