import GarbleVerif.Proofs.BitOps
import GarbleVerif.Proofs.ArithSMul
import GarbleVerif.Proofs.ArithShift
import GarbleVerif.Proofs.ArithConstMul
/-! `*`, `/`, `%`, `<<`, `>>` of the compiler model on encodings of values (all widths): the exact result, and
the panic conditions exactly when the source operation fails. -/
namespace GV
namespace Bit
open Arith

theorem ite_length (c : Bool) (l1 l2 : List Bool) (n : Nat) (h1 : l1.length = n) (h2 : l2.length = n) :
    (if c = true then l1 else l2).length = n := by
  cases c <;> simp [h1, h2]

/-! ### `*` -/

theorem binop_mul (k : IntTy) (a b : Int) (ha : k.inRange a = true) (hb : k.inRange b = true) :
    (k.inRange (a * b) = true →
      binop .mul k.signed k.signed k.signed (enc k a) (enc k b) = (enc k (a * b), [(false, .overflow)])) ∧
    (k.inRange (a * b) = false →
      ∃ bits, binop .mul k.signed k.signed k.signed (enc k a) (enc k b) = (bits, [(true, .overflow)])) := by
  have hops := binop_operands k a b k.signed k.signed
  have hlen : (enc k a).length = (enc k b).length := by simp [enc_length]
  have hra := (inRange_iff k a).mp ha
  have hrb := (inRange_iff k b).mp hb
  have hp := pow_bits k
  have hpos : (0 : Int) < (2 : Int) ^ (k.bits - 1) := Int.pow_pos (by decide)
  unfold binop
  simp only [hops.1, hops.2]
  cases hs : k.signed
  · -- unsigned
    have hx := toNat_enc_unsigned k a hs ha
    have hy := toNat_enc_unsigned k b hs hb
    obtain ⟨hl, hv, hov⟩ := mul_unsigned (enc k a) (enc k b) hlen (by rw [enc_length]; exact bits_pos k)
    rw [enc_length] at hl hov
    simp only [IntTy.lo, IntTy.hi, hs, Bool.false_eq_true, if_false] at hra hrb
    have hP : ((2 ^ k.bits : Nat) : Int) = (2 : Int) ^ k.bits := by push_cast; rfl
    have hprod : ((toNat (enc k a) * toNat (enc k b) : Nat) : Int) = a * b := by push_cast; rw [hx, hy]
    constructor
    · intro hr
      have hr' := (inRange_iff k (a * b)).mp hr
      simp only [IntTy.lo, IntTy.hi, hs, Bool.false_eq_true, if_false] at hr'
      have hno : (mul (enc k a) (enc k b) false).2 = false := by
        cases hc : (mul (enc k a) (enc k b) false).2
        · rfl
        · have := hov.mp hc
          have : ((2 ^ k.bits : Nat) : Int) ≤ ((toNat (enc k a) * toNat (enc k b) : Nat) : Int) := by exact_mod_cast this
          rw [hP, hprod] at this
          omega
      have hval : (toNat (mul (enc k a) (enc k b) false).1 : Int) = a * b := by rw [hv hno]; exact hprod
      rw [hno, eq_enc_of_toNat k _ (a * b) hl hval]
    · intro hr
      have hnr : ¬ (k.lo ≤ a * b ∧ a * b ≤ k.hi) := by
        intro h'; rw [(inRange_iff k (a * b)).mpr h'] at hr; simp at hr
      simp only [IntTy.lo, IntTy.hi, hs, Bool.false_eq_true, if_false] at hnr
      have hnn : 0 ≤ a * b := Int.mul_nonneg hra.1 hrb.1
      have : (mul (enc k a) (enc k b) false).2 = true := by
        apply hov.mpr
        have : (2 : Int) ^ k.bits ≤ a * b := by omega
        rw [← hP, ← hprod] at this
        exact_mod_cast this
      exact ⟨_, by rw [this]⟩
  · -- signed
    obtain ⟨xa, xr, hxa, hxl⟩ := exists_cons_of_length (x := enc k a) (n := k.bits - 1)
      (by rw [enc_length]; have := bits_pos k; omega)
    obtain ⟨ya, yr, hya, hyl⟩ := exists_cons_of_length (x := enc k b) (n := k.bits - 1)
      (by rw [enc_length]; have := bits_pos k; omega)
    have hx := toInt_enc_signed k a hs ha
    have hy := toInt_enc_signed k b hs hb
    rw [hxa] at hx
    rw [hya] at hy
    have hsg := mul_signed xa ya xr yr (by rw [hxl, hyl])
    simp only at hsg
    rw [hx, hy, hxl] at hsg
    simp only [IntTy.lo, IntTy.hi, hs, if_true] at hra hrb
    rw [hxa, hya]
    have hlenr : (mul (xa :: xr) (ya :: yr) true).1.length = k.bits := by
      rw [mul_signed_length xa ya xr yr (by rw [hxl, hyl]), hxl]
      have := bits_pos k
      omega
    constructor
    · intro hr
      have hr' := (inRange_iff k (a * b)).mp hr
      simp only [IntTy.lo, IntTy.hi, hs, if_true] at hr'
      have hno : (mul (xa :: xr) (ya :: yr) true).2 = false := by
        cases hc : (mul (xa :: xr) (ya :: yr) true).2
        · rfl
        · have := hsg.2.mp hc; omega
      have hv := hsg.1 hno
      rw [hno, eq_enc_of_toInt k _ (a * b) hlenr hv]
    · intro hr
      have hnr : ¬ (k.lo ≤ a * b ∧ a * b ≤ k.hi) := by
        intro h'; rw [(inRange_iff k (a * b)).mpr h'] at hr; simp at hr
      simp only [IntTy.lo, IntTy.hi, hs, if_true] at hnr
      have : (mul (xa :: xr) (ya :: yr) true).2 = true := by
        apply hsg.2.mpr; omega
      exact ⟨_, by rw [this]⟩

/-! ### `/` and `%` -/

theorem allZero_eq (y : List Bool) : allZero y = decide (toNat y = 0) := by
  unfold allZero
  have : (fun (acc b : Bool) => acc && ((b ^^ false) ^^ true)) = (fun acc w => acc && !w) := by
    funext acc b; cases acc <;> cases b <;> rfl
  rw [this, foldl_allZero]; simp

theorem foldl_and (l : List Bool) : ∀ acc : Bool,
    l.foldl (fun acc w => acc && w) acc = (acc && decide (toNat l + 1 = 2 ^ l.length)) := by
  induction l with
  | nil => intro acc; simp [toNat_nil]
  | cons a l ih =>
    intro acc
    rw [List.foldl_cons, ih, toNat_cons]
    have hp := Nat.two_pow_pos l.length
    have hl := toNat_lt l
    simp only [List.length_cons, Nat.pow_succ]
    cases a <;> cases acc <;> simp <;> omega

theorem allOnes_eq (y : List Bool) : allOnes y = decide (toNat y + 1 = 2 ^ y.length) := by
  unfold allOnes; rw [foldl_and]; simp

theorem isMin_eq (a : Bool) (x : List Bool) : isMin (a :: x) = (a && decide (toNat x = 0)) := by
  unfold isMin; simp only [List.tail_cons, List.headD_cons]; rw [foldl_allZero]

theorem toInt_range (a : Bool) (x : List Bool) :
    -(2 : Int) ^ x.length ≤ toInt (a :: x) ∧ toInt (a :: x) < (2 : Int) ^ x.length := by
  rw [toInt_cons]
  have h := toNat_lt x
  have hP : ((2 ^ x.length : Nat) : Int) = (2 : Int) ^ x.length := by push_cast; rfl
  rw [← hP]
  cases a <;> simp <;> omega

theorem sdiv_length (a b : Bool) (x y : List Bool) (h : x.length = y.length) (hy : toInt (b :: y) ≠ 0) :
    (sdiv (a :: x) (b :: y)).1.length = x.length + 1 ∧ (sdiv (a :: x) (b :: y)).2.length = x.length + 1 := by
  rw [sdiv_unfold]
  simp only [List.headD_cons]
  have hnz : 0 < toNat (if b = true then neg (b :: y) else b :: y) := by
    have := (abs_cases b y).2.1
    apply Nat.pos_of_ne_zero
    intro h0
    rw [h0] at this
    apply hy
    rw [this]; cases b <;> simp
  cases a <;> cases b <;>
    simp only [Bool.false_eq_true, if_false, if_true, Bool.xor_false, Bool.xor_true, Bool.not_false, Bool.not_true,
      Bool.xor_self, neg_length] at hnz ⊢
  · have := udiv_spec (false :: x) (false :: y) (by simp [h]) hnz
    simp [this.2.2.1, this.2.2.2, h]
  · have := udiv_spec (false :: x) (neg (true :: y)) (by simp [neg_length, h]) hnz
    simp [this.2.2.1, this.2.2.2, h, neg_length]
  · have := udiv_spec (neg (true :: x)) (false :: y) (by simp [neg_length, h]) hnz
    simp [this.2.2.1, this.2.2.2, h, neg_length]
  · have := udiv_spec (neg (true :: x)) (neg (true :: y)) (by simp [neg_length, h]) hnz
    simp [this.2.2.1, this.2.2.2, h, neg_length]

theorem toNat_enc_zero_iff (k : IntTy) (b : Int) (hb : k.inRange b = true) : toNat (enc k b) = 0 ↔ b = 0 := by
  have hv := valOf_enc k b hb
  unfold valOf at hv
  have hr := (inRange_iff k b).mp hb
  cases hs : k.signed
  · simp only [hs, Bool.false_eq_true, if_false] at hv
    omega
  · simp only [hs, if_true] at hv
    obtain ⟨ya, yr, hya, hyl⟩ := exists_cons_of_length (x := enc k b) (n := k.bits - 1)
      (by rw [enc_length]; have := bits_pos k; omega)
    rw [hya] at hv ⊢
    rw [toInt_cons] at hv
    rw [toNat_cons]
    have hl := toNat_lt yr
    have hP : ((2 ^ yr.length : Nat) : Int) = (2 : Int) ^ yr.length := by push_cast; rfl
    rw [← hP] at hv
    have hp := Nat.two_pow_pos yr.length
    cases ya <;> simp at hv ⊢ <;> omega

/-- `/`: the first panic is `DivByZero` for a zero divisor, `Overflow` for `MIN / -1`, none otherwise, and then
the bits are the encoding of the quotient rounded towards zero -/
theorem binop_div (k : IntTy) (a b : Int) (ha : k.inRange a = true) (hb : k.inRange b = true) :
    let r := binop .div k.signed k.signed k.signed (enc k a) (enc k b)
    (b = 0 → firstOf r.2 = some .divByZero) ∧
    (b ≠ 0 → k.inRange (Int.tdiv a b) = true → r.1 = enc k (Int.tdiv a b) ∧ firstOf r.2 = none) ∧
    (b ≠ 0 → k.inRange (Int.tdiv a b) = false → firstOf r.2 = some .overflow) := by
  have hops := binop_operands k a b k.signed k.signed
  have hlen : (enc k a).length = (enc k b).length := by simp [enc_length]
  have hra := (inRange_iff k a).mp ha
  have hrb := (inRange_iff k b).mp hb
  have hz := toNat_enc_zero_iff k b hb
  unfold binop
  simp only [hops.1, hops.2]
  cases hs : k.signed
  · -- unsigned
    simp only [Bool.false_eq_true, if_false, firstOf, kindOf, allZero_eq]
    have hx := toNat_enc_unsigned k a hs ha
    have hy := toNat_enc_unsigned k b hs hb
    simp only [IntTy.lo, IntTy.hi, hs, Bool.false_eq_true, if_false] at hra hrb
    refine ⟨fun h0 => by simp [hz.mpr h0], fun hne hr => ?_, fun hne hr => ?_⟩
    · have hnz : toNat (enc k b) ≠ 0 := fun h => hne (hz.mp h)
      obtain ⟨hq, _⟩ := udiv_div_mod (enc k a) (enc k b) hlen (by omega)
      obtain ⟨_, _, hql, _⟩ := udiv_spec (enc k a) (enc k b) hlen (by omega)
      rw [enc_length] at hql
      refine ⟨?_, by simp [hnz]⟩
      apply eq_enc_of_toNat k _ _ hql
      rw [hq, Int.natCast_ediv, hx, hy]
      exact (Int.tdiv_eq_ediv_of_nonneg hra.1).symm
    · exfalso
      have hq : 0 ≤ Int.tdiv a b ∧ Int.tdiv a b ≤ a := by
        rw [Int.tdiv_eq_ediv_of_nonneg hra.1]
        exact ⟨Int.ediv_nonneg hra.1 hrb.1, Int.ediv_le_self b hra.1⟩
      have : k.inRange (Int.tdiv a b) = true := by
        rw [inRange_iff]; simp only [IntTy.lo, IntTy.hi, hs, Bool.false_eq_true, if_false]; omega
      rw [this] at hr; simp at hr
  · -- signed
    simp only [if_true, firstOf, kindOf, allZero_eq]
    obtain ⟨xa, xr, hxa, hxl⟩ := exists_cons_of_length (x := enc k a) (n := k.bits - 1)
      (by rw [enc_length]; have := bits_pos k; omega)
    obtain ⟨ya, yr, hya, hyl⟩ := exists_cons_of_length (x := enc k b) (n := k.bits - 1)
      (by rw [enc_length]; have := bits_pos k; omega)
    have hx := toInt_enc_signed k a hs ha
    have hy := toInt_enc_signed k b hs hb
    rw [hxa] at hx
    rw [hya] at hy hz
    simp only [IntTy.lo, IntTy.hi, hs, if_true] at hra hrb
    rw [hxa, hya]
    have hb1 := bits_pos k
    refine ⟨fun h0 => by simp [hz.mpr h0], fun hne hr => ?_, fun hne hr => ?_⟩
    · have hnz : toNat (ya :: yr) ≠ 0 := fun h => hne (hz.mp h)
      have hr' := (inRange_iff k (Int.tdiv a b)).mp hr
      simp only [IntTy.lo, IntTy.hi, hs, if_true] at hr'
      have hnm : ¬ (toInt (xa :: xr) = -(2 : Int) ^ xr.length ∧ toInt (ya :: yr) = -1) := by
        rw [hx, hy, hxl]
        rintro ⟨h1, h2⟩
        rw [h1, h2] at hr'
        simp [Int.tdiv_neg, Int.neg_tdiv] at hr'
        omega
      have hsd := (sdiv_spec' xa ya xr yr (by rw [hxl, hyl]) (by rw [hy]; exact hne)).1 hnm
      have hl := (sdiv_length xa ya xr yr (by rw [hxl, hyl]) (by rw [hy]; exact hne)).1
      rw [hx, hy] at hsd
      refine ⟨eq_enc_of_toInt k _ _ (by rw [hl, hxl]; omega) hsd, ?_⟩
      -- no panic: the divisor is not zero and the operands are not MIN and -1
      simp only [hnz, decide_false, Bool.false_eq_true, if_false]
      rw [isMin_eq, allOnes_eq]
      cases hmm : (xa && decide (toNat xr = 0) && decide (toNat (ya :: yr) + 1 = 2 ^ (ya :: yr).length))
      case false => simp
      case true =>
        exfalso
        simp only [Bool.and_eq_true, decide_eq_true_eq] at hmm
        obtain ⟨⟨hxa1, hx0⟩, hy1⟩ := hmm
        apply hnm
        subst hxa1
        have hyv : toInt (ya :: yr) = -1 := by
          have hP : ((2 ^ (ya :: yr).length : Nat) : Int) = (2 : Int) ^ (ya :: yr).length := by push_cast; rfl
          have hge : 2 ^ yr.length ≤ toNat (ya :: yr) := by
            simp only [List.length_cons, Nat.pow_succ] at hy1
            have := Nat.two_pow_pos yr.length; omega
          have := (head_iff ya yr).mpr hge
          subst this
          rw [toInt_cons, toNat_cons] at *
          simp only [List.length_cons, Nat.pow_succ] at hy1
          have hP2 : ((2 ^ yr.length : Nat) : Int) = (2 : Int) ^ yr.length := by push_cast; rfl
          simp at hy1 ⊢
          rw [← hP2]; omega
        refine ⟨?_, hyv⟩
        rw [toInt_cons, hx0]; simp
    · -- out of range: only MIN / -1
      have hnz : toNat (ya :: yr) ≠ 0 := fun h => hne (hz.mp h)
      simp only [hnz, decide_false, Bool.false_eq_true, if_false]
      have hmin : toInt (xa :: xr) = -(2 : Int) ^ xr.length ∧ toInt (ya :: yr) = -1 := by
        apply Classical.byContradiction
        intro hnm
        have hsd := (sdiv_spec' xa ya xr yr (by rw [hxl, hyl]) (by rw [hy]; exact hne)).1 hnm
        obtain ⟨qa, qr, hqe, hql⟩ := exists_cons_of_length (x := (sdiv (xa :: xr) (ya :: yr)).1) (n := xr.length)
          (sdiv_length xa ya xr yr (by rw [hxl, hyl]) (by rw [hy]; exact hne)).1
        have hrng := toInt_range qa qr
        rw [← hqe, hsd, hx, hy, hql, hxl] at hrng
        have : k.inRange (Int.tdiv a b) = true := by
          rw [inRange_iff]; simp only [IntTy.lo, IntTy.hi, hs, if_true]; omega
        rw [this] at hr; simp at hr
      obtain ⟨h1, h2⟩ := hmin
      rw [isMin_eq, allOnes_eq]
      have hxa1 : xa = true ∧ toNat xr = 0 := by
        rw [toInt_cons] at h1
        have hl := toNat_lt xr
        have hP : ((2 ^ xr.length : Nat) : Int) = (2 : Int) ^ xr.length := by push_cast; rfl
        rw [← hP] at h1
        cases xa <;> simp at h1 ⊢ <;> omega
      have hy1 : toNat (ya :: yr) + 1 = 2 ^ (ya :: yr).length := by
        rw [toInt_cons] at h2
        rw [toNat_cons]
        have hl := toNat_lt yr
        have hP : ((2 ^ yr.length : Nat) : Int) = (2 : Int) ^ yr.length := by push_cast; rfl
        rw [← hP] at h2
        simp only [List.length_cons, Nat.pow_succ]
        cases ya <;> simp at h2 ⊢ <;> omega
      simp [hxa1.1, hxa1.2, hy1]

/-- `%`: `DivByZero` for a zero divisor, otherwise the encoding of the remainder (sign of the dividend), which is
always in range -/
theorem binop_rem (k : IntTy) (a b : Int) (ha : k.inRange a = true) (hb : k.inRange b = true) :
    let r := binop .mod k.signed k.signed k.signed (enc k a) (enc k b)
    (b = 0 → firstOf r.2 = some .divByZero) ∧
    (b ≠ 0 → k.inRange (Int.tmod a b) = true ∧ r.1 = enc k (Int.tmod a b) ∧ firstOf r.2 = none) := by
  have hops := binop_operands k a b k.signed k.signed
  have hlen : (enc k a).length = (enc k b).length := by simp [enc_length]
  have hra := (inRange_iff k a).mp ha
  have hrb := (inRange_iff k b).mp hb
  have hz := toNat_enc_zero_iff k b hb
  unfold binop
  simp only [hops.1, hops.2]
  cases hs : k.signed
  · simp only [Bool.false_eq_true, if_false, firstOf, kindOf, allZero_eq]
    have hx := toNat_enc_unsigned k a hs ha
    have hy := toNat_enc_unsigned k b hs hb
    simp only [IntTy.lo, IntTy.hi, hs, Bool.false_eq_true, if_false] at hra hrb
    refine ⟨fun h0 => by simp [hz.mpr h0], fun hne => ?_⟩
    have hnz : toNat (enc k b) ≠ 0 := fun h => hne (hz.mp h)
    obtain ⟨_, hm⟩ := udiv_div_mod (enc k a) (enc k b) hlen (by omega)
    obtain ⟨_, _, _, hrl⟩ := udiv_spec (enc k a) (enc k b) hlen (by omega)
    rw [enc_length] at hrl
    have hmod : Int.tmod a b = a % b := Int.tmod_eq_emod_of_nonneg hra.1
    have hle : 0 ≤ a % b ∧ a % b ≤ a := by
      refine ⟨Int.emod_nonneg a hne, ?_⟩
      have hbpos : 0 < b := by omega
      by_cases hab : a < b
      · rw [Int.emod_eq_of_lt hra.1 hab]; omega
      · have := Int.emod_lt_of_pos a hbpos; omega
    refine ⟨?_, ?_, by simp [hnz]⟩
    · rw [inRange_iff]; simp only [IntTy.lo, IntTy.hi, hs, Bool.false_eq_true, if_false]; omega
    · apply eq_enc_of_toNat k _ _ hrl
      rw [hm, Int.natCast_emod, hx, hy, hmod]
  · simp only [if_true, firstOf, kindOf, allZero_eq]
    obtain ⟨xa, xr, hxa, hxl⟩ := exists_cons_of_length (x := enc k a) (n := k.bits - 1)
      (by rw [enc_length]; have := bits_pos k; omega)
    obtain ⟨ya, yr, hya, hyl⟩ := exists_cons_of_length (x := enc k b) (n := k.bits - 1)
      (by rw [enc_length]; have := bits_pos k; omega)
    have hx := toInt_enc_signed k a hs ha
    have hy := toInt_enc_signed k b hs hb
    rw [hxa] at hx
    rw [hya] at hy hz
    rw [hxa, hya]
    have hb1 := bits_pos k
    refine ⟨fun h0 => by simp [hz.mpr h0], fun hne => ?_⟩
    have hnz : toNat (ya :: yr) ≠ 0 := fun h => hne (hz.mp h)
    have hsd := (sdiv_spec' xa ya xr yr (by rw [hxl, hyl]) (by rw [hy]; exact hne)).2
    have hl := (sdiv_length xa ya xr yr (by rw [hxl, hyl]) (by rw [hy]; exact hne)).2
    rw [hx, hy] at hsd
    obtain ⟨qa, qr, hqe, hql⟩ := exists_cons_of_length (x := (sdiv (xa :: xr) (ya :: yr)).2) (n := xr.length) hl
    have hrng := toInt_range qa qr
    rw [← hqe, hsd, hql, hxl] at hrng
    refine ⟨?_, eq_enc_of_toInt k _ _ (by rw [hl, hxl]; omega) hsd, by simp [hnz]⟩
    rw [inRange_iff]; simp only [IntTy.lo, IntTy.hi, hs, if_true]; omega

/-! ### `<<` and `>>` (the amount is a `u8`) -/

theorem bits_mem (k : IntTy) : k.bits ∈ [8, 16, 32, 64] := by cases k <;> decide

theorem shift_len (left sx : Bool) (x y : List Bool) (hy : y.length = 8) : (shift left sx x y).1.length = x.length := by
  rw [shift_res left sx x y hy]; split <;> simp

theorem binop_shl_eq (sx sy sr : Bool) (x y : List Bool) :
    binop .shl sx sy sr x y = ((shift true sx x y).1, [((shift true sx x y).2, .overflow)]) := rfl

theorem binop_shr_eq (sx sy sr : Bool) (x y : List Bool) :
    binop .shr sx sy sr x y = ((shift false sx x y).1, [((shift false sx x y).2, .overflow)]) := rfl

/-- `<<`: overflow exactly when the amount is at least the width, otherwise the encoding of `a · 2^s` wrapped to
the type -/
theorem binop_shl (k : IntTy) (a s : Int) (ha : k.inRange a = true) (hs : IntTy.u8.inRange s = true) :
    let r := binop .shl k.signed false k.signed (enc k a) (enc .u8 s)
    ((s < 0 ∨ s ≥ k.bits) → firstOf r.2 = some .overflow) ∧
    (¬ (s < 0 ∨ s ≥ k.bits) → r.1 = enc k (Src.wrapTo k (a * (2 : Int) ^ s.toNat)) ∧ firstOf r.2 = none) := by
  have hsv := toNat_enc_unsigned .u8 s rfl hs
  have hsr := (inRange_iff .u8 s).mp hs
  simp only [IntTy.lo, IntTy.hi, IntTy.signed, Bool.false_eq_true, if_false] at hsr
  have hspec := shift_spec true k.signed (enc k a) (enc .u8 s) (by rw [enc_length]; exact bits_mem k)
    (by rw [enc_length]; rfl)
  rw [enc_length] at hspec
  simp only [binop_shl_eq, firstOf, kindOf]
  constructor
  · intro h
    have : k.bits ≤ toNat (enc .u8 s) := by omega
    rw [hspec.1.mpr this]; simp
  · intro h
    have hlt : toNat (enc .u8 s) < k.bits := by omega
    have hno : (shift true k.signed (enc k a) (enc .u8 s)).2 = false := by
      cases hc : (shift true k.signed (enc k a) (enc .u8 s)).2
      · rfl
      · have := hspec.1.mp hc; omega
    refine ⟨?_, by simp [hno]⟩
    have hv := (hspec.2 hlt).1 rfl
    have hst : toNat (enc .u8 s) = s.toNat := by omega
    rw [hst] at hv
    have hlen : (shift true k.signed (enc k a) (enc .u8 s)).1.length = k.bits := by
      rw [shift_len _ _ _ _ (by rw [enc_length]; rfl), enc_length]
    suffices hk : ((toNat (shift true k.signed (enc k a) (enc .u8 s)).1 : Nat) : Int) % (2 : Int) ^ k.bits =
        Src.wrapTo k (a * (2 : Int) ^ s.toNat) % (2 : Int) ^ k.bits from
      eq_intToBits_of_emod _ k.bits _ hlen hk
    rw [Src.wrapTo_emod, hv]
    have hx := toNat_enc k a
    have hP : ((2 ^ k.bits : Nat) : Int) = (2 : Int) ^ k.bits := by push_cast; rfl
    rw [Int.natCast_emod, hP, Int.emod_emod_of_dvd _ (Int.dvd_refl _), Int.natCast_mul, hx]
    rw [Int.mul_emod, Int.emod_emod_of_dvd _ (Int.dvd_refl _), ← Int.mul_emod]
    congr 2

/-- `>>`: overflow exactly when the amount is at least the width, otherwise the encoding of `a / 2^s` rounded down -/
theorem binop_shr (k : IntTy) (a s : Int) (ha : k.inRange a = true) (hs : IntTy.u8.inRange s = true) :
    let r := binop .shr k.signed false k.signed (enc k a) (enc .u8 s)
    ((s < 0 ∨ s ≥ k.bits) → firstOf r.2 = some .overflow) ∧
    (¬ (s < 0 ∨ s ≥ k.bits) → k.inRange (a / (2 : Int) ^ s.toNat) = true ∧
      r.1 = enc k (a / (2 : Int) ^ s.toNat) ∧ firstOf r.2 = none) := by
  have hsv := toNat_enc_unsigned .u8 s rfl hs
  have hsr := (inRange_iff .u8 s).mp hs
  simp only [IntTy.lo, IntTy.hi, IntTy.signed, Bool.false_eq_true, if_false] at hsr
  have hspec := shift_spec false k.signed (enc k a) (enc .u8 s) (by rw [enc_length]; exact bits_mem k)
    (by rw [enc_length]; rfl)
  rw [enc_length] at hspec
  simp only [binop_shr_eq, firstOf, kindOf]
  constructor
  · intro h
    have : k.bits ≤ toNat (enc .u8 s) := by omega
    rw [hspec.1.mpr this]; simp
  · intro h
    have hlt : toNat (enc .u8 s) < k.bits := by omega
    have hno : (shift false k.signed (enc k a) (enc .u8 s)).2 = false := by
      cases hc : (shift false k.signed (enc k a) (enc .u8 s)).2
      · rfl
      · have := hspec.1.mp hc; omega
    have hv := (hspec.2 hlt).2 rfl
    have hst : toNat (enc .u8 s) = s.toNat := by omega
    rw [hst, valOf_enc k a ha] at hv
    have hlen : (shift false k.signed (enc k a) (enc .u8 s)).1.length = k.bits := by
      rw [shift_len _ _ _ _ (by rw [enc_length]; rfl), enc_length]
    have hb1 := bits_pos k
    have hp := pow_bits k
    unfold valOf at hv
    cases hsg : k.signed
    · simp only [hsg, Bool.false_eq_true, if_false] at hv
      rw [hsg] at hno
      have hl := toNat_lt (shift false false (enc k a) (enc .u8 s)).1
      rw [hsg] at hlen
      rw [hlen] at hl
      have hP : ((2 ^ k.bits : Nat) : Int) = (2 : Int) ^ k.bits := by push_cast; rfl
      have hl' : ((toNat (shift false false (enc k a) (enc .u8 s)).1 : Nat) : Int) < (2 : Int) ^ k.bits := by
        rw [← hP]; exact_mod_cast hl
      refine ⟨?_, eq_enc_of_toNat k _ _ hlen hv, by simp [hno]⟩
      rw [inRange_iff]; simp only [IntTy.lo, IntTy.hi, hsg, Bool.false_eq_true, if_false]
      rw [← hv]; omega
    · simp only [hsg, if_true] at hv
      rw [hsg] at hlen hno
      obtain ⟨qa, qr, hqe, hql⟩ := exists_cons_of_length (x := (shift false true (enc k a) (enc .u8 s)).1)
        (n := k.bits - 1) (by rw [hlen]; omega)
      have hrng := toInt_range qa qr
      rw [← hqe, hv, hql] at hrng
      refine ⟨?_, eq_enc_of_toInt k _ _ hlen hv, by simp [hno]⟩
      rw [inRange_iff]; simp only [IntTy.lo, IntTy.hi, hsg, if_true]; omega

/-! ### multiplication by a small positive literal (repeated addition) -/

theorem constMul_enc (k : IntTy) (v : Int) (n : Nat) (hv : k.inRange v = true) (hn : 1 ≤ n) :
    let r := constMul (enc k v) k.signed n false
    (k.inRange ((n : Int) * v) = true → r = (enc k ((n : Int) * v), false)) ∧
    (k.inRange ((n : Int) * v) = false → r.2 = true) := by
  have hrv := (inRange_iff k v).mp hv
  have hp := pow_bits k
  have hpos : (0 : Int) < (2 : Int) ^ (k.bits - 1) := Int.pow_pos (by decide)
  cases hs : k.signed
  · -- unsigned
    obtain ⟨hl, hval, hov⟩ := constMul_unsigned (enc k v) n hn
    rw [enc_length] at hl hov
    have hx := toNat_enc_unsigned k v hs hv
    simp only [IntTy.lo, IntTy.hi, hs, Bool.false_eq_true, if_false] at hrv
    have hP : ((2 ^ k.bits : Nat) : Int) = (2 : Int) ^ k.bits := by push_cast; rfl
    have hprod : ((n * toNat (enc k v) : Nat) : Int) = (n : Int) * v := by push_cast; rw [hx]
    constructor
    · intro hr
      have hr' := (inRange_iff k _).mp hr
      simp only [IntTy.lo, IntTy.hi, hs, Bool.false_eq_true, if_false] at hr'
      have hno : (constMul (enc k v) false n false).2 = false := by
        cases hc : (constMul (enc k v) false n false).2
        · rfl
        · have := hov.mp hc
          have : ((2 ^ k.bits : Nat) : Int) ≤ ((n * toNat (enc k v) : Nat) : Int) := by exact_mod_cast this
          rw [hP, hprod] at this
          omega
      have hv2 : (toNat (constMul (enc k v) false n false).1 : Int) = (n : Int) * v := by rw [hval hno]; exact hprod
      apply Prod.ext
      · exact eq_enc_of_toNat k _ _ hl hv2
      · exact hno
    · intro hr
      have hnr : ¬ (k.lo ≤ (n : Int) * v ∧ (n : Int) * v ≤ k.hi) := by
        intro h'; rw [(inRange_iff k _).mpr h'] at hr; simp at hr
      simp only [IntTy.lo, IntTy.hi, hs, Bool.false_eq_true, if_false] at hnr
      have hnn : 0 ≤ (n : Int) * v := Int.mul_nonneg (by omega) hrv.1
      apply hov.mpr
      have : (2 : Int) ^ k.bits ≤ (n : Int) * v := by omega
      rw [← hP, ← hprod] at this
      exact_mod_cast this
  · -- signed
    obtain ⟨ya, yr, hya, hyl⟩ := exists_cons_of_length (x := enc k v) (n := k.bits - 1)
      (by rw [enc_length]; have := bits_pos k; omega)
    have hy := toInt_enc_signed k v hs hv
    rw [hya] at hy ⊢
    obtain ⟨hl, hval, hov⟩ := constMul_signed_pos ya yr n hn
    rw [hy] at hval hov
    rw [hyl] at hov hl
    have hb1 := bits_pos k
    constructor
    · intro hr
      have hr' := (inRange_iff k _).mp hr
      simp only [IntTy.lo, IntTy.hi, hs, if_true] at hr'
      have hno : (constMul (ya :: yr) true n false).2 = false := by
        cases hc : (constMul (ya :: yr) true n false).2
        · rfl
        · have := hov.mp hc; omega
      apply Prod.ext
      · exact eq_enc_of_toInt k _ _ (by rw [hl]; omega) (hval hno)
      · exact hno
    · intro hr
      have hnr : ¬ (k.lo ≤ (n : Int) * v ∧ (n : Int) * v ≤ k.hi) := by
        intro h'; rw [(inRange_iff k _).mpr h'] at hr; simp at hr
      simp only [IntTy.lo, IntTy.hi, hs, if_true] at hnr
      apply hov.mpr; omega

end Bit
end GV
