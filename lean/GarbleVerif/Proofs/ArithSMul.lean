import GarbleVerif.Proofs.ArithDiv
/-!
# Signed multiplication: magnitudes multiplied, sign restored, overflow exactly when the product is not representable
-/
namespace GV
namespace Arith

theorem foldl_allZero (l : List Bool) : ∀ acc : Bool,
    l.foldl (fun acc w => acc && !w) acc = (acc && decide (toNat l = 0)) := by
  induction l with
  | nil => intro acc; simp [toNat_nil]
  | cons a l ih =>
    intro acc
    rw [List.foldl_cons, ih, toNat_cons]
    have hp := Nat.two_pow_pos l.length
    cases a <;> cases acc <;> simp <;> omega

theorem mul_signed_unfold (x y : List Bool) :
    mul x y true =
      let xa := if x.headD false then neg x else x
      let ya := if y.headD false then neg y else y
      let isNeg := x.headD false ^^ y.headD false
      let R := (mul xa ya false).1
      let ovfU := (mul xa ya false).2
      let tooLarge := R.headD false && !(R.tail.foldl (fun acc w => acc && !w) true && isNeg)
      (if isNeg then neg R else R, bOr ovfU tooLarge) := by
  simp only [mul, if_true, Bool.false_eq_true, if_false]
  rw [zip_mux _ _ _ (neg_length x), zip_mux _ _ _ (neg_length y)]
  rw [zip_mux _ _ _ (neg_length _)]

/-- the part after the magnitudes have been formed -/
theorem mul_signed_core (xa ya : List Bool) (n : Nat) (isNeg : Bool) (hlxa : xa.length = n + 1)
    (hlya : ya.length = n + 1) (hX : toNat xa ≤ 2 ^ n) (hY : toNat ya ≤ 2 ^ n) :
    let R := (mul xa ya false).1
    let ovfU := (mul xa ya false).2
    let tooLarge := R.headD false && !(R.tail.foldl (fun acc w => acc && !w) true && isNeg)
    let res := if isNeg then neg R else R
    let flag := bOr ovfU tooLarge
    (flag = false → toInt res = if isNeg then -((toNat xa * toNat ya : Nat) : Int) else ((toNat xa * toNat ya : Nat) : Int)) ∧
    (flag = true ↔ (if isNeg then 2 ^ n < toNat xa * toNat ya else 2 ^ n ≤ toNat xa * toNat ya)) := by
  obtain ⟨hRl, hRv, hRo⟩ := mul_unsigned xa ya (by rw [hlxa, hlya]) (by rw [hlxa]; omega)
  rw [hlxa] at hRl hRo
  generalize (mul xa ya false).1 = R at hRl hRv hRo
  generalize (mul xa ya false).2 = ovfU at hRv hRo
  obtain ⟨hd, tl, rfl, htl⟩ := exists_cons_of_length hRl
  have hRc := toNat_cons hd tl
  rw [htl] at hRc
  have htlt := toNat_lt tl
  rw [htl] at htlt
  simp only [List.headD_cons, List.tail_cons, foldl_allZero, Bool.true_and]
  have hpP : (2 : Nat) ^ (n + 1) = 2 * 2 ^ n := by rw [Nat.pow_succ]; omega
  have hbound : toNat xa * toNat ya ≤ 2 ^ n * 2 ^ n := Nat.mul_le_mul hX hY
  generalize toNat xa * toNat ya = P at *
  rw [hpP] at hRo
  have hll : (hd :: tl).length = n + 1 := by simpa using htl
  simp only [bOr_eq]
  constructor
  · intro hf
    simp only [Bool.or_eq_false_iff] at hf
    obtain ⟨hf1, hf2⟩ := hf
    have hRP := hRv hf1
    cases isNeg
    · simp only [Bool.and_false, Bool.not_false, Bool.and_true] at hf2
      subst hf2
      simp only [Bool.false_eq_true, if_false]
      have : toNat (false :: tl) < 2 ^ n := by rw [hRc]; simp; omega
      rw [toInt_of_lt _ n hll this, hRP]
    · simp only [Bool.and_true, if_true] at hf2 ⊢
      have hle : toNat (hd :: tl) ≤ 2 ^ n := by
        cases hd
        · rw [hRc]; simp; omega
        · simp only [Bool.true_and, Bool.not_eq_eq_eq_not, Bool.not_false, decide_eq_true_eq] at hf2
          rw [hRc, hf2]; simp
      rw [toInt_neg_of_le _ n hll hle, hRP]
  · cases hov : ovfU
    · have hRP := hRv hov
      have hPlt : P < 2 * 2 ^ n := by
        have : ¬ (2 * 2 ^ n ≤ P) := fun hc => by rw [hRo.mpr hc] at hov; simp at hov
        omega
      rw [hRc] at hRP
      simp only [Bool.false_or]
      cases isNeg <;> cases hd <;> simp at hRP ⊢ <;> omega
    · have := hRo.mp hov
      have hp := Nat.two_pow_pos n
      simp only [Bool.true_or, true_iff]
      cases isNeg <;> simp <;> omega

/-- **signed multiplication, all widths** (`n + 1` bits): the result is the exact product unless the flag
is set, and the flag is set exactly when the exact product is outside `[-2^n, 2^n)` -/
theorem mul_signed (a b : Bool) (x y : List Bool) (h : x.length = y.length) :
    let r := mul (a :: x) (b :: y) true
    (r.2 = false → toInt r.1 = toInt (a :: x) * toInt (b :: y)) ∧
    (r.2 = true ↔ (toInt (a :: x) * toInt (b :: y) < -(2 : Int) ^ x.length ∨
      (2 : Int) ^ x.length ≤ toInt (a :: x) * toInt (b :: y))) := by
  intro r
  obtain ⟨hX, hxs, _⟩ := abs_cases a x
  obtain ⟨hY, hys, _⟩ := abs_cases b y
  rw [← h] at hY
  have hpI : ((2 : Int) ^ x.length) = ((2 ^ x.length : Nat) : Int) := by simp
  have hr : r = mul (a :: x) (b :: y) true := rfl
  rw [mul_signed_unfold] at hr
  simp only [List.headD_cons] at hr
  rw [hr, hpI]
  cases a <;> cases b <;>
    simp only [Bool.false_eq_true, if_false, if_true, Bool.xor_false, Bool.xor_true, Bool.not_false, Bool.not_true,
      Bool.xor_self] at hX hY hxs hys ⊢
  · have hc := mul_signed_core (false :: x) (false :: y) x.length false (by simp) (by simp [h]) hX hY
    simp only [Bool.false_eq_true, if_false] at hc
    rw [hxs, hys, ← Int.natCast_mul]
    refine ⟨hc.1, hc.2.trans ?_⟩
    have hp := Nat.two_pow_pos x.length
    omega
  · have hc := mul_signed_core (false :: x) (neg (true :: y)) x.length true (by simp) (by simp [neg_length, h]) hX hY
    simp only [if_true] at hc
    rw [hxs, hys, Int.mul_neg, ← Int.natCast_mul]
    refine ⟨hc.1, hc.2.trans ?_⟩
    have hp := Nat.two_pow_pos x.length
    omega
  · have hc := mul_signed_core (neg (true :: x)) (false :: y) x.length true (by simp [neg_length]) (by simp [h]) hX hY
    simp only [if_true] at hc
    rw [hxs, hys, Int.neg_mul, ← Int.natCast_mul]
    refine ⟨hc.1, hc.2.trans ?_⟩
    have hp := Nat.two_pow_pos x.length
    omega
  · have hc := mul_signed_core (neg (true :: x)) (neg (true :: y)) x.length false (by simp [neg_length])
      (by simp [neg_length, h]) hX hY
    simp only [Bool.false_eq_true, if_false] at hc
    rw [hxs, hys, Int.neg_mul, Int.mul_neg, Int.neg_neg, ← Int.natCast_mul]
    refine ⟨hc.1, hc.2.trans ?_⟩
    have hp := Nat.two_pow_pos x.length
    omega

theorem mul_unsigned_length (x y : List Bool) (h : x.length = y.length) (hn : 0 < x.length) :
    (mul x y false).1.length = x.length := (mul_unsigned x y h hn).1

theorem mul_signed_length (a b : Bool) (x y : List Bool) (h : x.length = y.length) :
    (mul (a :: x) (b :: y) true).1.length = x.length + 1 := by
  rw [mul_signed_unfold]
  simp only [List.headD_cons]
  cases a <;> cases b <;>
    simp only [Bool.false_eq_true, if_false, if_true, Bool.xor_false, Bool.xor_true, Bool.not_false, Bool.not_true,
      Bool.xor_self, neg_length]
  · rw [mul_unsigned_length _ _ (by simp [h]) (by simp)]; simp
  · rw [mul_unsigned_length _ _ (by simp [neg_length, h]) (by simp)]; simp
  · rw [mul_unsigned_length _ _ (by simp [neg_length, h]) (by simp [neg_length])]; simp [neg_length]
  · rw [mul_unsigned_length _ _ (by simp [neg_length, h]) (by simp [neg_length])]; simp [neg_length]

end Arith
end GV
