import GarbleVerif.Proofs.ArithDiv
/-!
# The barrel shifter: eight layers compose to a shift by the amount; value of the shifted list
-/
namespace GV
namespace Arith

/-- shift left by `k` positions (big-endian list: towards the head), zeros enter at the end -/
def shlL (k : Nat) (bits : List Bool) : List Bool :=
  (List.range bits.length).map fun i => if i + k ≥ bits.length then false else bits.getD (i + k) false

/-- shift right by `k` positions, `fill` enters at the head -/
def shrL (fill : Bool) (k : Nat) (bits : List Bool) : List Bool :=
  (List.range bits.length).map fun i => if i < k then fill else bits.getD (i - k) false

@[simp] theorem shlL_length (k : Nat) (bits : List Bool) : (shlL k bits).length = bits.length := by simp [shlL]
@[simp] theorem shrL_length (f : Bool) (k : Nat) (bits : List Bool) : (shrL f k bits).length = bits.length := by
  simp [shrL]

theorem range_map_getD (bits : List Bool) : (List.range bits.length).map (fun i => bits.getD i false) = bits := by
  apply List.ext_getElem
  · simp
  · intro i h1 h2
    simp at h1
    simp [List.getD_eq_getElem?_getD, List.getElem?_eq_getElem h1]

theorem shlL_zero (bits : List Bool) : shlL 0 bits = bits := by
  unfold shlL
  conv => rhs; rw [← range_map_getD bits]
  apply List.map_congr_left
  intro i hi
  simp at hi
  simp [show ¬ i ≥ bits.length by omega]

theorem shrL_zero (f : Bool) (bits : List Bool) : shrL f 0 bits = bits := by
  unfold shrL
  conv => rhs; rw [← range_map_getD bits]
  apply List.map_congr_left
  intro i hi
  simp

theorem shlL_getD (k : Nat) (bits : List Bool) (i : Nat) (hi : i < bits.length) :
    (shlL k bits).getD i false = if i + k ≥ bits.length then false else bits.getD (i + k) false := by
  simp [shlL, List.getD_eq_getElem?_getD, List.getElem?_map, List.getElem?_range hi]

theorem shrL_getD (f : Bool) (k : Nat) (bits : List Bool) (i : Nat) (hi : i < bits.length) :
    (shrL f k bits).getD i false = if i < k then f else bits.getD (i - k) false := by
  simp [shrL, List.getD_eq_getElem?_getD, List.getElem?_map, List.getElem?_range hi]

theorem shlL_shlL (a b : Nat) (bits : List Bool) : shlL a (shlL b bits) = shlL (b + a) bits := by
  unfold shlL
  simp only [List.length_map, List.length_range]
  apply List.map_congr_left
  intro i hi
  simp at hi
  by_cases h : i + a ≥ bits.length
  · simp [h, show i + (b + a) ≥ bits.length by omega]
  · have hia : i + a < bits.length := by omega
    have := shlL_getD b bits (i + a) hia
    unfold shlL at this
    simp only [h, if_false, this]
    have e : i + a + b = i + (b + a) := by omega
    rw [e]

theorem shrL_shrL (f : Bool) (a b : Nat) (bits : List Bool) : shrL f a (shrL f b bits) = shrL f (b + a) bits := by
  unfold shrL
  simp only [List.length_map, List.length_range]
  apply List.map_congr_left
  intro i hi
  simp at hi
  by_cases h : i < a
  · simp [h, show i < b + a by omega]
  · have hia : i - a < bits.length := by omega
    have := shrL_getD f b bits (i - a) hia
    unfold shrL at this
    simp only [h, if_false, this]
    by_cases h2 : i - a < b
    · simp [h2, show i < b + a by omega]
    · simp only [h2, if_false, show ¬ i < b + a by omega]
      have e : i - a - b = i - (b + a) := by omega
      rw [e]

/-- one layer of the shifter -/
theorem shiftLayer_eq (left fill : Bool) (bits : List Bool) (k : Nat) (s : Bool) :
    shiftLayer left fill bits k s =
      if left then shlL (s.toNat * k) bits else shrL fill (s.toNat * k) bits := by
  cases s
  · simp only [Bool.toNat_false, Nat.zero_mul, shlL_zero, shrL_zero, ite_self]
    unfold shiftLayer
    conv => rhs; rw [← range_map_getD bits]
    apply List.map_congr_left
    intro i _
    simp [mux_eq]
  · simp only [Bool.toNat_true, Nat.one_mul]
    unfold shiftLayer shlL shrL
    cases left <;> simp [mux_eq]

theorem toNat_8 (y0 y1 y2 y3 y4 y5 y6 y7 : Bool) :
    toNat [y0, y1, y2, y3, y4, y5, y6, y7] =
      y7.toNat * 1 + y6.toNat * 2 + y5.toNat * 4 + y4.toNat * 8 + y3.toNat * 16 + y2.toNat * 32 + y1.toNat * 64
        + y0.toNat * 128 := by
  simp only [toNat_cons, toNat_nil, List.length_cons, List.length_nil]
  omega

/-- the eight layers shift by the amount -/
theorem shift_res (left xSigned : Bool) (x y : List Bool) (hy : y.length = 8) :
    (shift left xSigned x y).1 =
      if left then shlL (toNat y) x
      else shrL (if xSigned && !left then x.headD false else false) (toNat y) x := by
  match y, hy with
  | [y0, y1, y2, y3, y4, y5, y6, y7], _ =>
    rw [toNat_8]
    have hr : (List.range 8).reverse = [7, 6, 5, 4, 3, 2, 1, 0] := by decide
    simp only [shift, hr, List.foldl_cons, List.foldl_nil, shiftLayer_eq]
    cases left
    · simp only [Bool.false_eq_true, if_false, shrL_shrL, Bool.not_false, Bool.and_true]
      congr 1
    · simp only [if_true, shlL_shlL]
      congr 1

theorem shlL_eq (k : Nat) (bits : List Bool) (hk : k ≤ bits.length) :
    shlL k bits = bits.drop k ++ List.replicate k false := by
  apply List.ext_getElem
  · simp; omega
  · intro i h1 h2
    simp only [shlL_length] at h1
    have hg := shlL_getD k bits i h1
    rw [List.getD_eq_getElem?_getD, List.getElem?_eq_getElem (by simpa using h1)] at hg
    simp only [Option.getD_some] at hg
    rw [hg]
    by_cases h : i + k ≥ bits.length
    · rw [if_pos h, List.getElem_append_right (by simp; omega)]
      simp
    · rw [if_neg h, List.getElem_append_left (by simp; omega)]
      have : k + i < bits.length := by omega
      simp [List.getD_eq_getElem?_getD, Nat.add_comm i k, List.getElem?_eq_getElem this]

theorem shrL_eq (f : Bool) (k : Nat) (bits : List Bool) (hk : k ≤ bits.length) :
    shrL f k bits = List.replicate k f ++ bits.take (bits.length - k) := by
  apply List.ext_getElem
  · simp; omega
  · intro i h1 h2
    simp only [shrL_length] at h1
    have hg := shrL_getD f k bits i h1
    rw [List.getD_eq_getElem?_getD, List.getElem?_eq_getElem (by simpa using h1)] at hg
    simp only [Option.getD_some] at hg
    rw [hg]
    by_cases h : i < k
    · rw [if_pos h, List.getElem_append_left (by simpa using h)]
      simp
    · rw [if_neg h, List.getElem_append_right (by simp; omega)]
      have : i - k < bits.length := by omega
      simp [List.getD_eq_getElem?_getD, List.getElem?_eq_getElem this]

/-- left shift: the value is multiplied by `2^k`, modulo `2^n` -/
theorem shlL_val (k : Nat) (bits : List Bool) (hk : k ≤ bits.length) :
    toNat (shlL k bits) = (toNat bits * 2 ^ k) % 2 ^ bits.length := by
  rw [shlL_eq k bits hk, toNat_append, toNat_replicate_false, List.length_replicate, Nat.add_zero]
  have hs := toNat_take_drop bits k hk
  have hd := toNat_lt (bits.drop k)
  simp only [List.length_drop] at hd
  have hp : 2 ^ bits.length = 2 ^ (bits.length - k) * 2 ^ k := by rw [← Nat.pow_add]; congr 1; omega
  rw [hs, Nat.add_mul, Nat.mul_assoc, ← hp, Nat.mul_comm (toNat (bits.take k)), Nat.mul_add_mod]
  rw [Nat.mod_eq_of_lt]
  rw [hp]
  exact Nat.mul_lt_mul_of_pos_right hd (Nat.two_pow_pos k)

/-- logical right shift: the value is divided by `2^k` -/
theorem shrL_val_unsigned (k : Nat) (bits : List Bool) (hk : k ≤ bits.length) :
    toNat (shrL false k bits) = toNat bits / 2 ^ k := by
  rw [shrL_eq false k bits hk, toNat_append, toNat_replicate_false, Nat.zero_mul, Nat.zero_add]
  have hs := toNat_take_drop bits (bits.length - k) (by omega)
  have hd := toNat_lt (bits.drop (bits.length - k))
  simp only [List.length_drop] at hd
  have e : bits.length - (bits.length - k) = k := by omega
  rw [e] at hs hd
  rw [hs, Nat.mul_comm, Nat.mul_add_div (Nat.two_pow_pos k), Nat.div_eq_of_lt hd]
  simp

/-- arithmetic right shift of a signed number: floor division by `2^k` -/
theorem shrL_val_signed (a : Bool) (rest : List Bool) (k : Nat) (hk : k ≤ rest.length) :
    toInt (shrL a k (a :: rest)) = toInt (a :: rest) / (2 : Int) ^ k := by
  have hk' : k ≤ (a :: rest).length := by simp; omega
  have hu := shrL_val_unsigned k (a :: rest) hk'
  rw [shrL_eq false k _ hk', toNat_append, toNat_replicate_false, Nat.zero_mul, Nat.zero_add] at hu
  rw [shrL_eq a k _ hk']
  have hlen : (List.replicate k a ++ (a :: rest).take ((a :: rest).length - k)).length = rest.length + 1 := by
    simp; omega
  have hhead : (List.replicate k a ++ (a :: rest).take ((a :: rest).length - k)).headD false = a := by
    cases k with
    | zero => simp
    | succ k => simp [List.replicate_succ]
  have htl : ((a :: rest).take ((a :: rest).length - k)).length = rest.length + 1 - k := by simp
  unfold toInt
  rw [hhead, hlen, toNat_append, htl, hu]
  simp only [List.headD_cons, List.length_cons]
  have hpow : (2 : Nat) ^ (rest.length + 1) = 2 ^ (rest.length + 1 - k) * 2 ^ k := by
    rw [← Nat.pow_add]; congr 1; omega
  have h2k : ((2 : Int) ^ k) = ((2 ^ k : Nat) : Int) := by simp
  have h2n : ((2 : Int) ^ (rest.length + 1)) = ((2 ^ (rest.length + 1) : Nat) : Int) := by simp
  cases a
  · simp only [Bool.false_eq_true, if_false, Int.sub_zero, toNat_replicate_false, Nat.zero_mul, Nat.zero_add]
    rw [h2k, Int.natCast_ediv]
  · simp only [if_true]
    have hrt := toNat_replicate_true k
    have hpk := Nat.two_pow_pos k
    have hrep : toNat (List.replicate k true) = 2 ^ k - 1 := by omega
    rw [hrep, h2n, h2k, hpow]
    have hne : ((2 ^ k : Nat) : Int) ≠ 0 := by
      have : (0 : Int) < ((2 ^ k : Nat) : Int) := by exact_mod_cast hpk
      omega
    have hsplit : ((toNat (true :: rest) : Nat) : Int) - ((2 ^ (rest.length + 1 - k) * 2 ^ k : Nat) : Int) =
        (toNat (true :: rest) : Int) + (-((2 ^ (rest.length + 1 - k) : Nat) : Int)) * ((2 ^ k : Nat) : Int) := by
      rw [Int.natCast_mul]; rw [Int.neg_mul]; omega
    rw [hsplit, Int.add_mul_ediv_right _ _ hne, ← Int.natCast_ediv]
    have hm : (2 ^ k - 1) * 2 ^ (rest.length + 1 - k) + 2 ^ (rest.length + 1 - k) = 2 ^ (rest.length + 1 - k) * 2 ^ k := by
      have : 2 ^ k - 1 + 1 = 2 ^ k := by omega
      calc (2 ^ k - 1) * 2 ^ (rest.length + 1 - k) + 2 ^ (rest.length + 1 - k)
          = (2 ^ k - 1 + 1) * 2 ^ (rest.length + 1 - k) := by rw [Nat.add_mul, Nat.one_mul]
        _ = 2 ^ (rest.length + 1 - k) * 2 ^ k := by rw [this, Nat.mul_comm]
    generalize toNat (true :: rest) / 2 ^ k = Q at *
    generalize (2 ^ k - 1) * 2 ^ (rest.length + 1 - k) = A at *
    generalize 2 ^ (rest.length + 1 - k) * 2 ^ k = B at *
    generalize 2 ^ (rest.length + 1 - k) = C at *
    push_cast
    omega

theorem shift_overflow (left sx : Bool) (x amt : List Bool) (hx : x.length ∈ [8, 16, 32, 64])
    (ha : amt.length = 8) : (shift left sx x amt).2 = true ↔ x.length ≤ toNat amt := by
  have key : ∀ s, s ≤ 8 → ((amt.take s).foldl bOr false = true ↔ 2 ^ (8 - s) ≤ toNat amt) := by
    intro s hs
    rw [foldl_bOr_toNat]
    have hsplit := toNat_take_drop amt s (by omega)
    have hd := toNat_lt (amt.drop s)
    simp only [List.length_drop] at hd
    rw [ha] at hsplit hd
    have hp := Nat.two_pow_pos (8 - s)
    constructor
    · intro h
      have : 2 ^ (8 - s) * 1 ≤ toNat (amt.take s) * 2 ^ (8 - s) := by
        rw [Nat.mul_comm]; exact Nat.mul_le_mul_right _ h
      omega
    · intro h
      apply Nat.pos_of_ne_zero
      intro h0
      rw [h0] at hsplit
      omega
  simp only [List.mem_cons, List.mem_singleton, List.not_mem_nil, or_false] at hx
  rcases hx with h | h | h | h <;> simp only [shift, h] <;> rw [key _ (by omega)] <;> simp

/-- **shifts**: overflow exactly when the amount is at least the width; otherwise `<<` multiplies by `2^amount`
modulo `2^n`, `>>` divides by `2^amount` rounding down (logical on unsigned, arithmetic on signed operands) -/
theorem shift_spec (left sx : Bool) (x amt : List Bool) (hx : x.length ∈ [8, 16, 32, 64]) (ha : amt.length = 8) :
    ((shift left sx x amt).2 = true ↔ x.length ≤ toNat amt) ∧
    (toNat amt < x.length →
      (left = true → toNat (shift left sx x amt).1 = (toNat x * 2 ^ toNat amt) % 2 ^ x.length) ∧
      (left = false → valOf sx (shift left sx x amt).1 = valOf sx x / (2 : Int) ^ toNat amt)) := by
  refine ⟨shift_overflow left sx x amt hx ha, ?_⟩
  intro hlt
  rw [shift_res left sx x amt ha]
  constructor
  · intro hl
    subst hl
    simp only [if_true]
    exact shlL_val _ _ (by omega)
  · intro hl
    subst hl
    simp only [Bool.false_eq_true, if_false, Bool.not_false, Bool.and_true]
    cases sx
    · simp only [Bool.false_eq_true, if_false, valOf]
      rw [shrL_val_unsigned _ _ (by omega)]
      have h2k : ((2 : Int) ^ toNat amt) = ((2 ^ toNat amt : Nat) : Int) := by simp
      rw [h2k, Int.natCast_ediv]
    · simp only [if_true, valOf]
      have hpos : 0 < x.length := by
        simp only [List.mem_cons, List.mem_singleton, List.not_mem_nil, or_false] at hx
        omega
      obtain ⟨a, rest, rfl, hr⟩ := exists_cons_of_length (n := x.length - 1) (x := x) (by omega)
      simp only [List.headD_cons]
      exact shrL_val_signed a rest _ (by simp at hlt; omega)

end Arith
end GV
