import GarbleVerif.Proofs.ArithBasic
/-! Big-endian statements: addition, negation, subtraction against integer arithmetic. -/
namespace GV
namespace Arith

/-- two's complement value of a big-endian bit list -/
def toInt (bs : List Bool) : Int :=
  (toNat bs : Int) - (if bs.headD false then (2 : Int) ^ bs.length else 0)

/-- value under a signedness flag -/
def valOf (signed : Bool) (bs : List Bool) : Int := if signed then toInt bs else (toNat bs : Int)

theorem toNat_cons (a : Bool) (rest : List Bool) :
    toNat (a :: rest) = a.toNat * 2 ^ rest.length + toNat rest := by
  simp only [toNat, List.reverse_cons, toNatLE_append, List.length_reverse, toNatLE]
  cases a <;> simp <;> omega

theorem toNat_lt (bs : List Bool) : toNat bs < 2 ^ bs.length := by
  have := toNatLE_lt bs.reverse
  simpa [toNat] using this

theorem toNat_nil : toNat [] = 0 := rfl

theorem addLE_snoc (l m : List Bool) (a b c : Bool) (h : l.length = m.length) :
    addLE (l ++ [a]) (m ++ [b]) c =
      ((addLE l m c).1 ++ [(fullAdder a b (addLE l m c).2).1], (fullAdder a b (addLE l m c).2).2) := by
  induction l generalizing m c with
  | nil =>
    cases m with
    | nil => simp [addLE]
    | cons _ _ => simp at h
  | cons x l ih =>
    cases m with
    | nil => simp at h
    | cons y m =>
      simp only [List.length_cons, Nat.add_right_cancel_iff] at h
      simp only [List.cons_append, addLE, ih m _ h]

/-- the three results of `add` on non-empty equally long operands, decomposed -/
theorem add_cons (a b : Bool) (x y : List Bool) (h : x.length = y.length) :
    add (a :: x) (b :: y) =
      let low := addLE x.reverse y.reverse false
      let top := fullAdder a b low.2
      (top.1 :: low.1.reverse, top.2, low.2) := by
  simp only [add, List.reverse_cons, List.isEmpty_cons, Bool.false_eq_true, if_false]
  rw [addLE_snoc _ _ _ _ _ (by simpa using h)]
  simp [List.dropLast_concat]

theorem add_length (x y : List Bool) (h : x.length = y.length) : (add x y).1.length = x.length := by
  simp only [add, List.length_reverse]
  rw [addLE_length _ _ _ (by simpa using h)]
  simp

/-- **addition, all widths**: `sum + 2^n · carry = x + y` -/
theorem add_spec (x y : List Bool) (h : x.length = y.length) :
    toNat (add x y).1 + 2 ^ x.length * (add x y).2.1.toNat = toNat x + toNat y := by
  cases x with
  | nil =>
    cases y with
    | nil => simp [add, addLE, toNat, toNatLE]
    | cons _ _ => simp at h
  | cons a x =>
    have := addLE_spec (a :: x).reverse y.reverse false (by simpa using h)
    simp only [add, List.isEmpty_cons, Bool.false_eq_true, if_false, toNat, List.reverse_reverse]
    simpa using this

/-- unsigned overflow flag ⇔ the exact sum is not representable -/
theorem add_overflow_unsigned (x y : List Bool) (h : x.length = y.length) :
    (add x y).2.1 = true ↔ 2 ^ x.length ≤ toNat x + toNat y := by
  have hs := add_spec x y h
  have hl := toNat_lt (add x y).1
  rw [add_length x y h] at hl
  cases hc : (add x y).2.1 <;> simp [hc] at hs ⊢ <;> omega

/-- two's complement value of `a :: rest` -/
theorem toInt_cons (a : Bool) (rest : List Bool) :
    toInt (a :: rest) = (toNat rest : Int) - a.toNat * (2 : Int) ^ rest.length := by
  simp only [toInt, toNat_cons, List.headD_cons, List.length_cons]
  cases a
  · simp
  · simp only [Bool.toNat_true, Nat.one_mul, if_true, Int.pow_succ]
    push_cast
    omega

/-- **signed addition, all widths**: the sum is exact unless `carry ≠ carry_prev`, and that
happens exactly when the exact sum is outside `[-2^(n-1), 2^(n-1))` -/
theorem add_signed (a b : Bool) (x y : List Bool) (h : x.length = y.length) :
    let r := add (a :: x) (b :: y)
    ((r.2.1 ^^ r.2.2) = false → toInt r.1 = toInt (a :: x) + toInt (b :: y)) ∧
    ((r.2.1 ^^ r.2.2) = true ↔
      (toInt (a :: x) + toInt (b :: y) < -(2 : Int) ^ x.length ∨
        (2 : Int) ^ x.length ≤ toInt (a :: x) + toInt (b :: y))) := by
  intro r
  have hr : r = _ := add_cons a b x y h
  simp only at hr
  have hlow := addLE_spec x.reverse y.reverse false (by simpa using h)
  have hll := addLE_length x.reverse y.reverse false (by simpa using h)
  generalize addLE x.reverse y.reverse false = low at *
  obtain ⟨ls, lc⟩ := low
  simp only at hr hlow hll
  have hfa := fullAdder_spec a b lc
  generalize fullAdder a b lc = top at *
  obtain ⟨ts, tc⟩ := top
  simp only at hr hfa
  rw [hr]
  simp only [toInt_cons, List.length_reverse, hll]
  have hx : toNatLE x.reverse = toNat x := rfl
  have hy : toNatLE y.reverse = toNat y := rfl
  have hls : toNat ls.reverse = toNatLE ls := by simp [toNat]
  rw [hx, hy] at hlow
  simp only [List.length_reverse, Bool.toNat_false, Nat.add_zero] at hlow
  rw [hls, ← h]
  have hlt := toNatLE_lt ls
  rw [hll, List.length_reverse] at hlt
  have hxl := toNat_lt x
  have hyl := toNat_lt y
  rw [← h] at hyl
  have hP : ((2 : Int) ^ x.length) = (((2 : Nat) ^ x.length : Nat) : Int) := by push_cast; rfl
  rw [hP]
  generalize (2 : Nat) ^ x.length = P at *
  cases a <;> cases b <;> cases lc <;> cases ts <;> cases tc <;> simp at hfa hlow ⊢ <;> omega

/-! ### sign bit, negation -/

theorem head_iff (a : Bool) (rest : List Bool) :
    a = true ↔ 2 ^ rest.length ≤ toNat (a :: rest) := by
  have := toNat_lt rest
  rw [toNat_cons]
  cases a <;> simp <;> omega

theorem neg_length (x : List Bool) : (neg x).length = x.length := by
  simp [neg, negLE_length]

/-- `neg x = 2^n - x`, except that `neg 0 = 0` -/
theorem neg_val (x : List Bool) :
    toNat (neg x) = if toNat x = 0 then 0 else 2 ^ x.length - toNat x := by
  have h := negLE_true x.reverse
  have hlt := toNatLE_lt x.reverse
  simp only [List.length_reverse] at h hlt
  have hx : toNatLE x.reverse = toNat x := rfl
  have hneg : toNat (neg x) = toNatLE (negLE x.reverse true) := by simp [toNat, neg]
  rw [hx] at h hlt
  by_cases h0 : toNat x = 0
  · rw [if_pos h0, hneg, h, h0]; simp
  · rw [if_neg h0, hneg, h]
    exact Nat.mod_eq_of_lt (by omega)

/-- decomposition of a non-empty list into its head and its numeric value -/
theorem exists_cons_of_length {x : List Bool} {n : Nat} (h : x.length = n + 1) :
    ∃ a rest, x = a :: rest ∧ rest.length = n := by
  cases x with
  | nil => simp at h
  | cons a rest => exact ⟨a, rest, rfl, by simpa using h⟩

/-- **unary minus with its overflow check, all widths** -/
theorem negChecked_spec (a : Bool) (rest : List Bool) :
    let r := negChecked (a :: rest)
    (r.2 = true ↔ toInt (a :: rest) = -(2 : Int) ^ rest.length) ∧
    (r.2 = false → toInt r.1 = - toInt (a :: rest)) := by
  intro r
  have hnl := neg_length (a :: rest)
  obtain ⟨b, nrest, hn, hnr⟩ := exists_cons_of_length (n := rest.length) (by rw [hnl]; simp)
  have hv := neg_val (a :: rest)
  have hr : r = (b :: nrest, a && b) := by
    simp only [r, negChecked, hn, List.headD_cons]
  rw [hr]
  rw [hn] at hv
  have ha := head_iff a rest
  have hb := head_iff b nrest
  have hlx := toNat_lt (a :: rest)
  have hlb := toNat_lt (b :: nrest)
  simp only [toInt_cons, hnr]
  simp only [toNat_cons, List.length_cons, hnr, Nat.pow_succ] at hv ha hb hlx hlb
  have hP : ((2 : Int) ^ rest.length) = (((2 : Nat) ^ rest.length : Nat) : Int) := by push_cast; rfl
  rw [hP]
  have hrl := toNat_lt rest
  have hnl' := toNat_lt nrest
  rw [hnr] at hnl'
  generalize (2 : Nat) ^ rest.length = P at *
  cases a <;> cases b <;> simp at hv ha hb ⊢ <;> (split at hv <;> omega)

/-! ### subtraction -/

theorem sub_unfold (x y : List Bool) (signed : Bool) :
    sub x y signed =
      let xe := (if signed then x.headD false else false) :: x
      let ye := (if signed then y.headD false else false) :: y
      let sumE := (add xe (neg ye)).1
      (sumE.tail, if signed then sumE.headD false ^^ sumE.tail.headD false else sumE.headD false) := rfl

/-- **unsigned subtraction, all widths**: the flag is set exactly when `x < y`; otherwise the
result is the exact difference -/
theorem sub_unsigned (x y : List Bool) (h : x.length = y.length) :
    ((sub x y false).2 = true ↔ toNat x < toNat y) ∧
    ((sub x y false).2 = false → toNat (sub x y false).1 = toNat x - toNat y) ∧
    (sub x y false).1.length = x.length := by
  rw [sub_unfold]
  simp only [Bool.false_eq_true, if_false]
  have hlen : (false :: x).length = (neg (false :: y)).length := by simp [neg_length, h]
  have hadd := add_spec (false :: x) (neg (false :: y)) hlen
  have hal := add_length (false :: x) (neg (false :: y)) hlen
  have hnv := neg_val (false :: y)
  obtain ⟨s, srest, hs, hsr⟩ := exists_cons_of_length (n := x.length) (by rw [hal]; simp)
  rw [hs] at hadd ⊢
  have hsl := toNat_lt srest
  have hxl := toNat_lt x
  have hyl := toNat_lt y
  simp only [toNat_cons, Bool.toNat_false, Nat.zero_mul, Nat.zero_add, List.length_cons, hsr,
    Nat.pow_succ] at hadd hnv hsl
  simp only [List.tail_cons, List.headD_cons]
  rw [← h] at hyl hnv
  generalize (2 : Nat) ^ x.length = P at *
  generalize (add (false :: x) (neg (false :: y))).2.1 = c at *
  refine ⟨?_, ?_, hsr⟩
  · cases s <;> cases c <;> simp at hadd ⊢ <;> (split at hnv <;> omega)
  · cases s <;> cases c <;> simp at hadd ⊢ <;> (split at hnv <;> omega)

/-- **signed subtraction, all widths** (operands of `n + 1` bits): the flag is set exactly when
the exact difference is outside `[-2^n, 2^n)`; otherwise the result is the exact difference -/
theorem sub_signed (a b : Bool) (x y : List Bool) (h : x.length = y.length) :
    let r := sub (a :: x) (b :: y) true
    (r.2 = true ↔ (toInt (a :: x) - toInt (b :: y) < -(2 : Int) ^ x.length ∨
      (2 : Int) ^ x.length ≤ toInt (a :: x) - toInt (b :: y))) ∧
    (r.2 = false → toInt r.1 = toInt (a :: x) - toInt (b :: y)) ∧
    r.1.length = x.length + 1 := by
  intro r
  have hr : r = _ := sub_unfold (a :: x) (b :: y) true
  simp only [if_true, List.headD_cons] at hr
  have hlen : (a :: a :: x).length = (neg (b :: b :: y)).length := by simp [neg_length, h]
  have hadd := add_spec (a :: a :: x) (neg (b :: b :: y)) hlen
  have hal := add_length (a :: a :: x) (neg (b :: b :: y)) hlen
  have hnv := neg_val (b :: b :: y)
  obtain ⟨s0, t, hs, ht⟩ := exists_cons_of_length (n := x.length + 1) (by rw [hal]; simp)
  obtain ⟨s1, srest, hs1, hsr⟩ := exists_cons_of_length (n := x.length) ht
  subst hs1
  rw [hs] at hadd hr
  simp only [List.tail_cons, List.headD_cons] at hr
  rw [hr]
  have hsl := toNat_lt srest
  have hxl := toNat_lt x
  have hyl := toNat_lt y
  simp only [toNat_cons, List.length_cons, hsr, Nat.pow_succ] at hadd hnv hsl
  simp only [toInt_cons, hsr]
  rw [← h] at hyl hnv ⊢
  have hP : ((2 : Int) ^ x.length) = (((2 : Nat) ^ x.length : Nat) : Int) := by push_cast; rfl
  rw [hP]
  generalize (2 : Nat) ^ x.length = P at *
  generalize (add (a :: a :: x) (neg (b :: b :: y))).2.1 = c at *
  refine ⟨?_, ?_, by simp [hsr]⟩
  · cases a <;> cases b <;> cases s0 <;> cases s1 <;> cases c <;> simp at hadd hnv ⊢ <;>
      (split at hnv <;> omega)
  · cases a <;> cases b <;> cases s0 <;> cases s1 <;> cases c <;> simp at hadd hnv ⊢ <;>
      (split at hnv <;> omega)

end Arith
end GV
