import GarbleVerif.Proofs.ArithBE
/-! Comparator, equality, casts against integer arithmetic — every width. -/
namespace GV
namespace Arith

theorem cmp_decided_gt (sx sy : Bool) (i : Nat) (xs ys : List Bool) :
    comparator.go sx sy i xs ys true false = (false, true) := by
  induction xs generalizing ys i with
  | nil => simp [comparator.go]
  | cons a xs ih =>
    cases ys with
    | nil => simp [comparator.go]
    | cons b ys =>
      simp only [comparator.go]
      have : ∀ (g l : Bool), (bOr g true && !false) = true ∧ (bOr l false && !true) = false := by
        intro g l; cases g <;> cases l <;> decide
      split
      · rw [(this ((a ^^ b) && b) ((a ^^ b) && a)).1, (this ((a ^^ b) && b) ((a ^^ b) && a)).2]
        exact ih _ _
      · rw [(this ((a ^^ b) && a) ((a ^^ b) && b)).1, (this ((a ^^ b) && a) ((a ^^ b) && b)).2]
        exact ih _ _

theorem cmp_decided_lt (sx sy : Bool) (i : Nat) (xs ys : List Bool) :
    comparator.go sx sy i xs ys false true = (true, false) := by
  induction xs generalizing ys i with
  | nil => simp [comparator.go]
  | cons a xs ih =>
    cases ys with
    | nil => simp [comparator.go]
    | cons b ys =>
      simp only [comparator.go]
      have : ∀ (g l : Bool), (bOr g false && !true) = false ∧ (bOr l true && !false) = true := by
        intro g l; cases g <;> cases l <;> decide
      split
      · rw [(this ((a ^^ b) && b) ((a ^^ b) && a)).1, (this ((a ^^ b) && b) ((a ^^ b) && a)).2]
        exact ih _ _
      · rw [(this ((a ^^ b) && a) ((a ^^ b) && b)).1, (this ((a ^^ b) && a) ((a ^^ b) && b)).2]
        exact ih _ _

/-- below the first position the scan is an unsigned lexicographic comparison -/
theorem cmp_unsigned (sx sy : Bool) (i : Nat) (hi : (i == 0 && (sx || sy)) = false)
    (xs ys : List Bool) (h : xs.length = ys.length) :
    comparator.go sx sy i xs ys false false =
      (decide (toNat xs < toNat ys), decide (toNat ys < toNat xs)) := by
  induction xs generalizing ys i with
  | nil =>
    cases ys with
    | nil => simp [comparator.go, toNat_nil]
    | cons _ _ => simp at h
  | cons a xs ih =>
    cases ys with
    | nil => simp at h
    | cons b ys =>
      simp only [List.length_cons, Nat.add_right_cancel_iff] at h
      have hi' : ((i + 1) == 0 && (sx || sy)) = false := by simp
      have hx := toNat_lt xs
      have hy := toNat_lt ys
      rw [← h] at hy
      simp only [comparator.go, hi, Bool.false_eq_true, if_false, toNat_cons, ← h]
      generalize (2 : Nat) ^ xs.length = P at *
      cases a <;> cases b
      · simp only [Bool.xor_self, Bool.false_and, bOr, Bool.and_self, Bool.not_false, Bool.and_true]
        rw [ih (i + 1) hi' ys h]
        simp
      · simp only [bOr, Bool.xor_false, Bool.false_xor, Bool.true_and, Bool.and_false, Bool.and_true,
          Bool.not_false, Bool.xor_true, Bool.not_true]
        rw [cmp_decided_lt]
        simp; omega
      · simp only [bOr, Bool.xor_false, Bool.true_xor, Bool.not_false, Bool.and_true, Bool.and_false,
          Bool.false_xor, Bool.true_and, Bool.xor_true, Bool.not_true]
        rw [cmp_decided_gt]
        simp; omega
      · simp only [Bool.xor_self, Bool.false_and, bOr, Bool.and_self, Bool.not_false, Bool.and_true]
        rw [ih (i + 1) hi' ys h]
        simp

/-- **unsigned comparison, all widths** -/
theorem comparator_unsigned (x y : List Bool) (h : x.length = y.length) :
    comparator x false y false = (decide (toNat x < toNat y), decide (toNat y < toNat x)) := by
  simp only [comparator]
  exact cmp_unsigned false false 0 (by simp) x y h

/-- **signed comparison, all widths** -/
theorem comparator_signed (a b : Bool) (x y : List Bool) (h : x.length = y.length) :
    comparator (a :: x) true (b :: y) true =
      (decide (toInt (a :: x) < toInt (b :: y)), decide (toInt (b :: y) < toInt (a :: x))) := by
  have hx := toNat_lt x
  have hy := toNat_lt y
  rw [← h] at hy
  simp only [comparator, comparator.go, toInt_cons, ← h]
  have hP : ((2 : Int) ^ x.length) = (((2 : Nat) ^ x.length : Nat) : Int) := by push_cast; rfl
  rw [hP]
  generalize (2 : Nat) ^ x.length = P at *
  cases a <;> cases b
  · simp only [Bool.xor_self, Bool.false_and, bOr, Bool.and_self, Bool.not_false, Bool.and_true,
      beq_self_eq_true, Bool.or_self, Bool.and_self, if_true]
    rw [cmp_unsigned true true 1 (by simp) x y h]
    simp
  · simp only [bOr, beq_self_eq_true, Bool.or_self, Bool.and_self, if_true, Bool.false_xor, Bool.true_and,
      Bool.and_false, Bool.xor_false, Bool.not_false, Bool.and_true, Bool.not_true]
    rw [cmp_decided_gt]
    simp; omega
  · simp only [bOr, beq_self_eq_true, Bool.or_self, Bool.and_self, if_true, Bool.true_xor, Bool.not_false,
      Bool.and_true, Bool.and_false, Bool.xor_false, Bool.false_xor, Bool.true_and, Bool.not_true]
    rw [cmp_decided_lt]
    simp; omega
  · simp only [Bool.xor_self, Bool.false_and, bOr, Bool.and_self, Bool.not_false, Bool.and_true,
      beq_self_eq_true, Bool.or_self, if_true]
    rw [cmp_unsigned true true 1 (by simp) x y h]
    simp

/-- **equality, all widths**: the equality circuit holds exactly for identical encodings -/
theorem eqBits_iff (x y : List Bool) (h : x.length = y.length) : eqBits x y = true ↔ x = y := by
  suffices ∀ (acc : Bool), (x.zip y).foldl (fun acc (p : Bool × Bool) => acc && ((p.1 ^^ p.2) ^^ true)) acc = true ↔
      (acc = true ∧ x = y) from by simpa [eqBits] using this true
  induction x generalizing y with
  | nil =>
    cases y with
    | nil => intro acc; simp
    | cons _ _ => simp at h
  | cons a x ih =>
    cases y with
    | nil => simp at h
    | cons b y =>
      simp only [List.length_cons, Nat.add_right_cancel_iff] at h
      intro acc
      simp only [List.zip_cons_cons, List.foldl_cons, ih y h, List.cons.injEq]
      cases a <;> cases b <;> cases acc <;> simp

/-! ### casts -/

theorem toNat_append (a b : List Bool) : toNat (a ++ b) = toNat a * 2 ^ b.length + toNat b := by
  simp only [toNat, List.reverse_append, toNatLE_append, List.length_reverse]
  rw [Nat.mul_comm]; omega

theorem toNat_replicate_false (m : Nat) : toNat (List.replicate m false) = 0 := by
  induction m with
  | zero => rfl
  | succ m ih => rw [List.replicate_succ, toNat_cons, ih]; simp

theorem toNat_replicate_true (m : Nat) : toNat (List.replicate m true) + 1 = 2 ^ m := by
  induction m with
  | zero => rfl
  | succ m ih =>
    rw [List.replicate_succ, toNat_cons, List.length_replicate, Nat.pow_succ]
    simp; omega

theorem cast_length (v : List Bool) (s : Bool) (k : Nat) (hv : v ≠ []) : (cast v s k).length = k := by
  have hne : v.isEmpty = false := by cases v <;> simp_all
  rcases Nat.lt_trichotomy k v.length with hlt | heq | hgt
  · have h1 : ¬ (k == v.length) = true := by simp; omega
    simp only [cast, h1, Bool.false_eq_true, if_false, hlt, if_true, List.length_drop]; omega
  · simp [cast, heq]
  · have h1 : ¬ (k == v.length) = true := by simp; omega
    have h2 : ¬ k < v.length := by omega
    have h3 : ¬ (v.length == k) = true := by simp; omega
    simp only [cast, h1, Bool.false_eq_true, if_false, h2, extendToBits, hne, h3, List.length_append,
      List.length_replicate]
    omega

/-- **every cast, all widths**: the result has the target width and is congruent to the source
value (read with the source's signedness) modulo `2^k` — truncation when narrowing, zero- or
sign-extension when widening, exactly like Rust's `as`; there is no panic condition at all. -/
theorem cast_spec (a : Bool) (rest : List Bool) (s : Bool) (k : Nat) :
    ∃ q : Int, valOf s (a :: rest) = (toNat (cast (a :: rest) s k) : Int) + q * (2 : Int) ^ k := by
  have hP : ∀ m : Nat, ((2 : Int) ^ m) = (((2 : Nat) ^ m : Nat) : Int) := by intro m; push_cast; rfl
  simp only [cast]
  split
  · -- same width
    rename_i h
    have hk : k = rest.length + 1 := by simpa using h
    cases s
    · exact ⟨0, by simp [valOf]⟩
    · refine ⟨-(a.toNat : Int), ?_⟩
      simp only [valOf, if_true, toInt, List.headD_cons, List.length_cons, hk]
      cases a <;> simp <;> omega
  · split
    · -- narrowing: drop the leading bits
      rename_i _ hlt
      have hlt' : k < rest.length + 1 := by simpa using hlt
      have hsplit := List.take_append_drop ((a :: rest).length - k) (a :: rest)
      have hdl : ((a :: rest).drop ((a :: rest).length - k)).length = k := by simp; omega
      have hv : toNat (a :: rest) = toNat ((a :: rest).take ((a :: rest).length - k)) * 2 ^ k +
          toNat ((a :: rest).drop ((a :: rest).length - k)) := by
        conv => lhs; rw [← hsplit]
        rw [toNat_append, hdl]
      cases s
      · refine ⟨(toNat ((a :: rest).take ((a :: rest).length - k)) : Int), ?_⟩
        simp only [valOf, Bool.false_eq_true, if_false]
        rw [hv, hP]; push_cast; omega
      · -- 2^n = 2^(n-k) * 2^k
        have hn : (2 : Nat) ^ (a :: rest).length = 2 ^ ((a :: rest).length - k) * 2 ^ k := by
          rw [← Nat.pow_add]; congr 1; omega
        simp only [valOf, if_true, toInt, List.headD_cons]
        cases a
        · refine ⟨(toNat ((false :: rest).take ((false :: rest).length - k)) : Int), ?_⟩
          rw [hv, hP]; simp only [Bool.false_eq_true, if_false]; push_cast; omega
        · refine ⟨(toNat ((true :: rest).take ((true :: rest).length - k)) : Int) -
            ((2 ^ ((true :: rest).length - k) : Nat) : Int), ?_⟩
          rw [hv, hP, hP, hn, Int.sub_mul]
          simp only [if_true]; push_cast; omega
    · -- widening
      rename_i hne hge
      have hlt : rest.length + 1 < k := by
        simp only [List.length_cons, beq_iff_eq] at hne
        simp only [List.length_cons, Nat.not_lt] at hge
        omega
      have hk : ¬ ((a :: rest).length == k) = true := by simp; omega
      simp only [extendToBits, List.isEmpty_cons, Bool.false_eq_true, if_false, hk, List.headD_cons]
      rw [toNat_append]
      have hkk : (2 : Nat) ^ k = 2 ^ (k - (rest.length + 1)) * 2 ^ (rest.length + 1) := by
        rw [← Nat.pow_add]; congr 1; omega
      cases s
      · refine ⟨0, ?_⟩
        simp [valOf, toNat_replicate_false]
      · cases a
        · refine ⟨0, ?_⟩
          simp [valOf, toInt, toNat_replicate_false]
        · refine ⟨-1, ?_⟩
          have ht := toNat_replicate_true (k - (rest.length + 1))
          simp only [valOf, if_true, toInt, List.headD_cons, List.length_cons]
          rw [hP, hP, hkk]
          generalize toNat (List.replicate (k - (rest.length + 1)) true) = T at *
          generalize (2 : Nat) ^ (k - (rest.length + 1)) = A at *
          subst ht
          push_cast
          rw [Int.add_mul]
          omega

end Arith
end GV
