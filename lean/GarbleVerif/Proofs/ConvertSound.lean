import GarbleVerif.Proofs.RegAllocSound
/-! The `Input` instructions load every party's bits in order; assembly of the conversion theorem. -/
namespace GV
namespace Reg
open RCircuit

theorem strictInsts_length {ins : List (List Bool)} (insts : List Inst) {regs regs' : List (Option Bool)}
    (h : strictInsts ins insts regs = some regs') : regs'.length = regs.length := by
  induction insts generalizing regs with
  | nil => simp [strictInsts] at h; subst h; rfl
  | cons i is ih =>
    simp only [strictInsts] at h
    split at h
    · simp at h
    · split at h
      · have := ih h; simpa using this
      · simp at h

/-- one party: bits `p` are stored in registers `pos .. pos + k - 1` -/
theorem party_run (ins : List (List Bool)) (party pos : Nat) (p : List Bool) (hp : ins[party]? = some p)
    (k : Nat) (hk : k ≤ p.length) (regs : List (Option Bool)) (hl : pos + k ≤ regs.length) :
    ∃ regs', strictInsts ins ((List.range k).map fun i => ({ out := pos + i, op := .input party i } : Inst)) regs
        = some regs' ∧ regs'.length = regs.length ∧
      ∀ j, regs'.getD j none =
        if pos ≤ j ∧ j < pos + k then some (p.getD (j - pos) false) else regs.getD j none := by
  induction k with
  | zero =>
    refine ⟨regs, by simp [strictInsts], rfl, ?_⟩
    intro j
    have : ¬ (pos ≤ j ∧ j < pos + 0) := by omega
    rw [if_neg this]
  | succ k ih =>
    obtain ⟨r1, h1, hl1, hv1⟩ := ih (by omega) (by omega)
    have hkp : k < p.length := by omega
    rw [List.range_succ, List.map_append, strictInsts_append, h1]
    simp only [List.map_cons, List.map_nil, strictInsts, strictOp, hp]
    have hget : p[k]? = some (p.getD k false) := getElem?_of_lt_getD hkp
    simp only [Option.bind_eq_bind, Option.bind_some, hget]
    have hout : pos + k < r1.length := by rw [hl1]; omega
    simp only [hout, if_true]
    refine ⟨_, rfl, by simp [hl1], ?_⟩
    intro j
    rw [getD_set]
    by_cases hj : pos + k = j
    · subst hj
      simp [hout]
    · simp only [hj, false_and, if_false]
      rw [hv1 j]
      by_cases h2 : pos ≤ j ∧ j < pos + k
      · have : pos ≤ j ∧ j < pos + (k + 1) := by omega
        simp [h2, this]
      · have : ¬ (pos ≤ j ∧ j < pos + (k + 1)) := by omega
        simp [h2, this]

theorem getD_append_left' {α} (l1 l2 : List α) (i : Nat) (d : α) (h : i < l1.length) :
    (l1 ++ l2).getD i d = l1.getD i d := by
  simp [List.getD_eq_getElem?_getD, List.getElem?_append_left h]

theorem getD_append_right' {α} (l1 l2 : List α) (i : Nat) (d : α) (h : l1.length ≤ i) :
    (l1 ++ l2).getD i d = l2.getD (i - l1.length) d := by
  simp [List.getD_eq_getElem?_getD, List.getElem?_append_right h]

/-- all parties -/
theorem inputs_run (ins : List (List Bool)) (sizes : List Nat) (party pos : Nat)
    (regs : List (Option Bool)) (hs : (ins.drop party).map List.length = sizes)
    (hl : pos + sizes.sum ≤ regs.length) :
    ∃ regs', strictInsts ins (inputInsts sizes party pos) regs = some regs' ∧
      regs'.length = regs.length ∧
      ∀ j, regs'.getD j none =
        if pos ≤ j ∧ j < pos + sizes.sum then some ((ins.drop party).flatten.getD (j - pos) false)
        else regs.getD j none := by
  induction sizes generalizing party pos regs with
  | nil =>
    refine ⟨regs, by simp [inputInsts, strictInsts], rfl, ?_⟩
    intro j
    have : ¬ (pos ≤ j ∧ j < pos + ([] : List Nat).sum) := by simp
    rw [if_neg this]
  | cons sz rest ih =>
    -- the first remaining party
    cases hd : ins.drop party with
    | nil => simp [hd] at hs
    | cons p tail =>
      rw [hd] at hs
      simp only [List.map_cons, List.cons.injEq] at hs
      obtain ⟨hpl, hrest⟩ := hs
      have hp : ins[party]? = some p := by
        have := congrArg (fun l => l[0]?) hd
        simpa [List.getElem?_drop] using this
      have htail : ins.drop (party + 1) = tail := by
        have := congrArg List.tail hd
        simpa [List.tail_drop] using this
      simp only [List.sum_cons] at hl
      obtain ⟨r1, h1, hl1, hv1⟩ := party_run ins party pos p hp sz (by omega) regs (by omega)
      obtain ⟨r2, h2, hl2, hv2⟩ := ih (party + 1) (pos + sz) r1 (by rw [htail]; exact hrest)
        (by rw [hl1]; omega)
      refine ⟨r2, ?_, by rw [hl2, hl1], ?_⟩
      · simp only [inputInsts]
        rw [strictInsts_append, h1]
        exact h2
      · intro j
        rw [hv2 j, hv1 j, htail]
        simp only [List.sum_cons, List.flatten_cons]
        by_cases c1 : pos ≤ j ∧ j < pos + sz
        · have n2 : ¬ (pos + sz ≤ j ∧ j < pos + sz + rest.sum) := by omega
          have c3 : pos ≤ j ∧ j < pos + (sz + rest.sum) := by omega
          simp only [n2, c1, c3, if_true, if_false, and_self]
          rw [getD_append_left' _ _ _ _ (by omega)]
        · by_cases c2 : pos + sz ≤ j ∧ j < pos + sz + rest.sum
          · have c3 : pos ≤ j ∧ j < pos + (sz + rest.sum) := by omega
            simp only [c2, c3, if_true, and_self]
            rw [getD_append_right' _ _ _ _ (by omega)]
            congr 2
            omega
          · have n3 : ¬ (pos ≤ j ∧ j < pos + (sz + rest.sum)) := by omega
            simp only [c2, c1, n3, if_false]

/-! ### the initial allocator state -/

def initAlloc (c : Circuit) : Alloc :=
  { free := [], next := c.totalInputs,
    wireMap := (List.range c.totalInputs).map some ++ List.replicate c.gates.length none,
    insts := inputInsts c.inputGates 0 0, andOps := 0 }

theorem regOf_init (c : Circuit) (w : Nat) :
    regOf (initAlloc c) w = if w < c.totalInputs then some w else none := by
  simp only [regOf, initAlloc]
  by_cases h : w < c.totalInputs
  · rw [getD_append_left' _ _ _ _ (by simpa using h)]
    simp [List.getD_eq_getElem?_getD, h]
  · rw [getD_append_right' _ _ _ _ (by simpa using h)]
    simp [h, List.getD_eq_getElem?_getD, List.getElem?_replicate]
    split <;> rfl

theorem init_inv0 (c : Circuit) : Inv0 (lastUseMap c) c.wiresLen c.totalInputs (initAlloc c) := by
  refine ⟨by simp [initAlloc, Circuit.wiresLen], ?_, ?_, ?_, by simp [initAlloc], by simp [initAlloc]⟩
  · intro w r h
    rw [regOf_init] at h
    split at h
    · simp at h; subst h; exact ⟨by assumption, by simpa [initAlloc]⟩
    · simp at h
  · intro w hw _
    exact ⟨w, by rw [regOf_init]; simp [hw]⟩
  · intro w w' r h h'
    rw [regOf_init] at h h'
    split at h <;> split at h' <;> simp at h h'
    omega

theorem validateGates_getElem (gs : List Gate) (g : Nat) (h : Circuit.validateGates gs g = .ok ())
    (j : Nat) (gate : Gate) (hj : gs[j]? = some gate) : Circuit.gateOk gate (g + j) = true := by
  induction gs generalizing g j with
  | nil => simp at hj
  | cons g0 rest ih =>
    simp only [Circuit.validateGates] at h
    split at h
    · rename_i hok
      cases j with
      | zero => simp at hj; subst hj; simpa using hok
      | succ j =>
        have := ih (g + 1) h j (by simpa using hj)
        have e : g + 1 + j = g + (j + 1) := by omega
        rw [e] at this; exact this
    · simp at h

theorem gateOk_operands {gate : Gate} {n : Nat} (h : Circuit.gateOk gate n = true) :
    ∀ a, a ∈ gateOperands gate → a < n := by
  cases gate <;> simp [Circuit.gateOk, gateOperands] at h ⊢ <;> omega

theorem inputInsts_length (sizes : List Nat) (party pos : Nat) :
    (inputInsts sizes party pos).length = sizes.sum := by
  induction sizes generalizing party pos with
  | nil => rfl
  | cons s rest ih => simp [inputInsts, ih]

theorem isAnd_sum (gs : List Gate) :
    (gs.map isAnd).sum = (gs.filter fun g => match g with | .and _ _ => true | _ => false).length := by
  induction gs with
  | nil => rfl
  | cons g rest ih =>
    cases g <;> simp [isAnd, List.filter_cons, ih] <;> omega

/-- facts extracted from `validate = ok` -/
theorem validate_facts (c : Circuit) (hv : c.validate = .ok ()) :
    Circuit.validateGates c.gates c.totalInputs = .ok () ∧ (∀ o, o ∈ c.outputGates → o < c.wiresLen) := by
  simp only [Circuit.validate] at hv
  split at hv
  · simp at hv
  · split at hv
    · simp at hv
    · rename_i hg
      split at hv
      · simp at hv
      · split at hv
        · simp at hv
        · rename_i ho
          exact ⟨hg, Circuit.validateOutputs_lt ho⟩

theorem late_of_valid (c : Circuit) (hg : Circuit.validateGates c.gates c.totalInputs = .ok ()) :
    ∀ j gate, c.gates[j]? = some gate → ∀ a, a ∈ gateOperands gate →
      LateUse (lastUseMap c) a (c.totalInputs + j) := by
  intro j gate hj a ha
  have hok := validateGates_getElem c.gates c.totalInputs hg j gate hj
  have halt := gateOk_operands hok a ha
  have hjl : j < c.gates.length := by
    rcases Nat.lt_or_ge j c.gates.length with h | h
    · exact h
    · rw [List.getElem?_eq_none h] at hj; simp at hj
  exact lastUseMap_operand c j gate hj a ha (by simp [Circuit.wiresLen]; omega)

/-- output registers: every output wire is still mapped at the end, to a register holding its value -/
theorem outputs_sim {last : List LastUse} {N : Nat} {stF : Alloc} {ws : List Bool}
    {regs : List (Option Bool)} (hinv : Inv0 last N N stF) (hv : Val stF ws regs) (hws : ws.length = N)
    (outs : List Nat) (hlt : ∀ o, o ∈ outs → o < N)
    (hpin : ∀ o, o ∈ outs → last.getD o .never = .pinned) :
    ∃ rs, outs.mapM (fun o => stF.wireMap.getD o none) = some rs ∧
      rs.mapM (fun r => readReg regs r) = outs.mapM (fun o => ws[o]?) := by
  induction outs with
  | nil => exact ⟨[], by simp, by simp⟩
  | cons o os ih =>
    obtain ⟨rs, h1, h2⟩ := ih (fun x hx => hlt x (by simp [hx])) (fun x hx => hpin x (by simp [hx]))
    have ho := hlt o (by simp)
    obtain ⟨r, hr⟩ := hinv.live o ho (Or.inl (hpin o (by simp)))
    have hr' : stF.wireMap.getD o none = some r := hr
    refine ⟨r :: rs, by simp only [List.mapM_cons, hr', h1]; rfl, ?_⟩
    have hval := readReg_of_getD (hv o r hr)
    have hw : ws[o]? = some (ws.getD o false) := getElem?_of_lt_getD (by omega)
    simp only [List.mapM_cons, hval, hw, h2]

theorem outputs_mapped {last : List LastUse} {N : Nat} {stF : Alloc} (hinv : Inv0 last N N stF)
    (outs : List Nat) (hlt : ∀ o, o ∈ outs → o < N)
    (hpin : ∀ o, o ∈ outs → last.getD o .never = .pinned) :
    ∃ rs, outs.mapM (fun o => stF.wireMap.getD o none) = some rs := by
  induction outs with
  | nil => exact ⟨[], by simp⟩
  | cons o os ih =>
    obtain ⟨rs, h⟩ := ih (fun x hx => hlt x (by simp [hx])) (fun x hx => hpin x (by simp [hx]))
    obtain ⟨r, hr⟩ := hinv.live o (hlt o (by simp)) (Or.inl (hpin o (by simp)))
    have hr' : stF.wireMap.getD o none = some r := hr
    exact ⟨r :: rs, by simp only [List.mapM_cons, hr', h]; rfl⟩

end Reg
end GV
