import GarbleVerif.Proofs.BitOps
import GarbleVerif.Proofs.SrcFrame
/-! The bit-level evaluation of the core fragment (Model/BitSem.lean) agrees with the source
semantics (Model/SrcSem.lean): values, absence of panics, and the first panic. -/
namespace GV
namespace Bit
open Src

/-- `bs` is the encoding of the value `v` of scalar type `t` -/
def Rel (t : STy) (v : Val) (bs : List Bool) : Prop :=
  match t, v with
  | .bool, .bool b => bs = [b]
  | .int k, .int n => k.inRange n = true ∧ bs = enc k n
  | _, _ => False

theorem Rel.hasType_encode {t : STy} {v : Val} {bs : List Bool} (h : Rel t v bs) :
    v.hasType t.toTy = true ∧ bs = v.encode t.toTy := by
  cases t <;> cases v <;> simp_all [Rel, STy.toTy, Val.hasType, Val.encode, enc]

theorem Rel.bool_inv {v : Val} {bs : List Bool} (h : Rel .bool v bs) : ∃ b, v = .bool b ∧ bs = [b] := by
  cases v <;> simp_all [Rel]

theorem Rel.int_inv {k : IntTy} {v : Val} {bs : List Bool} (h : Rel (.int k) v bs) :
    ∃ n, v = .int n ∧ k.inRange n = true ∧ bs = enc k n := by
  cases v <;> simp_all [Rel]

/-- the variables of the source environment and their wires -/
inductive EnvRel : Src.Env → BEnv → Prop
  | nil : EnvRel [] []
  | cons {x : String} {v : Val} {t : STy} {bs : List Bool} {env : Src.Env} {benv : BEnv} :
      Rel t v bs → EnvRel env benv → EnvRel ((x, v) :: env) ((x, t, bs) :: benv)

theorem EnvRel.lookup {env : Src.Env} {benv : BEnv} (h : EnvRel env benv) (x : String) (t : STy) (bs : List Bool)
    (hb : benv.get? x = some (t, bs)) : ∃ v, env.get? x = some v ∧ Rel t v bs := by
  induction h with
  | nil => simp [BEnv.get?] at hb
  | cons hr _ ih =>
    simp only [BEnv.get?, Src.Env.get?] at hb ⊢
    split at hb
    · rename_i hx
      simp only [Option.some.injEq, Prod.mk.injEq] at hb
      obtain ⟨rfl, rfl⟩ := hb
      exact ⟨_, by simp [hx], hr⟩
    · rename_i hx
      simp only [hx]
      exact ih hb

theorem ofTy_some {ty : Ty} {t : STy} (h : STy.ofTy ty = some t) : ty = t.toTy := by
  cases ty <;> simp [STy.ofTy] at h <;> subst h <;> rfl

theorem restore_append (pre env : Src.Env) : restore env (pre ++ env) = env := by
  simp [restore]

theorem seqP_none (p : P) : seqP none p = p := rfl

theorem firstOf_one (c : Bool) : firstOf [(c, .overflow)] = if c then some .overflow else none := by
  cases c <;> rfl

/-- the strict binary operators: bits and panic conditions against `Src.binop` -/
theorem binBits_sound (op : Src.BinOp) (t : STy) (x y : List Bool) (va vb : Val) (tr : STy) (r : List Bool)
    (panics : List (Bool × Arith.PanicKind)) (hx : Rel t va x) (hy : Rel t vb y)
    (h : binBits op t x y = some (tr, r, panics)) :
    (∀ v, Src.binop op t.toTy va vb = .ok v → Rel tr v r ∧ firstOf panics = none) ∧
    (∀ k, Src.binop op t.toTy va vb = .error (.panic k) → firstOf panics = some k) := by
  cases t with
  | bool =>
    obtain ⟨a, rfl, rfl⟩ := hx.bool_inv
    obtain ⟨b, rfl, rfl⟩ := hy.bool_inv
    have hb := binop_bool a b
    cases op <;> simp only [binBits] at h
    case eq =>
      rw [hb.1] at h; simp only [Option.some.injEq, Prod.mk.injEq] at h; obtain ⟨rfl, rfl, rfl⟩ := h
      simp [Src.binop, Val.beq, Rel, firstOf]
    case ne =>
      rw [hb.2.1] at h; simp only [Option.some.injEq, Prod.mk.injEq] at h; obtain ⟨rfl, rfl, rfl⟩ := h
      simp [Src.binop, Val.beq, Rel, firstOf]
      cases a <;> cases b <;> rfl
    case band =>
      rw [hb.2.2.1] at h; simp only [Option.some.injEq, Prod.mk.injEq] at h; obtain ⟨rfl, rfl, rfl⟩ := h
      simp [Src.binop, STy.toTy, Rel, firstOf]
    case bor =>
      rw [hb.2.2.2.1] at h; simp only [Option.some.injEq, Prod.mk.injEq] at h; obtain ⟨rfl, rfl, rfl⟩ := h
      simp [Src.binop, STy.toTy, Rel, firstOf]
    case bxor =>
      rw [hb.2.2.2.2] at h; simp only [Option.some.injEq, Prod.mk.injEq] at h; obtain ⟨rfl, rfl, rfl⟩ := h
      simp [Src.binop, STy.toTy, Rel, firstOf]
    all_goals (simp at h)
  | int k =>
    obtain ⟨a, rfl, ha, rfl⟩ := hx.int_inv
    obtain ⟨b, rfl, hb, rfl⟩ := hy.int_inv
    cases op <;> simp only [binBits] at h
    case add =>
      simp only [Option.some.injEq, Prod.mk.injEq] at h; obtain ⟨rfl, rfl, rfl⟩ := h
      have hadd := binop_add k a b ha hb
      simp only [Src.binop, STy.toTy, intOp, checked]
      cases hr : k.inRange (a + b)
      · obtain ⟨bits, hbits⟩ := hadd.2 hr
        rw [hbits]
        simp [firstOf, kindOf]
      · rw [hadd.1 hr]
        simp [firstOf, Rel, hr]
    case sub =>
      simp only [Option.some.injEq, Prod.mk.injEq] at h; obtain ⟨rfl, rfl, rfl⟩ := h
      have hsub := binop_sub k a b ha hb
      simp only [Src.binop, STy.toTy, intOp, checked]
      cases hr : k.inRange (a - b)
      · obtain ⟨bits, hbits⟩ := hsub.2 hr
        rw [hbits]
        simp [firstOf, kindOf]
      · rw [hsub.1 hr]
        simp [firstOf, Rel, hr]
    case lt =>
      rw [binop_lt k a b ha hb] at h
      simp only [Option.some.injEq, Prod.mk.injEq] at h; obtain ⟨rfl, rfl, rfl⟩ := h
      simp [Src.binop, STy.toTy, intOp, Rel, firstOf]
    case gt =>
      rw [binop_gt k a b ha hb] at h
      simp only [Option.some.injEq, Prod.mk.injEq] at h; obtain ⟨rfl, rfl, rfl⟩ := h
      simp [Src.binop, STy.toTy, intOp, Rel, firstOf]
    case le =>
      simp only [Option.some.injEq, Prod.mk.injEq] at h; obtain ⟨rfl, rfl, rfl⟩ := h
      rw [(le_bits k a b ha hb).1]
      simp [Src.binop, STy.toTy, intOp, Rel, firstOf]
    case ge =>
      simp only [Option.some.injEq, Prod.mk.injEq] at h; obtain ⟨rfl, rfl, rfl⟩ := h
      rw [(le_bits k a b ha hb).2]
      simp [Src.binop, STy.toTy, intOp, Rel, firstOf]
    case eq =>
      rw [(binop_eq_int k a b ha hb).1] at h
      simp only [Option.some.injEq, Prod.mk.injEq] at h; obtain ⟨rfl, rfl, rfl⟩ := h
      simp [Src.binop, Val.beq, Rel, firstOf]
      by_cases hab : a = b <;> simp [hab]
    case ne =>
      rw [(binop_eq_int k a b ha hb).2] at h
      simp only [Option.some.injEq, Prod.mk.injEq] at h; obtain ⟨rfl, rfl, rfl⟩ := h
      simp [Src.binop, Val.beq, Rel, firstOf]
      by_cases hab : a = b <;> simp [hab]
    all_goals (simp at h)

/-- the strict binary operators are defined on operands of the operator's type -/
theorem binBits_not_stuck (op : Src.BinOp) (t : STy) (x y : List Bool) (va vb : Val) (tr : STy) (r : List Bool)
    (panics : List (Bool × Arith.PanicKind)) (hx : Rel t va x) (hy : Rel t vb y)
    (h : binBits op t x y = some (tr, r, panics)) :
    (∀ w, Src.binop op t.toTy va vb ≠ .error (.stuck w)) ∧ Src.binop op t.toTy va vb ≠ .error .fuel := by
  cases t with
  | bool =>
    obtain ⟨a, rfl, rfl⟩ := hx.bool_inv
    obtain ⟨b, rfl, rfl⟩ := hy.bool_inv
    cases op <;> simp only [binBits] at h <;> first | (simp at h; done) | simp [Src.binop, STy.toTy]
  | int k =>
    obtain ⟨a, rfl, ha, rfl⟩ := hx.int_inv
    obtain ⟨b, rfl, hb, rfl⟩ := hy.int_inv
    have hchk : ∀ n : Int, (∀ w, checked k n ≠ .error (.stuck w)) ∧ checked k n ≠ .error .fuel := by
      intro n; unfold checked; split <;> simp
    cases op <;> simp only [binBits] at h <;> first
      | (simp at h; done)
      | (simp only [Src.binop, STy.toTy, intOp]; exact hchk _)
      | simp [Src.binop, STy.toTy, intOp]

/-- `as` never fails on a value of the source type, and its bits are the encoding of the result -/
theorem cast_sound (ts td : STy) (va : Val) (x : List Bool) (h : Rel ts va x) :
    ∃ w, Src.cast ts.toTy td.toTy va = .ok w ∧ Rel td w (Arith.cast x ts.signed td.bits) := by
  cases ts with
  | bool =>
    obtain ⟨b, rfl, rfl⟩ := h.bool_inv
    cases td with
    | bool => exact ⟨.bool b, rfl, by simp [Rel, STy.signed, STy.bits, Arith.cast]⟩
    | int k' =>
      have hc := cast_bool_int k' b
      exact ⟨.int (if b then 1 else 0), rfl, ⟨hc.2, hc.1⟩⟩
  | int k =>
    obtain ⟨n, rfl, hn, rfl⟩ := h.int_inv
    cases td with
    | bool => exact ⟨.bool (n % 2 == 1), rfl, by simp [Rel, STy.signed, STy.bits, cast_int_bool k n hn]⟩
    | int k' =>
      have hc := cast_int_int k k' n hn
      exact ⟨.int (Src.wrapTo k' n), rfl, ⟨hc.2, hc.1⟩⟩

/-- what the theorem says about one expression / statement list for a given fuel -/
def ExprOK (prog : Prog) (fuel : Nat) : Prop :=
  ∀ e env benv t bs p', EnvRel env benv → bitExpr benv e = some (t, bs, p') →
    (∀ v env', evalExpr fuel prog env e = .ok (v, env') → env' = env ∧ Rel t v bs ∧ p' = none) ∧
    (∀ k, evalExpr fuel prog env e = .error (.panic k) → p' = some k)

def StmtsOK (prog : Prog) (fuel : Nat) : Prop :=
  ∀ ss env benv t bs p', EnvRel env benv → bitStmts benv ss = some (t, bs, p') →
    (∀ v env', evalStmts fuel prog env ss = .ok (v, env') → (∃ pre, env' = pre ++ env) ∧ Rel t v bs ∧ p' = none) ∧
    (∀ k, evalStmts fuel prog env ss = .error (.panic k) → p' = some k)

theorem exprOK_zero (prog : Prog) : ExprOK prog 0 := by
  intro e env benv t bs p' _ _
  constructor <;> intros <;> simp_all [evalExpr]

theorem stmtsOK_zero (prog : Prog) : StmtsOK prog 0 := by
  intro ss env benv t bs p' _ _
  constructor <;> intros <;> simp_all [evalStmts]

theorem evalExpr_bin (fuel : Nat) (prog : Prog) (env : Src.Env) (op : Src.BinOp) (ty : Ty) (a b : Expr)
    (h1 : op ≠ .land) (h2 : op ≠ .lor) :
    evalExpr (fuel + 1) prog env (.bin op ty a b) =
      (match evalExpr fuel prog env a with
       | .error e => .error e
       | .ok (x, env1) =>
         match evalExpr fuel prog env1 b with
         | .error e => .error e
         | .ok (y, env2) =>
           match Src.binop op ty x y with
           | .ok r => .ok (r, env2)
           | .error e => .error e) := by
  cases op
  case land => exact absurd rfl h1
  case lor => exact absurd rfl h2
  all_goals
    rw [evalExpr]
    rotate_left
    · exact h1
    · exact h2
    rcases evalExpr fuel prog env a with e | ⟨x, env1⟩
    · rfl
    · dsimp only
      rcases evalExpr fuel prog env1 b with e | ⟨y, env2⟩
      · rfl
      · dsimp only
        rcases Src.binop _ ty x y with e | r <;> rfl

theorem exprOK_succ (prog : Prog) (fuel : Nat) (ihE : ExprOK prog fuel) (ihS : StmtsOK prog fuel) :
    ExprOK prog (fuel + 1) := by
  intro e env benv t bs p' henv hb
  cases e with
  | bool b =>
    simp only [bitExpr, Option.some.injEq, Prod.mk.injEq] at hb
    obtain ⟨rfl, rfl, rfl⟩ := hb
    constructor
    · intro v env' h
      simp only [evalExpr, Except.ok.injEq, Prod.mk.injEq] at h
      obtain ⟨rfl, rfl⟩ := h
      exact ⟨rfl, rfl, rfl⟩
    · intro k h; simp [evalExpr] at h
  | int n k =>
    simp only [bitExpr] at hb
    split at hb
    · rename_i hr
      simp only [Option.some.injEq, Prod.mk.injEq] at hb
      obtain ⟨rfl, rfl, rfl⟩ := hb
      constructor
      · intro v env' h
        simp only [evalExpr, Except.ok.injEq, Prod.mk.injEq] at h
        obtain ⟨rfl, rfl⟩ := h
        exact ⟨rfl, ⟨hr, rfl⟩, rfl⟩
      · intro k h; simp [evalExpr] at h
    · simp at hb
  | var x =>
    simp only [bitExpr] at hb
    split at hb
    · rename_i t' bs' hg
      simp only [Option.some.injEq, Prod.mk.injEq] at hb
      obtain ⟨rfl, rfl, rfl⟩ := hb
      obtain ⟨v0, hv0, hrel⟩ := henv.lookup x _ _ hg
      constructor
      · intro v env' h
        simp only [evalExpr, hv0, Except.ok.injEq, Prod.mk.injEq] at h
        obtain ⟨rfl, rfl⟩ := h
        exact ⟨rfl, hrel, rfl⟩
      · intro k h; simp [evalExpr, hv0] at h
    · simp at hb
  | un op ty a =>
    cases op with
    | not =>
      cases ty <;> simp only [bitExpr] at hb
      case bool =>
        split at hb
        · rename_i b p1 ha
          simp only [Option.some.injEq, Prod.mk.injEq] at hb
          obtain ⟨rfl, rfl, rfl⟩ := hb
          have ih := ihE a env benv _ _ _ henv ha
          constructor
          · intro v env' h
            rw [evalExpr] at h
            cases hev : evalExpr fuel prog env a with
            | error er => simp [hev] at h
            | ok res =>
              obtain ⟨va, env1⟩ := res
              obtain ⟨rfl, hrel, rfl⟩ := ih.1 va env1 hev
              obtain ⟨b', rfl, hbs⟩ := hrel.bool_inv
              simp only [List.cons.injEq, and_true] at hbs
              subst hbs
              simp only [hev, unop, Except.ok.injEq, Prod.mk.injEq] at h
              obtain ⟨rfl, rfl⟩ := h
              exact ⟨rfl, rfl, rfl⟩
          · intro k h
            rw [evalExpr] at h
            cases hev : evalExpr fuel prog env a with
            | error er =>
              simp only [hev, Except.error.injEq] at h
              subst h
              exact ih.2 k hev
            | ok res =>
              obtain ⟨va, env1⟩ := res
              obtain ⟨rfl, hrel, rfl⟩ := ih.1 va env1 hev
              obtain ⟨b', rfl, _⟩ := hrel.bool_inv
              simp [hev, unop] at h
        · simp at hb
      all_goals (simp at hb)
    | neg =>
      cases ty <;> simp only [bitExpr] at hb
      case int k =>
        split at hb
        · rename_i hs
          split at hb
          · rename_i k' bs' p1 ha
            split at hb
            · rename_i hk
              subst hk
              simp only [Option.some.injEq, Prod.mk.injEq] at hb
              obtain ⟨rfl, rfl, rfl⟩ := hb
              have ih := ihE a env benv _ _ _ henv ha
              constructor
              · intro v env' h
                rw [evalExpr] at h
                cases hev : evalExpr fuel prog env a with
                | error er => simp [hev] at h
                | ok res =>
                  obtain ⟨va, env1⟩ := res
                  obtain ⟨rfl, hrel, rfl⟩ := ih.1 va env1 hev
                  obtain ⟨n, rfl, hn, rfl⟩ := hrel.int_inv
                  simp only [hev, unop, checked] at h
                  have hng := negChecked_enc k' n hs hn
                  cases hr : k'.inRange (-n)
                  · simp [hr] at h
                  · simp only [hr, if_true, Except.ok.injEq, Prod.mk.injEq] at h
                    obtain ⟨rfl, rfl⟩ := h
                    rw [hng.1 hr]
                    exact ⟨rfl, ⟨hr, rfl⟩, rfl⟩
              · intro kk h
                rw [evalExpr] at h
                cases hev : evalExpr fuel prog env a with
                | error er =>
                  simp only [hev, Except.error.injEq] at h
                  subst h
                  rw [ih.2 kk hev]; rfl
                | ok res =>
                  obtain ⟨va, env1⟩ := res
                  obtain ⟨rfl, hrel, rfl⟩ := ih.1 va env1 hev
                  obtain ⟨n, rfl, hn, rfl⟩ := hrel.int_inv
                  simp only [hev, unop, checked] at h
                  have hng := negChecked_enc k' n hs hn
                  cases hr : k'.inRange (-n)
                  · simp only [hr, Bool.false_eq_true, if_false, Except.error.injEq, Err.panic.injEq] at h
                    subst h
                    simp [hng.2 hr, seqP]
                  · simp [hr] at h
            · simp at hb
          · simp at hb
        · simp at hb
      all_goals (simp at hb)
  | cast src dst a =>
    simp only [bitExpr] at hb
    split at hb
    · rename_i ts td hs hd
      split at hb
      · rename_i ta x p1 ha
        split at hb
        · rename_i hts
          subst hts
          simp only [Option.some.injEq, Prod.mk.injEq] at hb
          obtain ⟨rfl, rfl, rfl⟩ := hb
          have ih := ihE a env benv _ _ _ henv ha
          have hsrc := ofTy_some hs
          have hdst := ofTy_some hd
          subst hsrc
          subst hdst
          constructor
          · intro v env' h
            rw [evalExpr] at h
            cases hev : evalExpr fuel prog env a with
            | error er => simp [hev] at h
            | ok res =>
              obtain ⟨va, env1⟩ := res
              obtain ⟨rfl, hrel, rfl⟩ := ih.1 va env1 hev
              obtain ⟨w, hw, hrw⟩ := cast_sound ta td va x hrel
              simp only [hev, hw, Except.ok.injEq, Prod.mk.injEq] at h
              obtain ⟨rfl, rfl⟩ := h
              exact ⟨rfl, hrw, rfl⟩
          · intro k h
            rw [evalExpr] at h
            cases hev : evalExpr fuel prog env a with
            | error er =>
              simp only [hev, Except.error.injEq] at h
              subst h
              exact ih.2 k hev
            | ok res =>
              obtain ⟨va, env1⟩ := res
              obtain ⟨rfl, hrel, rfl⟩ := ih.1 va env1 hev
              obtain ⟨w, hw, hrw⟩ := cast_sound ta td va x hrel
              simp [hev, hw] at h
        · simp at hb
      · simp at hb
    · simp at hb
  | ite c tb fb =>
    simp only [bitExpr] at hb
    split at hb
    · rename_i cb pc hc
      split at hb
      · rename_i tt tbits pt tf fbits pf ht hf
        split at hb
        · rename_i htt
          subst htt
          simp only [Option.some.injEq, Prod.mk.injEq] at hb
          obtain ⟨rfl, rfl, rfl⟩ := hb
          have ihc := ihE c env benv _ _ _ henv hc
          constructor
          · intro v env' h
            rw [evalExpr] at h
            cases hev : evalExpr fuel prog env c with
            | error er => simp [hev] at h
            | ok res =>
              obtain ⟨vc, env1⟩ := res
              obtain ⟨rfl, hrel, rfl⟩ := ihc.1 vc env1 hev
              obtain ⟨b', rfl, hbs⟩ := hrel.bool_inv
              simp only [List.cons.injEq, and_true] at hbs
              subst hbs
              cases cb with
              | true =>
                simp only [hev] at h
                obtain ⟨rfl, hr, rfl⟩ := (ihE tb env1 benv _ _ _ henv ht).1 v env' h
                exact ⟨rfl, by simpa using hr, rfl⟩
              | false =>
                simp only [hev] at h
                obtain ⟨rfl, hr, rfl⟩ := (ihE fb env1 benv _ _ _ henv hf).1 v env' h
                exact ⟨rfl, by simpa using hr, rfl⟩
          · intro k h
            rw [evalExpr] at h
            cases hev : evalExpr fuel prog env c with
            | error er =>
              simp only [hev, Except.error.injEq] at h
              subst h
              rw [ihc.2 k hev]; rfl
            | ok res =>
              obtain ⟨vc, env1⟩ := res
              obtain ⟨rfl, hrel, rfl⟩ := ihc.1 vc env1 hev
              obtain ⟨b', rfl, hbs⟩ := hrel.bool_inv
              simp only [List.cons.injEq, and_true] at hbs
              subst hbs
              cases cb with
              | true =>
                simp only [hev] at h
                simpa [seqP] using (ihE tb env1 benv _ _ _ henv ht).2 k h
              | false =>
                simp only [hev] at h
                simpa [seqP] using (ihE fb env1 benv _ _ _ henv hf).2 k h
        · simp at hb
      · simp at hb
    · simp at hb
  | block ss =>
    simp only [bitExpr] at hb
    have ih := ihS ss env benv _ _ _ henv hb
    constructor
    · intro v env' h
      rw [evalExpr] at h
      cases hev : evalStmts fuel prog env ss with
      | error er => simp [hev] at h
      | ok res =>
        obtain ⟨v1, env1⟩ := res
        obtain ⟨⟨pre, rfl⟩, hrel, rfl⟩ := ih.1 v1 env1 hev
        simp only [hev, Except.ok.injEq, Prod.mk.injEq] at h
        obtain ⟨rfl, rfl⟩ := h
        exact ⟨restore_append pre env, hrel, rfl⟩
    · intro k h
      rw [evalExpr] at h
      cases hev : evalStmts fuel prog env ss with
      | error er =>
        simp only [hev, Except.error.injEq] at h
        subst h
        exact ih.2 k hev
      | ok res =>
        obtain ⟨v1, env1⟩ := res
        simp [hev] at h
  | bin op ty a b =>
    cases op
    case land =>
      simp only [bitExpr] at hb
      split at hb
      · rename_i x p1 ha
        split at hb
        · rename_i y p2 hbb
          simp only [Option.some.injEq, Prod.mk.injEq] at hb
          obtain ⟨rfl, rfl, rfl⟩ := hb
          have iha := ihE a env benv _ _ _ henv ha
          constructor
          · intro v env' h
            rw [evalExpr] at h
            cases hev : evalExpr fuel prog env a with
            | error er => simp [hev] at h
            | ok res =>
              obtain ⟨va, env1⟩ := res
              obtain ⟨rfl, hrel, rfl⟩ := iha.1 va env1 hev
              obtain ⟨x', rfl, hbs⟩ := hrel.bool_inv
              simp only [List.cons.injEq, and_true] at hbs
              subst hbs
              cases x with
              | false =>
                simp only [hev, Except.ok.injEq, Prod.mk.injEq] at h
                obtain ⟨rfl, rfl⟩ := h
                exact ⟨rfl, rfl, rfl⟩
              | true =>
                simp only [hev] at h
                obtain ⟨rfl, hr, rfl⟩ := (ihE b env1 benv _ _ _ henv hbb).1 v env' h
                obtain ⟨y', rfl, hbs⟩ := hr.bool_inv
                simp only [List.cons.injEq, and_true] at hbs
                subst hbs
                exact ⟨rfl, by simp [Rel], rfl⟩
          · intro k h
            rw [evalExpr] at h
            cases hev : evalExpr fuel prog env a with
            | error er =>
              simp only [hev, Except.error.injEq] at h
              subst h
              rw [iha.2 k hev]; rfl
            | ok res =>
              obtain ⟨va, env1⟩ := res
              obtain ⟨rfl, hrel, rfl⟩ := iha.1 va env1 hev
              obtain ⟨x', rfl, hbs⟩ := hrel.bool_inv
              simp only [List.cons.injEq, and_true] at hbs
              subst hbs
              cases x with
              | false => simp [hev] at h
              | true =>
                simp only [hev] at h
                simpa [seqP] using (ihE b env1 benv _ _ _ henv hbb).2 k h
        · simp at hb
      · simp at hb
    case lor =>
      simp only [bitExpr] at hb
      split at hb
      · rename_i x p1 ha
        split at hb
        · rename_i y p2 hbb
          simp only [Option.some.injEq, Prod.mk.injEq] at hb
          obtain ⟨rfl, rfl, rfl⟩ := hb
          have iha := ihE a env benv _ _ _ henv ha
          constructor
          · intro v env' h
            rw [evalExpr] at h
            cases hev : evalExpr fuel prog env a with
            | error er => simp [hev] at h
            | ok res =>
              obtain ⟨va, env1⟩ := res
              obtain ⟨rfl, hrel, rfl⟩ := iha.1 va env1 hev
              obtain ⟨x', rfl, hbs⟩ := hrel.bool_inv
              simp only [List.cons.injEq, and_true] at hbs
              subst hbs
              cases x with
              | true =>
                simp only [hev, Except.ok.injEq, Prod.mk.injEq] at h
                obtain ⟨rfl, rfl⟩ := h
                exact ⟨rfl, rfl, rfl⟩
              | false =>
                simp only [hev] at h
                obtain ⟨rfl, hr, rfl⟩ := (ihE b env1 benv _ _ _ henv hbb).1 v env' h
                obtain ⟨y', rfl, hbs⟩ := hr.bool_inv
                simp only [List.cons.injEq, and_true] at hbs
                subst hbs
                exact ⟨rfl, by simp [Rel], rfl⟩
          · intro k h
            rw [evalExpr] at h
            cases hev : evalExpr fuel prog env a with
            | error er =>
              simp only [hev, Except.error.injEq] at h
              subst h
              rw [iha.2 k hev]; rfl
            | ok res =>
              obtain ⟨va, env1⟩ := res
              obtain ⟨rfl, hrel, rfl⟩ := iha.1 va env1 hev
              obtain ⟨x', rfl, hbs⟩ := hrel.bool_inv
              simp only [List.cons.injEq, and_true] at hbs
              subst hbs
              cases x with
              | true => simp [hev] at h
              | false =>
                simp only [hev] at h
                simpa [seqP] using (ihE b env1 benv _ _ _ henv hbb).2 k h
        · simp at hb
      · simp at hb
    all_goals
      simp only [bitExpr] at hb
      split at hb
      · simp at hb
      · rename_i t' hty
        split at hb
        · simp at hb
        · rename_i ta x p1 ha
          split at hb
          · simp at hb
          · rename_i tb' y p2 hbb
            split at hb
            · rename_i hts
              obtain ⟨rfl, rfl⟩ := hts
              split at hb
              · rename_i tr r panics hbin
                simp only [Option.some.injEq, Prod.mk.injEq] at hb
                obtain ⟨rfl, rfl, rfl⟩ := hb
                have iha := ihE a env benv _ _ _ henv ha
                have hty' := ofTy_some hty
                subst hty'
                constructor
                · intro v env' h
                  rw [evalExpr_bin _ _ _ _ _ _ _ (by decide) (by decide)] at h
                  cases hev : evalExpr fuel prog env a with
                  | error er => simp [hev] at h
                  | ok res =>
                    obtain ⟨va, env1⟩ := res
                    obtain ⟨rfl, hra, rfl⟩ := iha.1 va env1 hev
                    have ihb := ihE b env1 benv _ _ _ henv hbb
                    cases hevb : evalExpr fuel prog env1 b with
                    | error er => simp [hev, hevb] at h
                    | ok resb =>
                      obtain ⟨vb, env2⟩ := resb
                      obtain ⟨rfl, hrb, rfl⟩ := ihb.1 vb env2 hevb
                      have hs := binBits_sound _ _ x y va vb tr r panics hra hrb hbin
                      simp only [hev, hevb] at h
                      split at h
                      · rename_i rv hop
                        simp only [Except.ok.injEq, Prod.mk.injEq] at h
                        obtain ⟨rfl, rfl⟩ := h
                        obtain ⟨hr, hp⟩ := hs.1 rv hop
                        exact ⟨rfl, hr, by simp [seqP, hp]⟩
                      · simp at h
                · intro k h
                  rw [evalExpr_bin _ _ _ _ _ _ _ (by decide) (by decide)] at h
                  cases hev : evalExpr fuel prog env a with
                  | error er =>
                    simp only [hev, Except.error.injEq] at h
                    subst h
                    rw [iha.2 k hev]; rfl
                  | ok res =>
                    obtain ⟨va, env1⟩ := res
                    obtain ⟨rfl, hra, rfl⟩ := iha.1 va env1 hev
                    have ihb := ihE b env1 benv _ _ _ henv hbb
                    cases hevb : evalExpr fuel prog env1 b with
                    | error er =>
                      simp only [hev, hevb, Except.error.injEq] at h
                      subst h
                      rw [ihb.2 k hevb]; rfl
                    | ok resb =>
                      obtain ⟨vb, env2⟩ := resb
                      obtain ⟨rfl, hrb, rfl⟩ := ihb.1 vb env2 hevb
                      have hs := binBits_sound _ _ x y va vb tr r panics hra hrb hbin
                      simp only [hev, hevb] at h
                      split at h
                      · simp at h
                      · rename_i er hop
                        simp only [Except.error.injEq] at h
                        subst h
                        simp [seqP, hs.2 k hop]
              · simp at hb
            · simp at hb
  | _ => simp [bitExpr] at hb

theorem stmtsOK_succ (prog : Prog) (fuel : Nat) (ih : ∀ f, f ≤ fuel → ExprOK prog f ∧ StmtsOK prog f) :
    StmtsOK prog (fuel + 1) := by
  intro ss env benv t bs p' henv hb
  cases fuel with
  | zero =>
    -- `evalStmt 0` is out of fuel
    cases ss with
    | nil => simp [bitStmts] at hb
    | cons s rest =>
      constructor
      · intro v env' h
        simp [evalStmts, evalStmt] at h
      · intro k h
        simp [evalStmts, evalStmt] at h
  | succ f =>
    have ihE := (ih f (by omega)).1
    have ihS := (ih (f + 1) (by omega)).2
    cases ss with
    | nil => simp [bitStmts] at hb
    | cons s rest =>
      cases s with
      | expr e =>
        cases rest with
        | nil =>
          simp only [bitStmts] at hb
          have ihe := ihE e env benv _ _ _ henv hb
          constructor
          · intro v env' h
            rw [evalStmts] at h
            simp only [evalStmt] at h
            cases hev : evalExpr f prog env e with
            | error er => simp [hev] at h
            | ok res =>
              obtain ⟨v1, env1⟩ := res
              simp only [hev, Except.ok.injEq, Prod.mk.injEq] at h
              obtain ⟨rfl, rfl⟩ := h
              obtain ⟨rfl, hr, rfl⟩ := ihe.1 v1 env1 hev
              exact ⟨⟨[], rfl⟩, hr, rfl⟩
          · intro k h
            rw [evalStmts] at h
            simp only [evalStmt] at h
            cases hev : evalExpr f prog env e with
            | error er =>
              simp only [hev, Except.error.injEq] at h
              subst h
              exact ihe.2 k hev
            | ok res =>
              obtain ⟨v1, env1⟩ := res
              simp [hev] at h
        | cons s2 r2 => simp [bitStmts] at hb
      | let_ pat e =>
        cases pat with
        | ident x =>
          simp only [bitStmts] at hb
          split at hb
          · rename_i t1 bs1 p1 he
            split at hb
            · rename_i t2 bs2 p2 hrest
              simp only [Option.some.injEq, Prod.mk.injEq] at hb
              obtain ⟨rfl, rfl, rfl⟩ := hb
              have ihe := ihE e env benv _ _ _ henv he
              constructor
              · intro v env' h
                rw [evalStmts] at h
                simp only [evalStmt] at h
                cases hev : evalExpr f prog env e with
                | error er => simp [hev] at h
                | ok res =>
                  obtain ⟨v1, env1⟩ := res
                  obtain ⟨rfl, hr, rfl⟩ := ihe.1 v1 env1 hev
                  simp only [hev, matchPat, List.cons_append, List.nil_append] at h
                  have henv2 : EnvRel ((x, v1) :: env1) ((x, t1, bs1) :: benv) := EnvRel.cons hr henv
                  cases rest with
                  | nil => simp [bitStmts] at hrest
                  | cons s2 r2 =>
                    simp only at h
                    obtain ⟨⟨pre, rfl⟩, hr2, rfl⟩ := (ihS _ _ _ _ _ _ henv2 hrest).1 v env' h
                    exact ⟨⟨pre ++ [(x, v1)], by simp⟩, hr2, rfl⟩
              · intro k h
                rw [evalStmts] at h
                simp only [evalStmt] at h
                cases hev : evalExpr f prog env e with
                | error er =>
                  simp only [hev, Except.error.injEq] at h
                  subst h
                  rw [ihe.2 k hev]; rfl
                | ok res =>
                  obtain ⟨v1, env1⟩ := res
                  obtain ⟨rfl, hr, rfl⟩ := ihe.1 v1 env1 hev
                  simp only [hev, matchPat, List.cons_append, List.nil_append] at h
                  have henv2 : EnvRel ((x, v1) :: env1) ((x, t1, bs1) :: benv) := EnvRel.cons hr henv
                  cases rest with
                  | nil => simp [bitStmts] at hrest
                  | cons s2 r2 =>
                    simp only at h
                    simpa [seqP] using (ihS _ _ _ _ _ _ henv2 hrest).2 k h
            · simp at hb
          · simp at hb
        | _ => simp [bitStmts] at hb
      | letMut x e =>
        simp only [bitStmts] at hb
        split at hb
        · rename_i t1 bs1 p1 he
          split at hb
          · rename_i t2 bs2 p2 hrest
            simp only [Option.some.injEq, Prod.mk.injEq] at hb
            obtain ⟨rfl, rfl, rfl⟩ := hb
            have ihe := ihE e env benv _ _ _ henv he
            constructor
            · intro v env' h
              rw [evalStmts] at h
              simp only [evalStmt] at h
              cases hev : evalExpr f prog env e with
              | error er => simp [hev] at h
              | ok res =>
                obtain ⟨v1, env1⟩ := res
                obtain ⟨rfl, hr, rfl⟩ := ihe.1 v1 env1 hev
                simp only [hev] at h
                have henv2 : EnvRel ((x, v1) :: env1) ((x, t1, bs1) :: benv) := EnvRel.cons hr henv
                cases rest with
                | nil => simp [bitStmts] at hrest
                | cons s2 r2 =>
                  simp only at h
                  obtain ⟨⟨pre, rfl⟩, hr2, rfl⟩ := (ihS _ _ _ _ _ _ henv2 hrest).1 v env' h
                  exact ⟨⟨pre ++ [(x, v1)], by simp⟩, hr2, rfl⟩
            · intro k h
              rw [evalStmts] at h
              simp only [evalStmt] at h
              cases hev : evalExpr f prog env e with
              | error er =>
                simp only [hev, Except.error.injEq] at h
                subst h
                rw [ihe.2 k hev]; rfl
              | ok res =>
                obtain ⟨v1, env1⟩ := res
                obtain ⟨rfl, hr, rfl⟩ := ihe.1 v1 env1 hev
                simp only [hev] at h
                have henv2 : EnvRel ((x, v1) :: env1) ((x, t1, bs1) :: benv) := EnvRel.cons hr henv
                cases rest with
                | nil => simp [bitStmts] at hrest
                | cons s2 r2 =>
                  simp only at h
                  simpa [seqP] using (ihS _ _ _ _ _ _ henv2 hrest).2 k h
          · simp at hb
        · simp at hb
      | _ => simp [bitStmts] at hb

/-- **soundness of the bit-level evaluation**, for every fuel -/
theorem core_all (prog : Prog) : ∀ n f, f ≤ n → ExprOK prog f ∧ StmtsOK prog f
  | 0, f, hf => by
    have : f = 0 := by omega
    subst this
    exact ⟨exprOK_zero prog, stmtsOK_zero prog⟩
  | n + 1, f, hf => by
    rcases Nat.lt_or_ge f (n + 1) with h | h
    · exact core_all prog n f (by omega)
    · have : f = n + 1 := by omega
      subst this
      have ih := core_all prog n
      exact ⟨exprOK_succ prog n (ih n (Nat.le_refl n)).1 (ih n (Nat.le_refl n)).2, stmtsOK_succ prog n ih⟩

/-! ### programs of the fragment never get stuck (type soundness for the fragment) -/

def NoStuckE (prog : Prog) (fuel : Nat) : Prop :=
  ∀ e env benv t bs p', EnvRel env benv → bitExpr benv e = some (t, bs, p') →
    ∀ w, evalExpr fuel prog env e ≠ .error (.stuck w)

def NoStuckS (prog : Prog) (fuel : Nat) : Prop :=
  ∀ ss env benv t bs p', EnvRel env benv → bitStmts benv ss = some (t, bs, p') →
    ∀ w, evalStmts fuel prog env ss ≠ .error (.stuck w)

theorem noStuckE_succ (prog : Prog) (fuel : Nat) (ihE : NoStuckE prog fuel) (ihS : NoStuckS prog fuel) :
    NoStuckE prog (fuel + 1) := by
  have okE : ExprOK prog fuel := (core_all prog fuel fuel (Nat.le_refl _)).1
  have okS : StmtsOK prog fuel := (core_all prog fuel fuel (Nat.le_refl _)).2
  intro e env benv t bs p' henv hb w h
  cases e with
  | bool b => simp [evalExpr] at h
  | int n k => simp [evalExpr] at h
  | var x =>
    simp only [bitExpr] at hb
    split at hb
    · rename_i t' bs' hg
      obtain ⟨v0, hv0, _⟩ := henv.lookup x _ _ hg
      simp [evalExpr, hv0] at h
    · simp at hb
  | un op ty a =>
    cases op with
    | not =>
      cases ty <;> simp only [bitExpr] at hb
      case bool =>
        split at hb
        · rename_i b p1 ha
          rw [evalExpr] at h
          cases hev : evalExpr fuel prog env a with
          | error er =>
            simp only [hev, Except.error.injEq] at h
            subst h
            exact ihE a env benv _ _ _ henv ha w hev
          | ok res =>
            obtain ⟨va, env1⟩ := res
            obtain ⟨rfl, hrel, _⟩ := (okE a env benv _ _ _ henv ha).1 va env1 hev
            obtain ⟨b', rfl, _⟩ := hrel.bool_inv
            simp [hev, unop] at h
        · simp at hb
      all_goals (simp at hb)
    | neg =>
      cases ty <;> simp only [bitExpr] at hb
      case int k =>
        split at hb
        · split at hb
          · rename_i k' bs' p1 ha
            split at hb
            · rename_i hk
              subst hk
              rw [evalExpr] at h
              cases hev : evalExpr fuel prog env a with
              | error er =>
                simp only [hev, Except.error.injEq] at h
                subst h
                exact ihE a env benv _ _ _ henv ha w hev
              | ok res =>
                obtain ⟨va, env1⟩ := res
                obtain ⟨rfl, hrel, _⟩ := (okE a env benv _ _ _ henv ha).1 va env1 hev
                obtain ⟨n, rfl, _, _⟩ := hrel.int_inv
                simp only [hev, unop, checked] at h
                cases hr : k'.inRange (-n) <;> simp [hr] at h
            · simp at hb
          · simp at hb
        · simp at hb
      all_goals (simp at hb)
  | cast src dst a =>
    simp only [bitExpr] at hb
    split at hb
    · rename_i ts td hs hd
      split at hb
      · rename_i ta x p1 ha
        split at hb
        · rename_i hts
          subst hts
          have hsrc := ofTy_some hs
          have hdst := ofTy_some hd
          subst hsrc
          subst hdst
          rw [evalExpr] at h
          cases hev : evalExpr fuel prog env a with
          | error er =>
            simp only [hev, Except.error.injEq] at h
            subst h
            exact ihE a env benv _ _ _ henv ha w hev
          | ok res =>
            obtain ⟨va, env1⟩ := res
            obtain ⟨rfl, hrel, _⟩ := (okE a env benv _ _ _ henv ha).1 va env1 hev
            obtain ⟨w', hw, _⟩ := cast_sound ta td va x hrel
            simp [hev, hw] at h
        · simp at hb
      · simp at hb
    · simp at hb
  | ite c tb fb =>
    simp only [bitExpr] at hb
    split at hb
    · rename_i cb pc hc
      split at hb
      · rename_i tt tbits pt tf fbits pf ht hf
        rw [evalExpr] at h
        cases hev : evalExpr fuel prog env c with
        | error er =>
          simp only [hev, Except.error.injEq] at h
          subst h
          exact ihE c env benv _ _ _ henv hc w hev
        | ok res =>
          obtain ⟨vc, env1⟩ := res
          obtain ⟨rfl, hrel, _⟩ := (okE c env benv _ _ _ henv hc).1 vc env1 hev
          obtain ⟨b', rfl, _⟩ := hrel.bool_inv
          cases b' with
          | true =>
            simp only [hev] at h
            exact ihE tb env1 benv _ _ _ henv ht w h
          | false =>
            simp only [hev] at h
            exact ihE fb env1 benv _ _ _ henv hf w h
      · simp at hb
    · simp at hb
  | block ss =>
    simp only [bitExpr] at hb
    rw [evalExpr] at h
    cases hev : evalStmts fuel prog env ss with
    | error er =>
      simp only [hev, Except.error.injEq] at h
      subst h
      exact ihS ss env benv _ _ _ henv hb w hev
    | ok res =>
      obtain ⟨v1, env1⟩ := res
      simp [hev] at h
  | bin op ty a b =>
    cases op
    case land =>
      simp only [bitExpr] at hb
      split at hb
      · rename_i x p1 ha
        split at hb
        · rename_i y p2 hbb
          rw [evalExpr] at h
          cases hev : evalExpr fuel prog env a with
          | error er =>
            simp only [hev, Except.error.injEq] at h
            subst h
            exact ihE a env benv _ _ _ henv ha w hev
          | ok res =>
            obtain ⟨va, env1⟩ := res
            obtain ⟨rfl, hrel, _⟩ := (okE a env benv _ _ _ henv ha).1 va env1 hev
            obtain ⟨x', rfl, _⟩ := hrel.bool_inv
            cases x' with
            | false => simp [hev] at h
            | true =>
              simp only [hev] at h
              exact ihE b env1 benv _ _ _ henv hbb w h
        · simp at hb
      · simp at hb
    case lor =>
      simp only [bitExpr] at hb
      split at hb
      · rename_i x p1 ha
        split at hb
        · rename_i y p2 hbb
          rw [evalExpr] at h
          cases hev : evalExpr fuel prog env a with
          | error er =>
            simp only [hev, Except.error.injEq] at h
            subst h
            exact ihE a env benv _ _ _ henv ha w hev
          | ok res =>
            obtain ⟨va, env1⟩ := res
            obtain ⟨rfl, hrel, _⟩ := (okE a env benv _ _ _ henv ha).1 va env1 hev
            obtain ⟨x', rfl, _⟩ := hrel.bool_inv
            cases x' with
            | true => simp [hev] at h
            | false =>
              simp only [hev] at h
              exact ihE b env1 benv _ _ _ henv hbb w h
        · simp at hb
      · simp at hb
    all_goals
      simp only [bitExpr] at hb
      split at hb
      · simp at hb
      · rename_i t' hty
        split at hb
        · simp at hb
        · rename_i ta x p1 ha
          split at hb
          · simp at hb
          · rename_i tb' y p2 hbb
            split at hb
            · rename_i hts
              obtain ⟨rfl, rfl⟩ := hts
              split at hb
              · rename_i tr r panics hbin
                have hty' := ofTy_some hty
                subst hty'
                rw [evalExpr_bin _ _ _ _ _ _ _ (by decide) (by decide)] at h
                cases hev : evalExpr fuel prog env a with
                | error er =>
                  simp only [hev, Except.error.injEq] at h
                  subst h
                  exact ihE a env benv _ _ _ henv ha w hev
                | ok res =>
                  obtain ⟨va, env1⟩ := res
                  obtain ⟨rfl, hra, _⟩ := (okE a env benv _ _ _ henv ha).1 va env1 hev
                  cases hevb : evalExpr fuel prog env1 b with
                  | error er =>
                    simp only [hev, hevb, Except.error.injEq] at h
                    subst h
                    exact ihE b env1 benv _ _ _ henv hbb w hevb
                  | ok resb =>
                    obtain ⟨vb, env2⟩ := resb
                    obtain ⟨rfl, hrb, _⟩ := (okE b env1 benv _ _ _ henv hbb).1 vb env2 hevb
                    have hns := binBits_not_stuck _ _ x y va vb tr r panics hra hrb hbin
                    simp only [hev, hevb] at h
                    split at h
                    · simp at h
                    · rename_i er hop
                      simp only [Except.error.injEq] at h
                      subst h
                      exact hns.1 w hop
              · simp at hb
            · simp at hb
  | _ => simp [bitExpr] at hb

theorem noStuckS_succ (prog : Prog) (fuel : Nat)
    (ih : ∀ f, f ≤ fuel → NoStuckE prog f ∧ NoStuckS prog f) : NoStuckS prog (fuel + 1) := by
  intro ss env benv t bs p' henv hb w h
  cases fuel with
  | zero =>
    cases ss with
    | nil => simp [bitStmts] at hb
    | cons s rest => simp [evalStmts, evalStmt] at h
  | succ f =>
    have ihE := (ih f (by omega)).1
    have ihS := (ih (f + 1) (by omega)).2
    have okE : ExprOK prog f := (core_all prog f f (Nat.le_refl _)).1
    cases ss with
    | nil => simp [bitStmts] at hb
    | cons s rest =>
      cases s with
      | expr e =>
        cases rest with
        | nil =>
          simp only [bitStmts] at hb
          rw [evalStmts] at h
          simp only [evalStmt] at h
          cases hev : evalExpr f prog env e with
          | error er =>
            simp only [hev, Except.error.injEq] at h
            subst h
            exact ihE e env benv _ _ _ henv hb w hev
          | ok res =>
            obtain ⟨v1, env1⟩ := res
            simp [hev] at h
        | cons s2 r2 => simp [bitStmts] at hb
      | let_ pat e =>
        cases pat with
        | ident x =>
          simp only [bitStmts] at hb
          split at hb
          · rename_i t1 bs1 p1 he
            split at hb
            · rename_i t2 bs2 p2 hrest
              rw [evalStmts] at h
              simp only [evalStmt] at h
              cases hev : evalExpr f prog env e with
              | error er =>
                simp only [hev, Except.error.injEq] at h
                subst h
                exact ihE e env benv _ _ _ henv he w hev
              | ok res =>
                obtain ⟨v1, env1⟩ := res
                obtain ⟨rfl, hr, _⟩ := (okE e env benv _ _ _ henv he).1 v1 env1 hev
                simp only [hev, matchPat, List.cons_append, List.nil_append] at h
                have henv2 : EnvRel ((x, v1) :: env1) ((x, t1, bs1) :: benv) := EnvRel.cons hr henv
                cases rest with
                | nil => simp [bitStmts] at hrest
                | cons s2 r2 =>
                  simp only at h
                  exact ihS _ _ _ _ _ _ henv2 hrest w h
            · simp at hb
          · simp at hb
        | _ => simp [bitStmts] at hb
      | letMut x e =>
        simp only [bitStmts] at hb
        split at hb
        · rename_i t1 bs1 p1 he
          split at hb
          · rename_i t2 bs2 p2 hrest
            rw [evalStmts] at h
            simp only [evalStmt] at h
            cases hev : evalExpr f prog env e with
            | error er =>
              simp only [hev, Except.error.injEq] at h
              subst h
              exact ihE e env benv _ _ _ henv he w hev
            | ok res =>
              obtain ⟨v1, env1⟩ := res
              obtain ⟨rfl, hr, _⟩ := (okE e env benv _ _ _ henv he).1 v1 env1 hev
              simp only [hev] at h
              have henv2 : EnvRel ((x, v1) :: env1) ((x, t1, bs1) :: benv) := EnvRel.cons hr henv
              cases rest with
              | nil => simp [bitStmts] at hrest
              | cons s2 r2 =>
                simp only at h
                exact ihS _ _ _ _ _ _ henv2 hrest w h
          · simp at hb
        · simp at hb
      | _ => simp [bitStmts] at hb

/-- programs of the fragment never get stuck, for every fuel -/
theorem noStuck_all (prog : Prog) : ∀ n f, f ≤ n → NoStuckE prog f ∧ NoStuckS prog f
  | 0, f, hf => by
    have : f = 0 := by omega
    subst this
    constructor
    · intro e env benv t bs p' _ _ w h; simp [evalExpr] at h
    · intro ss env benv t bs p' _ _ w h; simp [evalStmts] at h
  | n + 1, f, hf => by
    rcases Nat.lt_or_ge f (n + 1) with h | h
    · exact noStuck_all prog n f (by omega)
    · have : f = n + 1 := by omega
      subst this
      have ih := noStuck_all prog n
      exact ⟨noStuckE_succ prog n (ih n (Nat.le_refl n)).1 (ih n (Nat.le_refl n)).2, noStuckS_succ prog n ih⟩

end Bit
end GV
