import GarbleVerif.Proofs.BitOps
import GarbleVerif.Proofs.BitOps2
import GarbleVerif.Proofs.BitWise
import GarbleVerif.Proofs.SrcFrame
/-! Operator-level lemmas: the bit-level operators of the core fragment (Model/BitSem.lean) against the
source operators (Model/SrcSem.lean). -/
namespace GV
namespace Bit
open Src

/-- `bs` is the encoding of the value `v` of scalar type `t` -/
def Rel (t : STy) (v : Val) (bs : List Bool) : Prop :=
  match t, v with
  | .bool, .bool b => bs = [b]
  | .int k, .int n => k.inRange n = true ∧ bs = enc k n
  | _, _ => False

theorem Rel.hasType_encode {t : STy} {v : Val} {bs : List Bool} (h : Rel t v bs) :
    v.hasType t.toTy = true ∧ bs = v.encode t.toTy := by
  cases t <;> cases v <;> simp_all [Rel, STy.toTy, Val.hasType, Val.encode, enc]

theorem Rel.bool_inv {v : Val} {bs : List Bool} (h : Rel .bool v bs) : ∃ b, v = .bool b ∧ bs = [b] := by
  cases v <;> simp_all [Rel]

theorem Rel.int_inv {k : IntTy} {v : Val} {bs : List Bool} (h : Rel (.int k) v bs) :
    ∃ n, v = .int n ∧ k.inRange n = true ∧ bs = enc k n := by
  cases v <;> simp_all [Rel]

/-- `bs` is the encoding of the value `v` of type `t` -/
def VRel (t : VTy) (v : Val) (bs : List Bool) : Prop :=
  match t with
  | .s st => Rel st v bs
  | .unit => v = Src.unit ∧ bs = []
  | .agg t => v.hasType t = true ∧ bs = v.encode t

/-- the variables of the source environment and their wires -/
inductive EnvRel : Src.Env → BEnv → Prop
  | nil : EnvRel [] []
  | cons {x : String} {v : Val} {t : VTy} {bs : List Bool} {env : Src.Env} {benv : BEnv} :
      VRel t v bs → EnvRel env benv → EnvRel ((x, v) :: env) ((x, t, bs) :: benv)

theorem EnvRel.lookup {env : Src.Env} {benv : BEnv} (h : EnvRel env benv) (x : String) (t : VTy) (bs : List Bool)
    (hb : benv.get? x = some (t, bs)) : ∃ v, env.get? x = some v ∧ VRel t v bs := by
  induction h with
  | nil => simp [BEnv.get?] at hb
  | cons hr _ ih =>
    simp only [BEnv.get?, Src.Env.get?] at hb ⊢
    split at hb
    · rename_i hx
      simp only [Option.some.injEq, Prod.mk.injEq] at hb
      obtain ⟨rfl, rfl⟩ := hb
      exact ⟨_, by simp [hx], hr⟩
    · rename_i hx
      simp only [hx]
      exact ih hb

theorem ofTy_some {ty : Ty} {t : STy} (h : STy.ofTy ty = some t) : ty = t.toTy := by
  cases ty <;> simp [STy.ofTy] at h <;> subst h <;> rfl

theorem restore_append (pre env : Src.Env) : restore env (pre ++ env) = env := by
  simp [restore]

theorem seqP_none (p : P) : seqP none p = p := rfl

theorem firstOf_one (c : Bool) : firstOf [(c, .overflow)] = if c then some .overflow else none := by
  cases c <;> rfl

/-- the strict binary operators: bits and panic conditions against `Src.binop` -/
theorem binBits_sound (op : Src.BinOp) (t : STy) (x y : List Bool) (va vb : Val) (tr : STy) (r : List Bool)
    (panics : List (Bool × Arith.PanicKind)) (hx : Rel t va x) (hy : Rel t vb y)
    (h : binBits op t x y = some (tr, r, panics)) :
    (∀ v, Src.binop op t.toTy va vb = .ok v → Rel tr v r ∧ firstOf panics = none) ∧
    (∀ k, Src.binop op t.toTy va vb = .error (.panic k) → firstOf panics = some k) := by
  cases t with
  | bool =>
    obtain ⟨a, rfl, rfl⟩ := hx.bool_inv
    obtain ⟨b, rfl, rfl⟩ := hy.bool_inv
    have hb := binop_bool a b
    cases op <;> simp only [binBits] at h
    case eq =>
      rw [hb.1] at h; simp only [Option.some.injEq, Prod.mk.injEq] at h; obtain ⟨rfl, rfl, rfl⟩ := h
      simp [Src.binop, Val.beq, Rel, firstOf]
    case ne =>
      rw [hb.2.1] at h; simp only [Option.some.injEq, Prod.mk.injEq] at h; obtain ⟨rfl, rfl, rfl⟩ := h
      simp [Src.binop, Val.beq, Rel, firstOf]
      cases a <;> cases b <;> rfl
    case band =>
      rw [hb.2.2.1] at h; simp only [Option.some.injEq, Prod.mk.injEq] at h; obtain ⟨rfl, rfl, rfl⟩ := h
      simp [Src.binop, STy.toTy, Rel, firstOf]
    case bor =>
      rw [hb.2.2.2.1] at h; simp only [Option.some.injEq, Prod.mk.injEq] at h; obtain ⟨rfl, rfl, rfl⟩ := h
      simp [Src.binop, STy.toTy, Rel, firstOf]
    case bxor =>
      rw [hb.2.2.2.2] at h; simp only [Option.some.injEq, Prod.mk.injEq] at h; obtain ⟨rfl, rfl, rfl⟩ := h
      simp [Src.binop, STy.toTy, Rel, firstOf]
    all_goals (simp at h)
  | int k =>
    obtain ⟨a, rfl, ha, rfl⟩ := hx.int_inv
    obtain ⟨b, rfl, hb, rfl⟩ := hy.int_inv
    cases op <;> simp only [binBits] at h
    case add =>
      simp only [Option.some.injEq, Prod.mk.injEq] at h; obtain ⟨rfl, rfl, rfl⟩ := h
      have hadd := binop_add k a b ha hb
      simp only [Src.binop, STy.toTy, intOp, checked]
      cases hr : k.inRange (a + b)
      · obtain ⟨bits, hbits⟩ := hadd.2 hr
        rw [hbits]
        simp [firstOf, kindOf]
      · rw [hadd.1 hr]
        simp [firstOf, Rel, hr]
    case sub =>
      simp only [Option.some.injEq, Prod.mk.injEq] at h; obtain ⟨rfl, rfl, rfl⟩ := h
      have hsub := binop_sub k a b ha hb
      simp only [Src.binop, STy.toTy, intOp, checked]
      cases hr : k.inRange (a - b)
      · obtain ⟨bits, hbits⟩ := hsub.2 hr
        rw [hbits]
        simp [firstOf, kindOf]
      · rw [hsub.1 hr]
        simp [firstOf, Rel, hr]
    case mul =>
      simp only [Option.some.injEq, Prod.mk.injEq] at h; obtain ⟨rfl, rfl, rfl⟩ := h
      have hmul := binop_mul k a b ha hb
      simp only [Src.binop, STy.toTy, intOp, checked]
      cases hr : k.inRange (a * b)
      · obtain ⟨bits, hbits⟩ := hmul.2 hr
        rw [hbits]
        simp [firstOf, kindOf]
      · rw [hmul.1 hr]
        simp [firstOf, Rel, hr]
    case div =>
      simp only [Option.some.injEq, Prod.mk.injEq] at h; obtain ⟨rfl, rfl, rfl⟩ := h
      have hdiv := binop_div k a b ha hb
      simp only at hdiv
      simp only [Src.binop, STy.toTy, intOp, checked]
      by_cases hb0 : b = 0
      · have h1 := hdiv.1 hb0
        subst hb0
        simp [h1]
      · simp only [hb0, if_false]
        cases hr : k.inRange (Int.tdiv a b)
        · simp [hdiv.2.2 hb0 hr]
        · obtain ⟨h1, h2⟩ := hdiv.2.1 hb0 hr
          rw [h1]
          simp [Rel, hr, h2]
    case rem =>
      simp only [Option.some.injEq, Prod.mk.injEq] at h; obtain ⟨rfl, rfl, rfl⟩ := h
      have hrem := binop_rem k a b ha hb
      simp only at hrem
      simp only [Src.binop, STy.toTy, intOp]
      by_cases hb0 : b = 0
      · have h1 := hrem.1 hb0
        subst hb0
        simp [h1]
      · obtain ⟨h0, h1, h2⟩ := hrem.2 hb0
        simp only [hb0, if_false]
        rw [h1]
        simp [Rel, h0, h2]
    case lt =>
      rw [binop_lt k a b ha hb] at h
      simp only [Option.some.injEq, Prod.mk.injEq] at h; obtain ⟨rfl, rfl, rfl⟩ := h
      simp [Src.binop, STy.toTy, intOp, Rel, firstOf]
    case gt =>
      rw [binop_gt k a b ha hb] at h
      simp only [Option.some.injEq, Prod.mk.injEq] at h; obtain ⟨rfl, rfl, rfl⟩ := h
      simp [Src.binop, STy.toTy, intOp, Rel, firstOf]
    case le =>
      simp only [Option.some.injEq, Prod.mk.injEq] at h; obtain ⟨rfl, rfl, rfl⟩ := h
      rw [(le_bits k a b ha hb).1]
      simp [Src.binop, STy.toTy, intOp, Rel, firstOf]
    case ge =>
      simp only [Option.some.injEq, Prod.mk.injEq] at h; obtain ⟨rfl, rfl, rfl⟩ := h
      rw [(le_bits k a b ha hb).2]
      simp [Src.binop, STy.toTy, intOp, Rel, firstOf]
    case eq =>
      rw [(binop_eq_int k a b ha hb).1] at h
      simp only [Option.some.injEq, Prod.mk.injEq] at h; obtain ⟨rfl, rfl, rfl⟩ := h
      simp [Src.binop, Val.beq, Rel, firstOf]
      by_cases hab : a = b <;> simp [hab]
    case ne =>
      rw [(binop_eq_int k a b ha hb).2] at h
      simp only [Option.some.injEq, Prod.mk.injEq] at h; obtain ⟨rfl, rfl, rfl⟩ := h
      simp [Src.binop, Val.beq, Rel, firstOf]
      by_cases hab : a = b <;> simp [hab]
    case band =>
      rw [binop_band k a b] at h
      simp only [Option.some.injEq, Prod.mk.injEq] at h; obtain ⟨rfl, rfl, rfl⟩ := h
      simp [Src.binop, STy.toTy, intOp, Rel, firstOf, bitwise_inRange]
    case bor =>
      rw [binop_bor k a b] at h
      simp only [Option.some.injEq, Prod.mk.injEq] at h; obtain ⟨rfl, rfl, rfl⟩ := h
      simp [Src.binop, STy.toTy, intOp, Rel, firstOf, bitwise_inRange]
    case bxor =>
      rw [binop_bxor k a b] at h
      simp only [Option.some.injEq, Prod.mk.injEq] at h; obtain ⟨rfl, rfl, rfl⟩ := h
      simp [Src.binop, STy.toTy, intOp, Rel, firstOf, bitwise_inRange]
    all_goals (simp at h)

/-- the strict binary operators are defined on operands of the operator's type -/
theorem binBits_not_stuck (op : Src.BinOp) (t : STy) (x y : List Bool) (va vb : Val) (tr : STy) (r : List Bool)
    (panics : List (Bool × Arith.PanicKind)) (hx : Rel t va x) (hy : Rel t vb y)
    (h : binBits op t x y = some (tr, r, panics)) :
    (∀ w, Src.binop op t.toTy va vb ≠ .error (.stuck w)) ∧ Src.binop op t.toTy va vb ≠ .error .fuel := by
  cases t with
  | bool =>
    obtain ⟨a, rfl, rfl⟩ := hx.bool_inv
    obtain ⟨b, rfl, rfl⟩ := hy.bool_inv
    cases op <;> simp only [binBits] at h <;> first | (simp at h; done) | simp [Src.binop, STy.toTy]
  | int k =>
    obtain ⟨a, rfl, ha, rfl⟩ := hx.int_inv
    obtain ⟨b, rfl, hb, rfl⟩ := hy.int_inv
    have hchk : ∀ n : Int, (∀ w, checked k n ≠ .error (.stuck w)) ∧ checked k n ≠ .error .fuel := by
      intro n; unfold checked; split <;> simp
    cases op <;> simp only [binBits] at h <;> first
      | (simp at h; done)
      | (simp only [Src.binop, STy.toTy, intOp]; exact hchk _)
      | (simp only [Src.binop, STy.toTy, intOp]; split <;> first | exact hchk _ | simp)
      | simp [Src.binop, STy.toTy, intOp]

/-- `as` never fails on a value of the source type, and its bits are the encoding of the result -/
theorem cast_sound (ts td : STy) (va : Val) (x : List Bool) (h : Rel ts va x) :
    ∃ w, Src.cast ts.toTy td.toTy va = .ok w ∧ Rel td w (Arith.cast x ts.signed td.bits) := by
  cases ts with
  | bool =>
    obtain ⟨b, rfl, rfl⟩ := h.bool_inv
    cases td with
    | bool => exact ⟨.bool b, rfl, by simp [Rel, STy.signed, STy.bits, Arith.cast]⟩
    | int k' =>
      have hc := cast_bool_int k' b
      exact ⟨.int (if b then 1 else 0), rfl, ⟨hc.2, hc.1⟩⟩
  | int k =>
    obtain ⟨n, rfl, hn, rfl⟩ := h.int_inv
    cases td with
    | bool => exact ⟨.bool (n % 2 == 1), rfl, by simp [Rel, STy.signed, STy.bits, cast_int_bool k n hn]⟩
    | int k' =>
      have hc := cast_int_int k k' n hn
      exact ⟨.int (Src.wrapTo k' n), rfl, ⟨hc.2, hc.1⟩⟩


end Bit
end GV
