import GarbleVerif.Proofs.BuilderSem
/-!
Spike: `remove_unused_gates` (circuit.rs:470-560) — compaction with index shifting — preserves the
value of every kept wire, for ANY `used` marking that is closed under operands.
-/
namespace GV
namespace Builder

/-- closedness: operands of a used gate that are gates are used -/
def Closed (shift : Nat) (used : List Bool) (gates : List BGate) : Prop :=
  ∀ p g, gates[p]? = some g → used.getD p false = true →
    ∀ o, (match g with | .xor a b => o = a ∨ o = b | .and a b => o = a ∨ o = b) →
      shift ≤ o → used.getD (o - shift) false = true

theorem take_succ_filter (used : List Bool) (k : Nat) (f : Bool → Bool) (hk : k < used.length) :
    ((used.take (k + 1)).filter f).length = ((used.take k).filter f).length + (if f used[k] then 1 else 0) := by
  rw [List.take_succ, List.filter_append, List.length_append, List.getElem?_eq_getElem hk]
  simp only [Option.toList_some, List.filter_cons, List.filter_nil]
  split <;> simp

/-- for a used position the Rust index arithmetic equals `newPos` -/
theorem remap_used (shift : Nat) (used : List Bool) (p : Nat) (hp : p < used.length)
    (hu : used[p] = true) : remap shift used (shift + p) = shift + newPos used p := by
  have key : unusedUpTo used p + newPos used p = p := by
    simp only [unusedUpTo, newPos]
    rw [take_succ_filter used p _ hp]
    simp only [hu, Bool.not_true, Bool.false_eq_true, if_false, Nat.add_zero]
    have : ∀ (l : List Bool), (l.filter (fun u => !u)).length + (l.filter (fun u => u)).length = l.length := by
      intro l; induction l with
      | nil => rfl
      | cons a l ih => cases a <;> simp [List.filter_cons] <;> omega
    rw [this, List.length_take]; omega
  simp only [remap]
  rcases Nat.eq_zero_or_pos p with h0 | hpos
  · subst h0
    simp [newPos]
  · have : shift + p > shift := by omega
    simp only [this, if_true, Nat.add_sub_cancel_left]
    omega

/-- invariant between the values over the first `k` original gates (`bv`) and over their compaction (`cv`) -/
structure CRel (shift : Nat) (used : List Bool) (k : Nat) (bv cv : List Bool) : Prop where
  blen : bv.length = shift + k
  clen : cv.length = shift + newPos used k
  base : ∀ w, w < shift → cv.getD w false = bv.getD w false
  kept : ∀ p, p < k → used.getD p false = true → cv.getD (shift + newPos used p) false = bv.getD (shift + p) false

theorem getD_app_lt (l : List Bool) (x : Bool) (i : Nat) (h : i < l.length) :
    (l ++ [x]).getD i false = l.getD i false := by
  simp [List.getD_eq_getElem?_getD, List.getElem?_append_left h]

theorem getD_app_len (l : List Bool) (x : Bool) (n : Nat) (h : n = l.length) : (l ++ [x]).getD n false = x := by
  subst h; simp [List.getD_eq_getElem?_getD]

theorem newPos_mono (used : List Bool) {p k : Nat} (h : p ≤ k) : newPos used p ≤ newPos used k := by
  induction k with
  | zero => have : p = 0 := by omega
            subst this; exact Nat.le_refl _
  | succ k ih =>
    rcases Nat.lt_or_ge p (k + 1) with hlt | hge
    · have h1 := ih (by omega)
      rcases Nat.lt_or_ge k used.length with hk | hk
      · simp only [newPos] at *
        rw [take_succ_filter used k _ hk]; omega
      · have : used.take (k + 1) = used.take k := by
          rw [List.take_of_length_le (by omega), List.take_of_length_le hk]
        simp only [newPos, this] at *; exact h1
    · have : p = k + 1 := by omega
      subst this; exact Nat.le_refl _

theorem newPos_lt_of_used (used : List Bool) {p k : Nat} (hpk : p < k) (hp : p < used.length) (hu : used[p] = true) :
    newPos used p < newPos used k := by
  have h1 : newPos used (p + 1) = newPos used p + 1 := by
    simp only [newPos]; rw [take_succ_filter used p _ hp]; simp [hu]
  have h2 := newPos_mono used (p := p + 1) (k := k) (by omega)
  omega

/-- one gate of the original list -/
theorem crel_step {shift : Nat} {used : List Bool} {gates : List BGate} (hcl : Closed shift used gates)
    (hlen : used.length = gates.length)
    (hwf : ∀ i g, gates[i]? = some g → opsLt g (shift + i))
    {k : Nat} {bv cv : List Bool} (h : CRel shift used k bv cv) (g : BGate) (hg : gates[k]? = some g) :
    CRel shift used (k + 1) (bv ++ [gateVal bv g])
      (if used.getD k false then cv ++ [gateVal cv (mapOps (remap shift used) g)] else cv) := by
  have hk : k < gates.length := by
    rcases Nat.lt_or_ge k gates.length with h' | h'
    · exact h'
    · rw [List.getElem?_eq_none h'] at hg; simp at hg
  have hku : k < used.length := by omega
  have hops := hwf k g hg
  -- value of a (kept) operand
  have opval : ∀ o, (match g with | .xor a b => o = a ∨ o = b | .and a b => o = a ∨ o = b) →
      used.getD k false = true → o < shift + k →
      cv.getD (remap shift used o) false = bv.getD o false := by
    intro o ho hu holt
    rcases Nat.lt_or_ge o shift with hlt | hge
    · have : remap shift used o = o := by simp [remap]; omega
      rw [this]; exact h.base o hlt
    · have hused := hcl k g hg hu o ho hge
      obtain ⟨q, rfl⟩ : ∃ q, o = shift + q := ⟨o - shift, by omega⟩
      have hq : q < k := by omega
      have hqu : q < used.length := by omega
      have hused' : used[q] = true := by
        simpa [List.getD_eq_getElem?_getD, List.getElem?_eq_getElem hqu] using hused
      rw [remap_used shift used q hqu hused']
      exact h.kept q hq (by simpa using hused)
  have hnp : newPos used (k + 1) = newPos used k + (if used[k] then 1 else 0) := by
    simp only [newPos]; rw [take_succ_filter used k _ hku]
  by_cases hu : used.getD k false = true
  · have hu' : used[k] = true := by
      simpa [List.getD_eq_getElem?_getD, List.getElem?_eq_getElem hku] using hu
    simp only [hu, if_true]
    have hval : gateVal cv (mapOps (remap shift used) g) = gateVal bv g := by
      cases g with
      | xor a b =>
        obtain ⟨ha, hb⟩ := hops
        simp only [mapOps, gateVal, opval a (Or.inl rfl) hu ha, opval b (Or.inr rfl) hu hb]
      | and a b =>
        obtain ⟨ha, hb⟩ := hops
        simp only [mapOps, gateVal, opval a (Or.inl rfl) hu ha, opval b (Or.inr rfl) hu hb]
    refine ⟨by simp [h.blen]; omega, by simp [h.clen, hnp, hu']; omega, ?_, ?_⟩
    · intro w hw
      rw [getD_app_lt _ _ _ (by rw [h.clen]; omega), getD_app_lt _ _ _ (by rw [h.blen]; omega)]
      exact h.base w hw
    · intro p hp hpu
      rcases Nat.lt_or_ge p k with hlt | hge
      · have hpl : p < used.length := by omega
        have hpu' : used[p] = true := by
          simpa [List.getD_eq_getElem?_getD, List.getElem?_eq_getElem hpl] using hpu
        have := newPos_lt_of_used used hlt hpl hpu'
        rw [getD_app_lt _ _ _ (by rw [h.clen]; omega), getD_app_lt _ _ _ (by rw [h.blen]; omega)]
        exact h.kept p hlt hpu
      · have : p = k := by omega
        subst this
        rw [getD_app_len _ _ _ (by rw [h.clen]), getD_app_len _ _ _ (by rw [h.blen]), hval]
  · have hu' : used[k] = false := by
      have : used.getD k false = false := by simpa using hu
      simpa [List.getD_eq_getElem?_getD, List.getElem?_eq_getElem hku] using this
    simp only [hu, if_false]
    refine ⟨by simp [h.blen]; omega, by simp [h.clen, hnp, hu'], ?_, ?_⟩
    · intro w hw
      rw [getD_app_lt _ _ _ (by rw [h.blen]; omega)]
      exact h.base w hw
    · intro p hp hpu
      rcases Nat.lt_or_ge p k with hlt | hge
      · rw [getD_app_lt _ _ _ (by rw [h.blen]; omega)]
        exact h.kept p hlt hpu
      · have : p = k := by omega
        subst this; exact absurd hpu hu


theorem crel_fold {shift : Nat} {used : List Bool} {gates : List BGate} (hcl : Closed shift used gates)
    (hlen : used.length = gates.length)
    (hwf : ∀ i g, gates[i]? = some g → opsLt g (shift + i))
    (gs : List BGate) (k : Nat) (hgs : gs = gates.drop k)
    (bv cv : List Bool) (h : CRel shift used k bv cv) :
    CRel shift used (k + gs.length) (valsFrom bv gs) (valsFrom cv (compactFrom shift used k gs)) := by
  induction gs generalizing k bv cv with
  | nil => simpa [valsFrom, compactFrom] using h
  | cons g gs ih =>
    have hg : gates[k]? = some g := by
      have := congrArg (fun l => l[0]?) hgs
      simpa [List.getElem?_drop] using this.symm
    have hgs' : gs = gates.drop (k + 1) := by
      have := congrArg List.tail hgs
      simpa [List.tail_drop] using this
    have step := crel_step hcl hlen hwf h g hg
    have := ih (k + 1) hgs' _ _ step
    have e : k + (g :: gs).length = k + 1 + gs.length := by simp; omega
    rw [e]
    simp only [valsFrom, List.foldl_cons, compactFrom, stepVals] at this ⊢
    split
    · rename_i hu
      simp only [hu, if_true] at this
      simpa [List.foldl_cons, stepVals] using this
    · rename_i hu
      simp only [hu] at this
      simpa using this

/-- **compaction preserves every kept wire** -/
theorem compact_sound {shift : Nat} {used : List Bool} {gates : List BGate} (hcl : Closed shift used gates)
    (hlen : used.length = gates.length)
    (hwf : ∀ i g, gates[i]? = some g → opsLt g (shift + i))
    (init : List Bool) (hinit : init.length = shift) :
    CRel shift used gates.length (valsFrom init gates) (valsFrom init (compact shift used gates)) := by
  have base : CRel shift used 0 init init :=
    ⟨by simp [hinit], by simp [hinit, newPos], fun _ _ => rfl, fun p hp => by omega⟩
  have := crel_fold hcl hlen hwf gates 0 (by simp) init init base
  simpa [compact] using this

end Builder
end GV
