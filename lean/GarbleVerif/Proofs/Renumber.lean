import GarbleVerif.Proofs.BuilderSem
/-!
Spike for the second half of C04: final renumbering of `CircuitBuilder::build`
(circuit.rs:571-643) — builder numbering (0/1 constants, inputs, gates) to the final SSA
numbering (inputs, `Xor(0,0)`, `Not(n)`, gates).
-/
namespace GV
namespace Builder

def sgateVal (ws : List Bool) : Gate → Bool
  | .xor a b => ws.getD a false ^^ ws.getD b false
  | .and a b => ws.getD a false && ws.getD b false
  | .not a => !ws.getD a false

def sstep (ws : List Bool) (g : Gate) : List Bool := ws ++ [sgateVal ws g]
def svalsFrom (init : List Bool) (gs : List Gate) : List Bool := gs.foldl sstep init


/-- relation between builder-numbered values and final-numbered values -/
structure Rel (shift : Nat) (bv sv : List Bool) : Prop where
  len : sv.length = bv.length
  ge : shift ≤ bv.length
  zero : bv.getD 0 false = false
  one : bv.getD 1 false = true
  map : ∀ w, w < bv.length → sv.getD (fIdx shift w) false = bv.getD w false

theorem fIdx_const {shift w : Nat} (h : w ≤ 1) : fIdx shift w = w + (shift - 2) := by
  simp [fIdx, h]

theorem fIdx_inp {shift w : Nat} (h1 : 2 ≤ w) (h2 : w < shift) : fIdx shift w = w - 2 := by
  have : ¬ w ≤ 1 := by omega
  simp [fIdx, this, h2]

theorem fIdx_gate {shift w : Nat} (hs : 2 ≤ shift) (h : shift ≤ w) : fIdx shift w = w := by
  have h1 : ¬ w ≤ 1 := by omega
  have h2 : ¬ w < shift := by omega
  simp [fIdx, h1, h2]

theorem fIdx_lt {shift w n : Nat} (hs : 2 ≤ shift) (hn : shift ≤ n) (hw : w < n) : fIdx shift w < n := by
  rcases Nat.lt_or_ge w 2 with h | h
  · rw [fIdx_const (by omega)]; omega
  · rcases Nat.lt_or_ge w shift with h' | h'
    · rw [fIdx_inp h h']; omega
    · rw [fIdx_gate hs h']; exact hw

theorem getD_append_lt (l : List Bool) (x : Bool) (i : Nat) (h : i < l.length) :
    (l ++ [x]).getD i false = l.getD i false := by
  simp [List.getD_eq_getElem?_getD, List.getElem?_append_left h]

theorem getD_append_len (l : List Bool) (x : Bool) : (l ++ [x]).getD l.length false = x := by
  simp [List.getD_eq_getElem?_getD]

theorem rel_step {shift : Nat} (hs : 2 ≤ shift) {bv sv : List Bool} (h : Rel shift bv sv) (g : BGate)
    (hg : opsLt g bv.length) :
    Rel shift (bv ++ [gateVal bv g]) (sv ++ [sgateVal sv (convGate shift g)]) := by
  have hval : sgateVal sv (convGate shift g) = gateVal bv g := by
    cases g with
    | xor x y =>
      obtain ⟨hx, hy⟩ := hg
      simp only [convGate]
      split
      · rename_i hx1; subst hx1
        simp only [sgateVal, gateVal, h.map y hy, h.one]; cases bv.getD y false <;> rfl
      · split
        · rename_i hy1; subst hy1
          simp only [sgateVal, gateVal, h.map x hx, h.one]; cases bv.getD x false <;> rfl
        · simp only [sgateVal, gateVal, h.map x hx, h.map y hy]
    | and x y =>
      obtain ⟨hx, hy⟩ := hg
      simp only [convGate, sgateVal, gateVal, h.map x hx, h.map y hy]
  have hge := h.ge
  refine ⟨by simp [h.len], by simp; omega, ?_, ?_, ?_⟩
  · rw [getD_append_lt _ _ _ (by omega)]; exact h.zero
  · rw [getD_append_lt _ _ _ (by omega)]; exact h.one
  · intro w hw
    simp only [List.length_append, List.length_cons, List.length_nil] at hw
    rcases Nat.lt_or_ge w bv.length with hlt | hge'
    · rw [getD_append_lt _ _ _ hlt, getD_append_lt _ _ _ (by rw [h.len]; exact fIdx_lt hs hge hlt)]
      exact h.map w hlt
    · have hw' : w = bv.length := by omega
      subst hw'
      have hf : fIdx shift bv.length = sv.length := by
        rw [fIdx_gate hs hge, h.len]
      rw [hf, getD_append_len, getD_append_len, hval]

theorem rel_fold {shift : Nat} (hs : 2 ≤ shift) (gs : List BGate) (bv sv : List Bool) (h : Rel shift bv sv)
    (hwf : ∀ i g, gs[i]? = some g → opsLt g (bv.length + i)) :
    Rel shift (valsFrom bv gs) (svalsFrom sv (gs.map (convGate shift))) := by
  induction gs generalizing bv sv with
  | nil => simpa [valsFrom, svalsFrom] using h
  | cons g gs ih =>
    have hg : opsLt g bv.length := by simpa using hwf 0 g (by simp)
    have h' := rel_step hs h g hg
    simp only [valsFrom, svalsFrom, List.foldl_cons, List.map_cons]
    exact ih _ _ h' (fun i g' hi => by
      have := hwf (i + 1) g' (by simpa using hi)
      have e : (stepVals bv g).length + i = bv.length + (i + 1) := by simp [stepVals]; omega
      rw [e]; exact this)

/-- base: after the two constant gates the final numbering is `inp ++ [false, true]` -/
theorem rel_base (inp : List Bool) (hn : 0 < inp.length) :
    Rel (inp.length + 2) (false :: true :: inp)
      (svalsFrom inp [.xor 0 0, .not inp.length]) := by
  have h1 : svalsFrom inp [.xor 0 0, .not inp.length] = inp ++ [false] ++ [true] := by
    simp only [svalsFrom, List.foldl_cons, List.foldl_nil, sstep, sgateVal, Bool.xor_self]
    rw [getD_append_len]; rfl
  rw [h1]
  refine ⟨by simp, by simp, rfl, rfl, ?_⟩
  intro w hw
  simp only [List.length_cons] at hw
  rcases Nat.lt_or_ge w 2 with h2 | h2
  · rw [fIdx_const (by omega)]
    rcases Nat.lt_or_ge w 1 with h0 | h1'
    · have : w = 0 := by omega
      subst this
      have e : 0 + (inp.length + 2 - 2) = (inp ++ [false]).length - 1 := by simp
      rw [List.getD_eq_getElem?_getD, List.getD_eq_getElem?_getD]
      rw [List.getElem?_append_left (by simp)]
      rw [List.getElem?_append_right (by simp)]
      simp
    · have : w = 1 := by omega
      subst this
      rw [List.getD_eq_getElem?_getD, List.getD_eq_getElem?_getD]
      rw [List.getElem?_append_right (by simp; omega)]
      have e : 1 + (inp.length + 2 - 2) - (inp ++ [false]).length = 0 := by simp; omega
      rw [e]; rfl
  · rw [fIdx_inp h2 (by omega)]
    obtain ⟨k, rfl⟩ : ∃ k, w = k + 2 := ⟨w - 2, by omega⟩
    have hk : k < inp.length := by omega
    rw [List.getD_eq_getElem?_getD, List.getD_eq_getElem?_getD]
    rw [List.getElem?_append_left (by simp; omega), List.getElem?_append_left (by simpa using hk)]
    simp

/-- **renumbering is sound**: the final circuit's wire `fIdx w` carries the builder's wire `w`. -/
theorem renumber_sound (inp : List Bool) (hn : 0 < inp.length) (gs : List BGate)
    (hwf : ∀ i g, gs[i]? = some g → opsLt g (inp.length + 2 + i)) :
    let shift := inp.length + 2
    let bv := valsFrom (false :: true :: inp) gs
    let sv := svalsFrom inp (.xor 0 0 :: .not (shift - 2) :: gs.map (convGate shift))
    sv.length = bv.length ∧ ∀ w, w < bv.length → sv.getD (fIdx shift w) false = bv.getD w false := by
  intro shift bv sv
  have base := rel_base inp hn
  have hs : 2 ≤ shift := by simp [shift]
  have := rel_fold hs gs _ _ base (by simpa [Nat.add_comm, Nat.add_left_comm, Nat.add_assoc] using hwf)
  have hsv : sv = svalsFrom (svalsFrom inp [.xor 0 0, .not inp.length]) (gs.map (convGate shift)) := by
    simp [sv, shift, svalsFrom]
  rw [hsv]
  exact ⟨this.len, this.map⟩

end Builder
end GV
