import GarbleVerif.Proofs.ArithIndex
import GarbleVerif.Proofs.BitAgg
/-! The mux tree and the mux chains of array accesses, on the wires of a well-typed array: they select / replace the
slice of the element at the index. -/
namespace GV
namespace Bit
open Src Arith

theorem bitsToNat_eq_toNat : ∀ (bs : List Bool), bitsToNat bs = toNat bs
  | [] => rfl
  | b :: bs => by rw [bitsToNat_cons, toNat_cons, bitsToNat_eq_toNat bs]

theorem bitsOf_eq_natToBits (n : Nat) : ∀ w, bitsOf n w = natToBits n w
  | 0 => rfl
  | w + 1 => by simp [bitsOf, natToBits, bitsOf_eq_natToBits n w]

theorem chunks_length (sz : Nat) : ∀ (n : Nat) (bs : List Bool), (chunks sz n bs).length = n
  | 0, _ => rfl
  | n + 1, bs => by simp [chunks, chunks_length sz n]

theorem chunks_sizes (sz : Nat) : ∀ (n : Nat) (bs : List Bool), bs.length = n * sz →
    ∀ a, a ∈ chunks sz n bs → a.length = sz
  | 0, _, _, a, h => by simp [chunks] at h
  | n + 1, bs, hl, a, h => by
    simp only [chunks, List.mem_cons] at h
    rcases h with rfl | h
    · rw [List.length_take, hl, Nat.succ_mul]; omega
    · exact chunks_sizes sz n (bs.drop sz) (by rw [List.length_drop, hl, Nat.succ_mul]; omega) a h

theorem chunks_get (sz : Nat) : ∀ (n : Nat) (bs : List Bool) (i : Nat), i < n →
    (chunks sz n bs)[i]? = some ((bs.drop (i * sz)).take sz)
  | 0, _, i, h => by omega
  | n + 1, bs, 0, _ => by simp [chunks]
  | n + 1, bs, i + 1, h => by
    simp only [chunks, List.getElem?_cons_succ]
    rw [chunks_get sz n (bs.drop sz) i (by omega), List.drop_drop, Nat.succ_mul]
    congr 3; omega

/-- **reading**: on the wires of an array of `n` elements the mux tree yields the wires of element `idx` -/
theorem index_sel (sz n : Nat) (abits ibits : List Bool) (hl : abits.length = n * sz) (h : toNat ibits < n) :
    selected sz (indexMux ibits (chunks sz n abits)) = (abits.drop (toNat ibits * sz)).take sz := by
  have hg := indexMux_get sz ibits (chunks sz n abits) (chunks_sizes sz n abits hl) (by rw [chunks_length]; exact h)
  rw [chunks_get sz n abits _ h] at hg
  cases hc : indexMux ibits (chunks sz n abits) with
  | nil => rw [hc] at hg; simp at hg
  | cons el rest => rw [hc] at hg; simpa [selected] using hg

/-- whatever the index: the tree yields `sz` wires -/
theorem index_sel_length (sz n : Nat) (abits ibits : List Bool) (hl : abits.length = n * sz) :
    (selected sz (indexMux ibits (chunks sz n abits))).length = sz := by
  cases hc : indexMux ibits (chunks sz n abits) with
  | nil => simp [selected]
  | cons el rest =>
    simp only [selected]
    exact indexMux_sizes sz ibits (chunks sz n abits) (chunks_sizes sz n abits hl) el (by rw [hc]; simp)

/-- **writing**: the mux chains replace the wires of element `idx` and keep all others -/
theorem writeAll_flat (sz : Nat) (idx sub : List Bool) (hs : sub.length = sz) :
    ∀ (n : Nat) (cur : List Bool) (i : Nat), cur.length = n * sz → i + n ≤ 2 ^ idx.length →
    (writeAll idx sub i (chunks sz n cur)).flatten =
      if i ≤ toNat idx ∧ toNat idx < i + n then
        cur.take ((toNat idx - i) * sz) ++ sub ++ cur.drop ((toNat idx - i) * sz + sz)
      else cur
  | 0, cur, i, hl, _ => by
    have : cur = [] := by
      apply List.eq_nil_of_length_eq_zero; simpa using hl
    subst this
    have : ¬ (i ≤ toNat idx ∧ toNat idx < i + 0) := by omega
    rw [if_neg this]
    simp [chunks, writeAll]
  | n + 1, cur, i, hl, hi => by
    have hlen : (cur.take sz).length = sub.length := by
      rw [List.length_take, hl, hs, Nat.succ_mul]; omega
    have hrest := writeAll_flat sz idx sub hs n (cur.drop sz) (i + 1)
      (by rw [List.length_drop, hl, Nat.succ_mul]; omega) (by omega)
    simp only [chunks, writeAll, List.flatten_cons]
    rw [zipWith_writeBit idx i (by omega) _ _ hlen, hrest]
    by_cases hk : toNat idx = i
    · have h1 : ¬ (i + 1 ≤ toNat idx ∧ toNat idx < i + 1 + n) := by omega
      have h2 : i ≤ toNat idx ∧ toNat idx < i + (n + 1) := by omega
      rw [if_pos hk, if_neg h1, if_pos h2, hk]
      simp
    · rw [if_neg hk]
      by_cases hin : i + 1 ≤ toNat idx ∧ toNat idx < i + 1 + n
      · have h2 : i ≤ toNat idx ∧ toNat idx < i + (n + 1) := by omega
        rw [if_pos hin, if_pos h2]
        have e : toNat idx - i = (toNat idx - (i + 1)) + 1 := by omega
        rw [e, Nat.succ_mul]
        have hsz : (cur.take sz).length = sz := by rw [hlen, hs]
        conv => rhs; rw [← List.take_append_drop sz cur]
        have hs2 : (toNat idx - (i + 1)) * sz + sz = sz + (toNat idx - (i + 1)) * sz := by omega
        have := splice_append (cur.take sz) (cur.drop sz) ((toNat idx - (i + 1)) * sz) sz sub
        rw [hsz] at this
        rw [hs2, this, Nat.add_comm ((toNat idx - (i + 1)) * sz) sz]
      · have h2 : ¬ (i ≤ toNat idx ∧ toNat idx < i + (n + 1)) := by omega
        rw [if_neg hin, if_neg h2, List.take_append_drop]

/-- the bounds check of an access: the unsigned comparator against the length -/
theorem index_lt (ibits : List Bool) (n : Nat) (hn : n < 2 ^ ibits.length) :
    (comparator ibits false (natToBits n ibits.length) false).1 = decide (bitsToNat ibits < n) := by
  rw [comparator_unsigned ibits _ (by rw [natToBits_length]), toNat_natToBits, Nat.mod_eq_of_lt hn, bitsToNat_eq_toNat]

end Bit
end GV
