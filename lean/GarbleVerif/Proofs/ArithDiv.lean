import GarbleVerif.Proofs.ArithMul
/-!
# The restoring divider (`push_unsigned_division_circuit`) computes quotient and remainder, all widths
-/
namespace GV
namespace Arith

theorem foldl_bOr_toNat (l : List Bool) : l.foldl bOr false = true ↔ 0 < toNat l := by
  induction l with
  | nil => simp [toNat_nil]
  | cons a l ih =>
    rw [List.foldl_cons, toNat_cons]
    cases a
    · simp only [bOr_eq, Bool.or_false, Bool.toNat_false, Nat.zero_mul, Nat.zero_add]
      exact ih
    · simp only [bOr_eq, Bool.false_or, foldl_bOr_true, Bool.toNat_true, Nat.one_mul, true_iff]
      have := Nat.two_pow_pos l.length
      omega

theorem toNat_take_drop (l : List Bool) (s : Nat) (h : s ≤ l.length) :
    toNat l = toNat (l.take s) * 2 ^ (l.length - s) + toNat (l.drop s) := by
  have := toNat_append (l.take s) (l.drop s)
  rw [List.take_append_drop, List.length_drop] at this
  exact this

theorem toNat_set (l : List Bool) : ∀ (i : Nat) (b : Bool), i < l.length → l[i]? = some false →
    toNat (l.set i b) = toNat l + b.toNat * 2 ^ (l.length - 1 - i) := by
  induction l with
  | nil => intro i b h; simp at h
  | cons a l ih =>
    intro i b h hf
    cases i with
    | zero =>
      simp only [List.getElem?_cons_zero, Option.some.injEq] at hf
      subst hf
      simp [toNat_cons]
      omega
    | succ i =>
      simp only [List.getElem?_cons_succ] at hf
      simp only [List.set_cons_succ, toNat_cons, List.length_set, List.length_cons]
      rw [ih i b (by simpa using h) hf]
      have : l.length + 1 - 1 - (i + 1) = l.length - 1 - i := by omega
      rw [this]; omega

theorem zip_mux (keep : Bool) (r d : List Bool) (h : r.length = d.length) :
    ((r.zip d).map fun (p : Bool × Bool) => mux keep p.1 p.2) = if keep then r else d := by
  induction r generalizing d with
  | nil => cases d <;> simp_all
  | cons a r ih =>
    cases d with
    | nil => simp at h
    | cons b d =>
      have := ih d (by simpa using h)
      cases keep <;> simp_all [mux_eq]

/-- what one step of the divider does, arithmetically -/
theorem udivStep_spec (y q r : List Bool) (s : Nat) (hs : s < y.length) (hq : q.length = y.length)
    (hr : r.length = y.length) (hqf : q[y.length - s - 1]? = some false) :
    let st := udivStep y (q, r) s
    st.1.length = y.length ∧ st.2.length = y.length ∧
    (∀ i, i ≠ y.length - s - 1 → st.1[i]? = q[i]?) ∧
    (if toNat y * 2 ^ s ≤ toNat r then
      toNat st.2 = toNat r - toNat y * 2 ^ s ∧ toNat st.1 = toNat q + 2 ^ s
     else toNat st.2 = toNat r ∧ toNat st.1 = toNat q) := by
  have hrl := toNat_lt r
  rw [hr] at hrl
  have hsplit := toNat_take_drop y s (by omega)
  have hov := foldl_bOr_toNat (y.take s)
  have hshl : (y.drop s ++ List.replicate s false).length = r.length := by
    simp [hr]; omega
  have hshv : toNat (y.drop s ++ List.replicate s false) = toNat (y.drop s) * 2 ^ s := by
    rw [toNat_append, toNat_replicate_false]; simp
  have hsub := sub_unsigned r (y.drop s ++ List.replicate s false) hshl.symm
  have hdl := toNat_lt (y.drop s)
  simp only [List.length_drop] at hdl
  have hpow : 2 ^ y.length = 2 ^ (y.length - s) * 2 ^ s := by
    rw [← Nat.pow_add]; congr 1; omega
  simp only [udivStep]
  generalize hsubr : sub r (y.drop s ++ List.replicate s false) false = sr at hsub
  obtain ⟨xSub, carry⟩ := sr
  simp only at hsub ⊢
  have hzl : r.length = xSub.length := hsub.2.2.symm
  rw [zip_mux _ r xSub hzl]
  refine ⟨by simp [hq], ?_, ?_, ?_⟩
  · split
    · exact hr
    · rw [← hzl, hr]
  · intro i hi
    rw [List.getElem?_set]
    rw [if_neg (by omega)]
  · have hidx : y.length - s - 1 < q.length := by omega
    have hset := toNat_set q (y.length - s - 1) (mux ((y.take s).foldl bOr false) false (!carry)) hidx hqf
    have hexp : q.length - 1 - (y.length - s - 1) = s := by omega
    rw [hexp] at hset
    rw [hset, mux_eq, bOr_eq]
    -- case analysis on the overflow of the shifted divisor
    cases hovf : (y.take s).foldl bOr false with
    | true =>
      have h1 : 0 < toNat (y.take s) := hov.mp hovf
      have hbig : 2 ^ y.length ≤ toNat y * 2 ^ s := by
        have : 2 ^ (y.length - s) ≤ toNat y := by
          rw [hsplit]
          have : 2 ^ (y.length - s) * 1 ≤ toNat (y.take s) * 2 ^ (y.length - s) := by
            rw [Nat.mul_comm]; exact Nat.mul_le_mul_right _ h1
          omega
        rw [hpow]; exact Nat.mul_le_mul_right _ this
      rw [if_neg (by omega)]
      simp
    | false =>
      have h0 : toNat (y.take s) = 0 := by
        have : ¬ 0 < toNat (y.take s) := fun h => by rw [hov.mpr h] at hovf; simp at hovf
        omega
      have hyv : toNat y = toNat (y.drop s) := by rw [hsplit, h0]; simp
      rw [hyv, ← hshv]
      simp only [Bool.or_false, Bool.false_eq_true, if_false]
      cases carry with
      | true =>
        have := hsub.1.mp rfl
        rw [if_neg (by omega)]
        simp
      | false =>
        have hnl : ¬ toNat r < toNat (y.drop s ++ List.replicate s false) := fun h => by
          have := hsub.1.mpr h; simp at this
        rw [if_pos (by omega)]
        simp [hsub.2.1 rfl]

/-- the divider after the steps for the shifts `k-1, …, 0`, started from a state in which the shifts
`≥ k` are done -/
theorem udiv_fold (y : List Bool) (X : Nat) : ∀ (k : Nat) (q r : List Bool), k ≤ y.length →
    q.length = y.length → r.length = y.length →
    (∀ i, y.length - k ≤ i → i < y.length → q[i]? = some false) →
    X = toNat q * toNat y + toNat r → toNat r < toNat y * 2 ^ k →
    let st := (List.range k).reverse.foldl (udivStep y) (q, r)
    X = toNat st.1 * toNat y + toNat st.2 ∧ toNat st.2 < toNat y ∧
      st.1.length = y.length ∧ st.2.length = y.length := by
  intro k
  induction k with
  | zero =>
    intro q r _ hq hr _ hX hlt
    simp only [Nat.pow_zero, Nat.mul_one] at hlt
    simpa using ⟨hX, hlt, hq, hr⟩
  | succ k ih =>
    intro q r hk hq hr hqf hX hlt
    rw [List.range_succ, List.reverse_append, List.reverse_singleton, List.singleton_append, List.foldl_cons]
    have hstep := udivStep_spec y q r k (by omega) hq hr (hqf _ (by omega) (by omega))
    generalize udivStep y (q, r) k = st at hstep
    obtain ⟨q', r'⟩ := st
    simp only at hstep
    obtain ⟨hq', hr', hsame, hval⟩ := hstep
    apply ih q' r' (by omega) hq' hr'
    · intro i h1 h2
      rw [hsame i (by omega)]
      exact hqf i (by omega) h2
    · split at hval
      · rename_i hle
        rw [hval.1, hval.2, Nat.add_mul, hX]
        have : 2 ^ k * toNat y = toNat y * 2 ^ k := Nat.mul_comm _ _
        omega
      · rw [hval.1, hval.2]; exact hX
    · rw [Nat.pow_succ] at hlt
      split at hval
      · rename_i hle
        rw [hval.1]
        have : toNat y * (2 ^ k * 2) = toNat y * 2 ^ k * 2 := by rw [Nat.mul_assoc]
        omega
      · rw [hval.1]; omega

theorem getElem?_replicate_false (n i : Nat) (h : i < n) : (List.replicate n false)[i]? = some false := by
  simp [h]

/-- **unsigned division, all widths**: for a non-zero divisor the divider returns the quotient and the
remainder of Euclidean division -/
theorem udiv_spec (x y : List Bool) (h : x.length = y.length) (hy : 0 < toNat y) :
    toNat x = toNat (udiv x y).1 * toNat y + toNat (udiv x y).2 ∧ toNat (udiv x y).2 < toNat y ∧
      (udiv x y).1.length = y.length ∧ (udiv x y).2.length = y.length := by
  unfold udiv
  rw [h]
  apply udiv_fold y (toNat x) y.length (List.replicate y.length false) x (Nat.le_refl _) (by simp) h
  · intro i _ hi; exact getElem?_replicate_false _ _ hi
  · rw [toNat_replicate_false]; simp
  · have hx := toNat_lt x
    rw [h] at hx
    have : 2 ^ y.length * 1 ≤ 2 ^ y.length * toNat y := Nat.mul_le_mul_left _ hy
    rw [Nat.mul_comm (toNat y)]
    omega

/-- quotient and remainder are `/` and `%` -/
theorem udiv_div_mod (x y : List Bool) (h : x.length = y.length) (hy : 0 < toNat y) :
    toNat (udiv x y).1 = toNat x / toNat y ∧ toNat (udiv x y).2 = toNat x % toNat y := by
  obtain ⟨h1, h2, _, _⟩ := udiv_spec x y h hy
  have hd : toNat x / toNat y = toNat (udiv x y).1 := by
    rw [h1, Nat.mul_comm, Nat.mul_add_div hy, Nat.div_eq_of_lt h2]; simp
  have hm : toNat x % toNat y = toNat (udiv x y).2 := by
    rw [h1, Nat.mul_comm, Nat.mul_add_mod, Nat.mod_eq_of_lt h2]
  exact ⟨hd.symm, hm.symm⟩

/-! ### signed division: divide the absolute values, then restore the signs -/

theorem toInt_of_lt (bs : List Bool) (n : Nat) (hl : bs.length = n + 1) (h : toNat bs < 2 ^ n) :
    toInt bs = toNat bs := by
  obtain ⟨a, rest, rfl, hr⟩ := exists_cons_of_length hl
  have := (head_iff a rest).mp
  cases a
  · simp [toInt]
  · have := this rfl; rw [hr] at this; omega

theorem toInt_of_ge (bs : List Bool) (n : Nat) (hl : bs.length = n + 1) (h : 2 ^ n ≤ toNat bs) :
    toInt bs = (toNat bs : Int) - (2 : Int) ^ (n + 1) := by
  obtain ⟨a, rest, rfl, hr⟩ := exists_cons_of_length hl
  have := (head_iff a rest).mpr (by rw [hr]; exact h)
  subst this
  simp [toInt, hr]

/-- negating a magnitude of at most `2^n` gives its negative, as an `n+1`-bit signed number -/
theorem toInt_neg_of_le (bs : List Bool) (n : Nat) (hl : bs.length = n + 1) (h : toNat bs ≤ 2 ^ n) :
    toInt (neg bs) = -(toNat bs : Int) := by
  have hv := neg_val bs
  have hnl : (neg bs).length = n + 1 := by rw [neg_length, hl]
  have hp : (2 : Nat) ^ (n + 1) = 2 * 2 ^ n := by rw [Nat.pow_succ]; omega
  by_cases h0 : toNat bs = 0
  · rw [if_pos h0] at hv
    rw [toInt_of_lt (neg bs) n hnl (by rw [hv]; exact Nat.two_pow_pos n), hv, h0]; simp
  · rw [if_neg h0, hl] at hv
    rw [toInt_of_ge (neg bs) n hnl (by omega), hv]
    have : ((2 ^ (n + 1) - toNat bs : Nat) : Int) = (2 : Int) ^ (n + 1) - (toNat bs : Int) := by
      have hle : toNat bs ≤ 2 ^ (n + 1) := by omega
      rw [Int.ofNat_sub hle]; simp
    rw [this]; omega

/-- the magnitude of a signed number, as the divider sees it -/
theorem abs_val (a : Bool) (rest : List Bool) :
    (toNat (if a then neg (a :: rest) else (a :: rest)) : Int) = (toInt (a :: rest)).natAbs := by
  have hr := toNat_lt rest
  cases a
  · simp only [Bool.false_eq_true, if_false, toInt_cons, toNat_cons, Bool.toNat_false]
    simp
  · simp only [if_true]
    have hv := neg_val (true :: rest)
    have hx : toNat (true :: rest) = 2 ^ rest.length + toNat rest := by simp [toNat_cons]
    have hp : (2 : Nat) ^ (rest.length + 1) = 2 * 2 ^ rest.length := by rw [Nat.pow_succ]; omega
    rw [if_neg (by rw [hx]; have := Nat.two_pow_pos rest.length; omega), hx] at hv
    simp only [List.length_cons] at hv
    rw [hv, toInt_cons]
    simp only [Bool.toNat_true, Int.natCast_one, Int.one_mul]
    have : ((2 : Int) ^ rest.length) = ((2 ^ rest.length : Nat) : Int) := by simp
    rw [this]
    omega

/-- magnitude and value of a signed number -/
theorem abs_cases (a : Bool) (rest : List Bool) :
    toNat (if a then neg (a :: rest) else (a :: rest)) ≤ 2 ^ rest.length ∧
    toInt (a :: rest) = (if a then -(toNat (if a then neg (a :: rest) else (a :: rest)) : Int)
      else (toNat (if a then neg (a :: rest) else (a :: rest)) : Int)) ∧
    (a = false → toNat (if a then neg (a :: rest) else (a :: rest)) < 2 ^ rest.length) := by
  have hr := toNat_lt rest
  cases a
  · simp only [Bool.false_eq_true, if_false, toInt_cons, toNat_cons, Bool.toNat_false]
    refine ⟨by omega, by simp, fun _ => by omega⟩
  · simp only [if_true]
    have hv := neg_val (true :: rest)
    have hx : toNat (true :: rest) = 2 ^ rest.length + toNat rest := by simp [toNat_cons]
    have hp : (2 : Nat) ^ (rest.length + 1) = 2 * 2 ^ rest.length := by rw [Nat.pow_succ]; omega
    rw [if_neg (by rw [hx]; have := Nat.two_pow_pos rest.length; omega), hx] at hv
    simp only [List.length_cons] at hv
    refine ⟨by omega, ?_, fun h => by simp at h⟩
    rw [hv, toInt_cons]
    simp only [Bool.toNat_true, Int.natCast_one, Int.one_mul]
    have : ((2 : Int) ^ rest.length) = ((2 ^ rest.length : Nat) : Int) := by simp
    rw [this]
    omega

theorem sdiv_unfold (x y : List Bool) :
    sdiv x y =
      let xa := if x.headD false then neg x else x
      let ya := if y.headD false then neg y else y
      let qr := udiv xa ya
      (if (x.headD false ^^ y.headD false) then neg qr.1 else qr.1, if x.headD false then neg qr.2 else qr.2) := by
  simp only [sdiv]
  rw [zip_mux _ _ _ (neg_length x), zip_mux _ _ _ (neg_length y)]
  rw [zip_mux _ _ _ (neg_length _), zip_mux _ _ _ (neg_length _)]

/-- **signed division, all widths** (`n + 1` bits): for a non-zero divisor, and except for `MIN / -1`
(which the compiled code reports as an overflow), the divider returns the quotient rounded towards zero
and the remainder with the sign of the dividend -/
theorem sdiv_spec' (a b : Bool) (x y : List Bool) (h : x.length = y.length) (hy : toInt (b :: y) ≠ 0) :
    (¬ (toInt (a :: x) = -(2 : Int) ^ x.length ∧ toInt (b :: y) = -1) →
      toInt (sdiv (a :: x) (b :: y)).1 = Int.tdiv (toInt (a :: x)) (toInt (b :: y))) ∧
    toInt (sdiv (a :: x) (b :: y)).2 = Int.tmod (toInt (a :: x)) (toInt (b :: y)) := by
  rw [sdiv_unfold]
  simp only [List.headD_cons]
  obtain ⟨hX, hxs, hXlt⟩ := abs_cases a x
  obtain ⟨hY, hys, _⟩ := abs_cases b y
  rw [← h] at hY
  generalize hxl : (if a = true then neg (a :: x) else a :: x) = xa at hX hxs hXlt ⊢
  generalize hyl : (if b = true then neg (b :: y) else b :: y) = ya at hY hys ⊢
  have hlxa : xa.length = x.length + 1 := by rw [← hxl]; split <;> simp [neg_length]
  have hlya : ya.length = x.length + 1 := by rw [← hyl]; split <;> simp [neg_length, h]
  have hypos : 0 < toNat ya := by
    have : (toNat ya : Int) ≠ 0 := by
      intro h0; apply hy; rw [hys, h0]; simp
    omega
  obtain ⟨hq, hr⟩ := udiv_div_mod xa ya (by rw [hlxa, hlya]) hypos
  obtain ⟨_, hrlt, hql, hrl⟩ := udiv_spec xa ya (by rw [hlxa, hlya]) hypos
  rw [hlya] at hql hrl
  have hqle : toNat (udiv xa ya).1 ≤ toNat xa := by rw [hq]; exact Nat.div_le_self _ _
  have hrlt' : toNat (udiv xa ya).2 < 2 ^ x.length := by omega
  constructor
  · -- quotient
    intro hmin
    have hmin' : ¬ (toInt (a :: x) = -((2 ^ x.length : Nat) : Int) ∧ toInt (b :: y) = -1) := by
      simpa using hmin
    clear hmin
    cases a <;> cases b <;> simp only [Bool.xor_self, Bool.xor_true, Bool.xor_false, Bool.not_true, Bool.not_false,
      Bool.false_eq_true, if_true, if_false] at hxs hys hxl hyl ⊢ <;>
      (try rw [hxl] at hxs) <;> (try rw [hyl] at hys) <;> rw [hxl, hyl]
    · -- + / +
      have hlt : toNat (udiv xa ya).1 < 2 ^ x.length := by
        have := hXlt rfl
        omega
      rw [toInt_of_lt _ x.length hql hlt, hq, hxs, hys, Int.ofNat_tdiv]
    · -- + / -
      rw [toInt_neg_of_le _ x.length hql (by omega), hq, hxs, hys, Int.tdiv_neg, Int.ofNat_tdiv]
    · -- - / +
      rw [toInt_neg_of_le _ x.length hql (by omega), hq, hxs, hys, Int.neg_tdiv, Int.ofNat_tdiv]
    · -- - / -
      have hlt : toNat (udiv xa ya).1 < 2 ^ x.length := by
        rw [hq]
        by_cases hy1 : toNat ya = 1
        · -- the divisor is -1: the dividend is not MIN
          have hne : toNat xa ≠ 2 ^ x.length := by
            intro he
            apply hmin'
            rw [hxs, hys, he, hy1]
            simp
          rw [hy1, Nat.div_one]; omega
        · have h2 : 2 ≤ toNat ya := by omega
          have : toNat xa / toNat ya ≤ toNat xa / 2 := Nat.div_le_div_left h2 (by omega)
          have hpos := Nat.two_pow_pos x.length
          omega
      rw [toInt_of_lt _ x.length hql hlt, hq, hxs, hys, Int.neg_tdiv, Int.tdiv_neg, Int.ofNat_tdiv]
      simp
  · -- remainder
    cases a <;> cases b <;> simp only [Bool.false_eq_true, if_true, if_false] at hxs hys hxl hyl ⊢ <;>
      (try rw [hxl] at hxs) <;> (try rw [hyl] at hys) <;> rw [hxl, hyl]
    · rw [toInt_of_lt _ x.length hrl hrlt', hr, hxs, hys, Int.ofNat_tmod]
    · rw [toInt_of_lt _ x.length hrl hrlt', hr, hxs, hys, Int.tmod_neg, Int.ofNat_tmod]
    · rw [toInt_neg_of_le _ x.length hrl (by omega), hr, hxs, hys, Int.neg_tmod, Int.ofNat_tmod]
    · rw [toInt_neg_of_le _ x.length hrl (by omega), hr, hxs, hys, Int.neg_tmod, Int.tmod_neg, Int.ofNat_tmod]

theorem sdiv_spec (a b : Bool) (x y : List Bool) (h : x.length = y.length) (hy : toInt (b :: y) ≠ 0)
    (hmin : ¬ (toInt (a :: x) = -(2 : Int) ^ x.length ∧ toInt (b :: y) = -1)) :
    toInt (sdiv (a :: x) (b :: y)).1 = Int.tdiv (toInt (a :: x)) (toInt (b :: y)) ∧
    toInt (sdiv (a :: x) (b :: y)).2 = Int.tmod (toInt (a :: x)) (toInt (b :: y)) :=
  ⟨(sdiv_spec' a b x y h hy).1 hmin, (sdiv_spec' a b x y h hy).2⟩

end Arith
end GV
