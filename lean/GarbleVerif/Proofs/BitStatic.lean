import GarbleVerif.Proofs.BitWidth
/-!
# Whether the compiler model covers a program does not depend on the inputs

`Bit.bitExpr` / `bitStmts` / … return `none` for a program outside the model (an ill-typed one in particular). This file
shows that this verdict, and the type of the result, depend only on the *types* of the variables in scope, never on the
wires they carry: if the model is defined from one environment, it is defined — with the same result type and the same
variables afterwards — from every environment of the same shape. `Bit.fnTyped` (the model run on all-zero wires) is
therefore a typing judgement.
-/
namespace GV
namespace Bit
open Src Arith

/-- the same variables of the same types, all with as many wires as their types have bits -/
def SameSh (b1 b2 : BEnv) : Prop := shape b1 = shape b2 ∧ WFB b1 ∧ WFB b2

theorem SameSh.refl {b : BEnv} (h : WFB b) : SameSh b b := ⟨rfl, h, h⟩

/-- what is assumed of calls: whether a call is inside the model, and its result type, depend on the argument types only -/
def CallStatic (call : Ctx) : Prop :=
  ∀ fn a1 a2 t bs p, call.fn fn a1 = some (t, bs, p) → a1.map (·.1) = a2.map (·.1) → ArgsWF a1 → ArgsWF a2 →
    ∃ bs2 p2, call.fn fn a2 = some (t, bs2, p2)

theorem of_map4 {α β γ δ : Type} {o : Option (α × β × γ × δ)} {t : α} (h : o.map (·.1) = some t) :
    ∃ x p e, o = some (t, x, p, e) := by
  cases o with
  | none => simp at h
  | some v => obtain ⟨a, x, p, e⟩ := v; simp only [Option.map_some, Option.some.injEq] at h; subst h; exact ⟨x, p, e, rfl⟩

theorem len1 {x : List Bool} (h : x.length = 1) : ∃ b, x = [b] := by
  match x, h with
  | [b], _ => exact ⟨b, rfl⟩

theorem SameSh.afterE {call : Ctx} (hc : CallWF call) {e : Expr} {b1 b2 : BEnv} {t : VTy} {x1 x2 : List Bool} {p1 p2 : P}
    {e1 e2 : BEnv} (h1 : bitExpr call b1 e = some (t, x1, p1, e1)) (h2 : bitExpr call b2 e = some (t, x2, p2, e2))
    (hs : SameSh b1 b2) : SameSh e1 e2 ∧ x1.length = t.toTy.size ∧ x2.length = t.toTy.size := by
  have w1 := widthE call hc e _ _ _ _ _ h1 hs.2.1
  have w2 := widthE call hc e _ _ _ _ _ h2 hs.2.2
  exact ⟨⟨by rw [shapeE call e _ _ _ _ _ h1, shapeE call e _ _ _ _ _ h2, hs.1], w1.2, w2.2⟩, w1.1, w2.1⟩

theorem SameSh.get {b1 b2 : BEnv} (hs : SameSh b1 b2) {x : String} {t : VTy} {bs : List Bool}
    (hg : b1.get? x = some (t, bs)) : ∃ bs2, b2.get? x = some (t, bs2) :=
  get?_of_shape' hs.1.symm hg

theorem SameSh.mux {a1 b1 a2 b2 : BEnv} (c1 c2 : Bool) (ha : SameSh a1 a2) (hb : SameSh b1 b2) (h1 : shape a1 = shape b1) :
    SameSh (muxEnv c1 a1 b1) (muxEnv c2 a2 b2) := by
  have h2 : shape a2 = shape b2 := by rw [← ha.1, h1, hb.1]
  exact ⟨by rw [shape_muxEnv _ _ _ h1, shape_muxEnv _ _ _ h2, ha.1], WFB.mux _ _ _ h1 ha.2.1 hb.2.1, WFB.mux _ _ _ h2 ha.2.2 hb.2.2⟩

theorem shape_cons' (x : String) (t : VTy) (bs : List Bool) (b : BEnv) : shape ((x, t, bs) :: b) = (x, t) :: shape b := rfl

theorem SameSh.cons {b1 b2 : BEnv} (hs : SameSh b1 b2) (x : String) (t : VTy) {w1 w2 : List Bool}
    (h1 : w1.length = t.toTy.size) (h2 : w2.length = t.toTy.size) : SameSh ((x, t, w1) :: b1) ((x, t, w2) :: b2) :=
  ⟨by rw [shape_cons', shape_cons', hs.1], WFB.cons h1 hs.2.1, WFB.cons h2 hs.2.2⟩

theorem SameSh.append {a1 a2 b1 b2 : BEnv} (ha : SameSh a1 a2) (hb : SameSh b1 b2) : SameSh (a1 ++ b1) (a2 ++ b2) :=
  ⟨by rw [shape_append, shape_append, ha.1, hb.1], ha.2.1.append hb.2.1, ha.2.2.append hb.2.2⟩

theorem SameSh.drop {b1 b2 : BEnv} (hs : SameSh b1 b2) (n : Nat) : SameSh (b1.drop n) (b2.drop n) :=
  ⟨by rw [shape_drop, shape_drop, hs.1], hs.2.1.drop n, hs.2.2.drop n⟩

theorem SameSh.length {b1 b2 : BEnv} (hs : SameSh b1 b2) : b1.length = b2.length := by
  rw [← shape_length, ← shape_length, hs.1]

theorem SameSh.restore {o1 o2 i1 i2 : BEnv} (ho : SameSh o1 o2) (hi : SameSh i1 i2) : SameSh (restoreB o1 i1) (restoreB o2 i2) := by
  unfold restoreB
  rw [ho.length, hi.length]
  exact hi.drop _

theorem SameSh.set {b1 b2 : BEnv} (hs : SameSh b1 b2) (x : String) (t : VTy) {o1 o2 w1 w2 : List Bool}
    (g1 : b1.get? x = some (t, o1)) (g2 : b2.get? x = some (t, o2))
    (h1 : w1.length = t.toTy.size) (h2 : w2.length = t.toTy.size) : SameSh (b1.set x w1) (b2.set x w2) :=
  ⟨by rw [shape_set, shape_set, hs.1], hs.2.1.set x t o1 w1 g1 h1, hs.2.2.set x t o2 w2 g2 h2⟩

/-! ### operators and patterns -/

theorem binBits_static {op : Src.BinOp} {t : STy} {x y : List Bool} {tr : STy} {r : List Bool}
    {ps : List (Bool × Arith.PanicKind)} (h : binBits op t x y = some (tr, r, ps)) (x2 y2 : List Bool) :
    ∃ r2 ps2, binBits op t x2 y2 = some (tr, r2, ps2) := by
  cases op <;> cases t <;> simp [binBits] at h ⊢ <;> exact h.1

theorem of_mapP {o : Option (Bool × BEnv)} {s : List (String × VTy)} (h : o.map (fun r => shape r.2) = some s) :
    ∃ m bb, o = some (m, bb) ∧ shape bb = s := by
  cases o with
  | none => simp at h
  | some v => obtain ⟨m, bb⟩ := v; simp only [Option.map_some, Option.some.injEq] at h; exact ⟨m, bb, rfl, h⟩

mutual
/-- whether a pattern applies to a type, and what it binds, does not depend on the wires -/
theorem patG_static : ∀ (p : Pat) (t : Ty) (bs1 bs2 : List Bool) (m1 : Bool) (bb1 : BEnv), bs1.length = bs2.length →
    patG p t bs1 = some (m1, bb1) → (patG p t bs2).map (fun r => shape r.2) = some (shape bb1)
  | .ident x, t, bs1, bs2, m1, bb1, _, h => by
    simp only [patG, Option.some.injEq, Prod.mk.injEq] at h ⊢
    obtain ⟨_, rfl⟩ := h
    simp [shape]
  | .tuple ps, .tuple ts, bs1, bs2, m1, bb1, hl, h => by
    simp only [patG] at h ⊢
    exact patsG_static ps ts bs1 bs2 m1 bb1 hl h
  | .struct _ fps, .struct _ fs, bs1, bs2, m1, bb1, hl, h => by
    simp only [patG] at h ⊢
    exact fieldsG_static fps fs bs1 bs2 m1 bb1 hl h
  | .enumTuple _ v ps, .enum _ variants, bs1, bs2, m1, bb1, hl, h => by
    cases hf : variants.find? v with
    | none => simp [patG, hf] at h
    | some r =>
      obtain ⟨i, u, fts⟩ := r
      simp only [patG, hf] at h ⊢
      split at h
      · rename_i m2 bb2 hp
        simp only [Option.some.injEq, Prod.mk.injEq] at h
        obtain ⟨_, rfl⟩ := h
        obtain ⟨m2', bb2', e2, s2⟩ := of_mapP (patsG_static ps fts _ (bs2.drop variants.tagSize) m2 bb2 (by simp [hl]) hp)
        simp [e2, s2]
      · simp at h
  | .enumUnit _ v, .enum _ variants, bs1, bs2, m1, bb1, _, h => by
    cases hf : variants.find? v with
    | none => simp [patG, hf] at h
    | some r =>
      obtain ⟨i, u, fts⟩ := r
      simp only [patG, hf, Option.some.injEq, Prod.mk.injEq] at h ⊢
      obtain ⟨_, rfl⟩ := h
      simp
  | .bool b, .bool, bs1, bs2, m1, bb1, hl, h => by
    match bs1, bs2, hl, h with
    | [a], [c], _, h =>
      cases b <;> simp only [patG, patBits, Option.some.injEq, Prod.mk.injEq] at h ⊢ <;> (obtain ⟨_, rfl⟩ := h; simp)
    | [], _, _, h => cases b <;> simp [patG, patBits] at h
    | _ :: _ :: _, _, _, h => cases b <;> simp [patG, patBits] at h
    | [_], [], hl, _ => simp at hl
    | [_], _ :: _ :: _, hl, _ => simp at hl
  | .int n, .int k, bs1, bs2, m1, bb1, _, h => by
    by_cases hr : k.inRange n = true
    · simp only [patG, patBits, hr, if_true, Option.some.injEq, Prod.mk.injEq] at h ⊢
      obtain ⟨_, rfl⟩ := h
      simp
    · simp [patG, patBits, hr] at h
  | .range lo hi, .int k, bs1, bs2, m1, bb1, _, h => by
    by_cases hr : k.inRange lo = true ∧ k.inRange hi = true
    · simp only [patG, patBits, hr, and_self, if_true, Option.some.injEq, Prod.mk.injEq] at h ⊢
      obtain ⟨_, rfl⟩ := h
      simp
    · simp [patG, patBits, hr] at h
  | .tuple _, .bool, _, _, _, _, _, h | .tuple _, .int _, _, _, _, _, _, h | .tuple _, .array _ _, _, _, _, _, _, h
  | .tuple _, .struct _ _, _, _, _, _, _, h | .tuple _, .enum _ _, _, _, _, _, _, h => by simp [patG] at h
  | .struct _ _, .bool, _, _, _, _, _, h | .struct _ _, .int _, _, _, _, _, _, h | .struct _ _, .array _ _, _, _, _, _, _, h
  | .struct _ _, .tuple _, _, _, _, _, _, h | .struct _ _, .enum _ _, _, _, _, _, _, h => by simp [patG] at h
  | .enumTuple _ _ _, .bool, _, _, _, _, _, h | .enumTuple _ _ _, .int _, _, _, _, _, _, h
  | .enumTuple _ _ _, .array _ _, _, _, _, _, _, h | .enumTuple _ _ _, .tuple _, _, _, _, _, _, h
  | .enumTuple _ _ _, .struct _ _, _, _, _, _, _, h => by simp [patG] at h
  | .enumUnit _ _, .bool, _, _, _, _, _, h | .enumUnit _ _, .int _, _, _, _, _, _, h | .enumUnit _ _, .array _ _, _, _, _, _, _, h
  | .enumUnit _ _, .tuple _, _, _, _, _, _, h | .enumUnit _ _, .struct _ _, _, _, _, _, _, h => by simp [patG] at h
  | .bool _, .int _, _, _, _, _, _, h | .bool _, .array _ _, _, _, _, _, _, h | .bool _, .tuple _, _, _, _, _, _, h
  | .bool _, .struct _ _, _, _, _, _, _, h | .bool _, .enum _ _, _, _, _, _, _, h => by simp [patG] at h
  | .int _, .bool, _, _, _, _, _, h | .int _, .array _ _, _, _, _, _, _, h | .int _, .tuple _, _, _, _, _, _, h
  | .int _, .struct _ _, _, _, _, _, _, h | .int _, .enum _ _, _, _, _, _, _, h => by simp [patG] at h
  | .range _ _, .bool, _, _, _, _, _, h | .range _ _, .array _ _, _, _, _, _, _, h | .range _ _, .tuple _, _, _, _, _, _, h
  | .range _ _, .struct _ _, _, _, _, _, _, h | .range _ _, .enum _ _, _, _, _, _, _, h => by simp [patG] at h
theorem patsG_static : ∀ (ps : PatList) (ts : TyList) (bs1 bs2 : List Bool) (m1 : Bool) (bb1 : BEnv), bs1.length = bs2.length →
    patsG ps ts bs1 = some (m1, bb1) → (patsG ps ts bs2).map (fun r => shape r.2) = some (shape bb1)
  | .nil, .nil, _, _, m1, bb1, _, h => by
    simp only [patsG, Option.some.injEq, Prod.mk.injEq] at h ⊢; obtain ⟨_, rfl⟩ := h; simp
  | .nil, .cons _ _, _, _, _, _, _, h => by simp [patsG] at h
  | .cons _ _, .nil, _, _, _, _, _, h => by simp [patsG] at h
  | .cons p ps, .cons t ts, bs1, bs2, m1, bb1, hl, h => by
    simp only [patsG] at h ⊢
    split at h
    · rename_i ma ba mb bbb h1 h2
      simp only [Option.some.injEq, Prod.mk.injEq] at h
      obtain ⟨_, rfl⟩ := h
      obtain ⟨ma', ba', e1, s1⟩ := of_mapP (patG_static p t _ (bs2.take t.size) ma ba (by simp [hl]) h1)
      obtain ⟨mb', bb', e2, s2⟩ := of_mapP (patsG_static ps ts _ (bs2.drop t.size) mb bbb (by simp [hl]) h2)
      simp [e1, e2, shape_append, s1, s2]
    · simp at h
theorem fieldsG_static : ∀ (fps : FieldPats) (fs : Fields) (bs1 bs2 : List Bool) (m1 : Bool) (bb1 : BEnv), bs1.length = bs2.length →
    fieldsG fps fs bs1 = some (m1, bb1) → (fieldsG fps fs bs2).map (fun r => shape r.2) = some (shape bb1)
  | .nil, _, _, _, m1, bb1, _, h => by
    simp only [fieldsG, Option.some.injEq, Prod.mk.injEq] at h ⊢; obtain ⟨_, rfl⟩ := h; simp
  | .cons n p r, fs, bs1, bs2, m1, bb1, hl, h => by
    cases hn : Fields.nth? fs n with
    | none => simp [fieldsG, hn] at h
    | some v =>
      obtain ⟨off, ti⟩ := v
      simp only [fieldsG, hn] at h ⊢
      split at h
      · rename_i ma ba mb bbb h1 h2
        simp only [Option.some.injEq, Prod.mk.injEq] at h
        obtain ⟨_, rfl⟩ := h
        obtain ⟨ma', ba', e1, s1⟩ := of_mapP (patG_static p ti _ ((bs2.drop off).take ti.size) ma ba (by simp [hl]) h1)
        obtain ⟨mb', bb', e2, s2⟩ := of_mapP (fieldsG_static r fs bs1 bs2 mb bbb hl h2)
        simp [e1, e2, shape_append, s1, s2]
      · simp at h
end

theorem of_mapL {o : Option (List (VTy × List Bool) × P × BEnv)} {tys : List VTy}
    (h : o.map (fun r => r.1.map (·.1)) = some tys) : ∃ vs p e, o = some (vs, p, e) ∧ vs.map (·.1) = tys := by
  cases o with
  | none => simp at h
  | some v => obtain ⟨vs, p, e⟩ := v; simp only [Option.map_some, Option.some.injEq] at h; exact ⟨vs, p, e, rfl, h⟩

theorem of_mapF {o : Option (List (String × VTy × List Bool) × P × BEnv)} {tys : List (String × VTy)}
    (h : o.map (fun r => r.1.map (fun x => (x.1, x.2.1))) = some tys) :
    ∃ vs p e, o = some (vs, p, e) ∧ vs.map (fun x => (x.1, x.2.1)) = tys := by
  cases o with
  | none => simp at h
  | some v => obtain ⟨vs, p, e⟩ := v; simp only [Option.map_some, Option.some.injEq] at h; exact ⟨vs, p, e, rfl, h⟩

theorem of_mapS {o : Option (VTy × List Bool × P × BEnv)} {t : VTy} {sh : List (String × VTy)}
    (h : o.map (fun r => (r.1, shape r.2.2.2)) = some (t, sh)) : ∃ x p e, o = some (t, x, p, e) ∧ shape e = sh := by
  cases o with
  | none => simp at h
  | some v =>
    obtain ⟨a, x, p, e⟩ := v
    simp only [Option.map_some, Option.some.injEq, Prod.mk.injEq] at h
    obtain ⟨rfl, h2⟩ := h
    exact ⟨x, p, e, rfl, h2⟩

theorem SameSh.afterL {call : Ctx} (hc : CallWF call) {es : ExprList} {b1 b2 : BEnv} {v1 v2 : List (VTy × List Bool)} {p1 p2 : P}
    {e1 e2 : BEnv} (h1 : bitList call b1 es = some (v1, p1, e1)) (h2 : bitList call b2 es = some (v2, p2, e2))
    (hs : SameSh b1 b2) : SameSh e1 e2 ∧ ArgsWF v1 ∧ ArgsWF v2 := by
  have w1 := widthL call hc es _ _ _ _ h1 hs.2.1
  have w2 := widthL call hc es _ _ _ _ h2 hs.2.2
  exact ⟨⟨by rw [shapeL call es _ _ _ _ h1, shapeL call es _ _ _ _ h2, hs.1], w1.2, w2.2⟩, w1.1, w2.1⟩

theorem SameSh.afterF {call : Ctx} (hc : CallWF call) {fs : FieldExprs} {b1 b2 : BEnv} {v1 v2 : List (String × VTy × List Bool)}
    {p1 p2 : P} {e1 e2 : BEnv} (h1 : bitFields call b1 fs = some (v1, p1, e1)) (h2 : bitFields call b2 fs = some (v2, p2, e2))
    (hs : SameSh b1 b2) : SameSh e1 e2 := by
  have w1 := widthF call hc fs _ _ _ _ h1 hs.2.1
  have w2 := widthF call hc fs _ _ _ _ h2 hs.2.2
  exact ⟨by rw [shapeF call fs _ _ _ _ h1, shapeF call fs _ _ _ _ h2, hs.1], w1.2, w2.2⟩

theorem SameSh.afterSS {call : Ctx} (hc : CallWF call) {ss : StmtList} {b1 b2 : BEnv} {t : VTy} {x1 x2 : List Bool} {p1 p2 : P}
    {e1 e2 : BEnv} (h1 : bitStmts call b1 ss = some (t, x1, p1, e1)) (h2 : bitStmts call b2 ss = some (t, x2, p2, e2))
    (hs : SameSh b1 b2) (hsh : shape e2 = shape e1) : SameSh e1 e2 :=
  ⟨hsh.symm, (widthSS call hc ss _ _ _ _ _ h1 hs.2.1).2, (widthSS call hc ss _ _ _ _ _ h2 hs.2.2).2⟩

theorem SameSh.afterS {call : Ctx} (hc : CallWF call) {s : Stmt} {b1 b2 : BEnv} {t : VTy} {x1 x2 : List Bool} {p1 p2 : P}
    {e1 e2 : BEnv} (h1 : bitStmt call b1 s = some (t, x1, p1, e1)) (h2 : bitStmt call b2 s = some (t, x2, p2, e2))
    (hs : SameSh b1 b2) (hsh : shape e2 = shape e1) : SameSh e1 e2 :=
  ⟨hsh.symm, (widthS call hc s _ _ _ _ _ h1 hs.2.1).2, (widthS call hc s _ _ _ _ _ h2 hs.2.2).2⟩

theorem aggEq_static {op : Src.BinOp} {ty : Ty} {ra ra2 : Option (VTy × List Bool × P × BEnv)}
    {rb rb2 : BEnv → Option (VTy × List Bool × P × BEnv)} {t : VTy} {bs : List Bool} {p : P} {benv' : BEnv}
    (h : aggEq op ty ra rb = some (t, bs, p, benv'))
    (ha : ∀ t x p e, ra = some (t, x, p, e) → ∃ x2 p2 e2, ra2 = some (t, x2, p2, e2) ∧
      ∀ t' y q e', rb e = some (t', y, q, e') → (rb2 e2).map (·.1) = some t') :
    (aggEq op ty ra2 rb2).map (·.1) = some t := by
  unfold aggEq at h ⊢
  split at h
  · rename_i hop
    split at h
    · rename_i ta x p1 env1
      split at h
      · rename_i tb y p2 env2 hrb
        split at h
        · rename_i htt
          simp only [Option.some.injEq, Prod.mk.injEq] at h
          obtain ⟨rfl, _, _, _⟩ := h
          obtain ⟨x2, q1, e2, hra2, hb⟩ := ha _ _ _ _ rfl
          obtain ⟨y2, q2, e3, hrb2⟩ := of_map4 (hb _ _ _ _ hrb)
          simp [hop, hra2, hrb2, htt]
        · simp at h
      · simp at h
    · simp at h
  · simp at h

set_option maxHeartbeats 1600000 in
mutual
theorem staticE (call : Ctx) (hc : CallWF call) (hd : CallStatic call) : (e : Expr) → ∀ (b1 b2 : BEnv) (t : VTy) (bs : List Bool)
    (p : P) (b1' : BEnv), bitExpr call b1 e = some (t, bs, p, b1') → SameSh b1 b2 → (bitExpr call b2 e).map (·.1) = some t
  | .bool b, b1, b2, t, bs, p, b1', h, _ => by
    simp only [bitExpr, Option.some.injEq, Prod.mk.injEq] at h ⊢; obtain ⟨rfl, _⟩ := h; rfl
  | .int n k, b1, b2, t, bs, p, b1', h, _ => by
    simp only [bitExpr] at h ⊢
    split at h
    · rename_i hr
      simp only [Option.some.injEq, Prod.mk.injEq] at h; obtain ⟨rfl, _⟩ := h
      simp [hr]
    · simp at h
  | .var x, b1, b2, t, bs, p, b1', h, hs => by
    simp only [bitExpr] at h ⊢
    split at h
    · rename_i t' bs' hg
      simp only [Option.some.injEq, Prod.mk.injEq] at h; obtain ⟨rfl, _⟩ := h
      obtain ⟨bs2, hg2⟩ := hs.get hg
      simp [hg2]
    · simp at h
  | .un op ty a, b1, b2, t, bs, p, b1', h, hs => by
    cases op with
    | not =>
      cases ty <;> simp only [bitExpr] at h ⊢
      case bool =>
        split at h
        · rename_i b p1 env1 ha
          simp only [Option.some.injEq, Prod.mk.injEq] at h; obtain ⟨rfl, _⟩ := h
          obtain ⟨x2, q1, e1, ha2⟩ := of_map4 (staticE call hc hd a _ b2 _ _ _ _ ha hs)
          obtain ⟨c, rfl⟩ := len1 (by simpa [VTy.toTy, STy.toTy, Ty.size] using (hs.afterE hc ha ha2).2.2)
          simp [ha2]
        · simp at h
      case int k =>
        split at h
        · rename_i k' bs' p1 env1 ha
          split at h
          · rename_i hk
            subst hk
            simp only [Option.some.injEq, Prod.mk.injEq] at h; obtain ⟨rfl, _⟩ := h
            obtain ⟨x2, q1, e1, ha2⟩ := of_map4 (staticE call hc hd a _ b2 _ _ _ _ ha hs)
            simp [ha2]
          · simp at h
        · simp at h
      all_goals (simp at h)
    | neg =>
      cases ty <;> simp only [bitExpr] at h ⊢
      case int k =>
        split at h
        · rename_i hsg
          split at h
          · rename_i k' bs' p1 env1 ha
            split at h
            · rename_i hk
              subst hk
              simp only [Option.some.injEq, Prod.mk.injEq] at h; obtain ⟨rfl, _⟩ := h
              obtain ⟨x2, q1, e1, ha2⟩ := of_map4 (staticE call hc hd a _ b2 _ _ _ _ ha hs)
              simp [ha2, hsg]
            · simp at h
          · simp at h
        · simp at h
      all_goals (simp at h)
  | .cast src dst a, b1, b2, t, bs, p, b1', h, hs => by
    simp only [bitExpr] at h ⊢
    split at h
    · rename_i ts td hsrc hdst
      split at h
      · rename_i ta x p1 env1 ha
        split at h
        · rename_i hta
          subst hta
          simp only [Option.some.injEq, Prod.mk.injEq] at h; obtain ⟨rfl, _⟩ := h
          obtain ⟨x2, q1, e1, ha2⟩ := of_map4 (staticE call hc hd a _ b2 _ _ _ _ ha hs)
          simp [ha2]
        · simp at h
      · simp at h
    · simp at h
  | .ite c tb fb, b1, b2, t, bs, p, b1', h, hs => by
    simp only [bitExpr] at h ⊢
    split at h
    · rename_i cb pc env1 hcnd
      split at h
      · rename_i tt tbits pt envT tf fbits pf envF hT hF
        split at h
        · rename_i htt
          subst htt
          simp only [Option.some.injEq, Prod.mk.injEq] at h; obtain ⟨rfl, _⟩ := h
          obtain ⟨c2, q1, e1, hc2⟩ := of_map4 (staticE call hc hd c _ b2 _ _ _ _ hcnd hs)
          have hs1 := hs.afterE hc hcnd hc2
          obtain ⟨cb2, rfl⟩ := len1 (by simpa [VTy.toTy, STy.toTy, Ty.size] using hs1.2.2)
          obtain ⟨x2, q2, e2, hT2⟩ := of_map4 (staticE call hc hd tb _ e1 _ _ _ _ hT hs1.1)
          obtain ⟨y2, q3, e3, hF2⟩ := of_map4 (staticE call hc hd fb _ e1 _ _ _ _ hF hs1.1)
          simp [hc2, hT2, hF2]
        · simp at h
      · simp at h
    · simp at h
  | .block ss, b1, b2, t, bs, p, b1', h, hs => by
    simp only [bitExpr] at h ⊢
    split at h
    · rename_i t' bs' p' env1 hss
      simp only [Option.some.injEq, Prod.mk.injEq] at h; obtain ⟨rfl, _⟩ := h
      obtain ⟨x2, q1, e1, hss2, _⟩ := of_mapS (staticSS call hc hd ss _ b2 _ _ _ _ hss hs)
      simp [hss2]
    · simp at h
  | .bin op ty a b, b1, b2, t, bs, p, b1', h, hs => by
    -- the shared tail: strict operators and `==` on aggregates
    have strict : ∀ (h : (match STy.ofTy ty with
          | none => aggEq op ty (bitExpr call b1 a) (fun env1 => bitExpr call env1 b)
          | some t =>
            match bitExpr call b1 a with
            | some (.s ta, x, p1, env1) =>
              match bitExpr call env1 b with
              | some (.s tb, y, p2, env2) =>
                if ta = t ∧ tb = t then
                  match binBits op t x y with
                  | some (tr, r, panics) => some (.s tr, r, seqP p1 (seqP p2 (firstOf panics)), env2)
                  | none => none
                else none
              | _ => none
            | _ => none) = some (t, bs, p, b1')),
        (match STy.ofTy ty with
          | none => aggEq op ty (bitExpr call b2 a) (fun env1 => bitExpr call env1 b)
          | some t =>
            match bitExpr call b2 a with
            | some (.s ta, x, p1, env1) =>
              match bitExpr call env1 b with
              | some (.s tb, y, p2, env2) =>
                if ta = t ∧ tb = t then
                  match binBits op t x y with
                  | some (tr, r, panics) => some (.s tr, r, seqP p1 (seqP p2 (firstOf panics)), env2)
                  | none => none
                else none
              | _ => none
            | _ => none).map (fun (r : VTy × List Bool × P × BEnv) => r.1) = some t := by
      intro h
      cases hty : STy.ofTy ty with
      | none =>
        simp only [hty] at h ⊢
        refine aggEq_static h ?_
        intro ta x p1 e1 hra
        obtain ⟨x2, q1, e2, ha2⟩ := of_map4 (staticE call hc hd a _ b2 _ _ _ _ hra hs)
        refine ⟨x2, q1, e2, ha2, ?_⟩
        intro t' y q e' hrb
        exact staticE call hc hd b _ e2 _ _ _ _ hrb (hs.afterE hc hra ha2).1
      | some st =>
        simp only [hty] at h ⊢
        split at h
        · rename_i ta x p1 env1 ha
          split at h
          · rename_i tb y p2 env2 hb
            split at h
            · rename_i hts
              obtain ⟨rfl, rfl⟩ := hts
              split at h
              · rename_i tr r panics hbin
                simp only [Option.some.injEq, Prod.mk.injEq] at h; obtain ⟨rfl, _⟩ := h
                obtain ⟨x2, q1, e1, ha2⟩ := of_map4 (staticE call hc hd a _ b2 _ _ _ _ ha hs)
                obtain ⟨y2, q2, e2, hb2⟩ := of_map4 (staticE call hc hd b _ e1 _ _ _ _ hb (hs.afterE hc ha ha2).1)
                obtain ⟨r2, ps2, hbin2⟩ := binBits_static hbin x2 y2
                simp [ha2, hb2, hbin2]
              · simp at h
            · simp at h
          · simp at h
        · simp at h
    cases op
    case land =>
      simp only [bitExpr] at h ⊢
      split at h
      · rename_i x p1 env1 ha
        split at h
        · rename_i y p2 env2 hb
          simp only [Option.some.injEq, Prod.mk.injEq] at h; obtain ⟨rfl, _⟩ := h
          obtain ⟨x2, q1, e1, ha2⟩ := of_map4 (staticE call hc hd a _ b2 _ _ _ _ ha hs)
          have hs1 := hs.afterE hc ha ha2
          obtain ⟨xb, rfl⟩ := len1 (by simpa [VTy.toTy, STy.toTy, Ty.size] using hs1.2.2)
          obtain ⟨y2, q2, e2, hb2⟩ := of_map4 (staticE call hc hd b _ e1 _ _ _ _ hb hs1.1)
          obtain ⟨yb, rfl⟩ := len1 (by simpa [VTy.toTy, STy.toTy, Ty.size] using (hs1.1.afterE hc hb hb2).2.2)
          simp [ha2, hb2]
        · simp at h
      · simp at h
    case lor =>
      simp only [bitExpr] at h ⊢
      split at h
      · rename_i x p1 env1 ha
        split at h
        · rename_i y p2 env2 hb
          simp only [Option.some.injEq, Prod.mk.injEq] at h; obtain ⟨rfl, _⟩ := h
          obtain ⟨x2, q1, e1, ha2⟩ := of_map4 (staticE call hc hd a _ b2 _ _ _ _ ha hs)
          have hs1 := hs.afterE hc ha ha2
          obtain ⟨xb, rfl⟩ := len1 (by simpa [VTy.toTy, STy.toTy, Ty.size] using hs1.2.2)
          obtain ⟨y2, q2, e2, hb2⟩ := of_map4 (staticE call hc hd b _ e1 _ _ _ _ hb hs1.1)
          obtain ⟨yb, rfl⟩ := len1 (by simpa [VTy.toTy, STy.toTy, Ty.size] using (hs1.1.afterE hc hb hb2).2.2)
          simp [ha2, hb2]
        · simp at h
      · simp at h
    case shl =>
      simp only [bitExpr] at h ⊢
      split at h
      · rename_i k hty
        split at h
        · rename_i k' x p1 env1 ha
          split at h
          · rename_i y p2 env2 hb
            split at h
            · rename_i hk
              subst hk
              simp only [Option.some.injEq, Prod.mk.injEq] at h; obtain ⟨rfl, _⟩ := h
              obtain ⟨x2, q1, e1, ha2⟩ := of_map4 (staticE call hc hd a _ b2 _ _ _ _ ha hs)
              obtain ⟨y2, q2, e2, hb2⟩ := of_map4 (staticE call hc hd b _ e1 _ _ _ _ hb (hs.afterE hc ha ha2).1)
              simp [ha2, hb2]
            · simp at h
          · simp at h
        · simp at h
      · simp at h
    case shr =>
      simp only [bitExpr] at h ⊢
      split at h
      · rename_i k hty
        split at h
        · rename_i k' x p1 env1 ha
          split at h
          · rename_i y p2 env2 hb
            split at h
            · rename_i hk
              subst hk
              simp only [Option.some.injEq, Prod.mk.injEq] at h; obtain ⟨rfl, _⟩ := h
              obtain ⟨x2, q1, e1, ha2⟩ := of_map4 (staticE call hc hd a _ b2 _ _ _ _ ha hs)
              obtain ⟨y2, q2, e2, hb2⟩ := of_map4 (staticE call hc hd b _ e1 _ _ _ _ hb (hs.afterE hc ha ha2).1)
              simp [ha2, hb2]
            · simp at h
          · simp at h
        · simp at h
      · simp at h
    case mul =>
      simp only [bitExpr, if_true] at h ⊢
      cases hfa : litFactor a with
      | some v =>
        obtain ⟨neg, n, k⟩ := v
        simp only [hfa] at h ⊢
        obtain ⟨hneg, hty, y, p2, ho, rfl, _, _⟩ := litMul_some h
        obtain ⟨y2, q2, e2, ho2⟩ := of_map4 (staticE call hc hd b _ b2 _ _ _ _ ho hs)
        simp [litMul, hneg, ho2, hty]
      | none =>
        cases hfb : litFactor b with
        | some v =>
          obtain ⟨neg, n, k⟩ := v
          simp only [hfa, hfb] at h ⊢
          obtain ⟨hneg, hty, y, p2, ho, rfl, _, _⟩ := litMul_some h
          obtain ⟨y2, q2, e2, ho2⟩ := of_map4 (staticE call hc hd a _ b2 _ _ _ _ ho hs)
          simp [litMul, hneg, ho2, hty]
        | none =>
          simp only [hfa, hfb] at h ⊢
          exact strict h
    all_goals
      simp only [bitExpr, reduceCtorEq, if_false] at h ⊢
      exact strict h
  | .tuple es, b1, b2, t, bs, p, b1', h, hs => by
    cases es with
    | nil =>
      simp only [bitExpr, Option.some.injEq, Prod.mk.injEq] at h ⊢; obtain ⟨rfl, _⟩ := h; rfl
    | cons e es =>
      simp only [bitExpr] at h ⊢
      split at h
      · rename_i vs p1 env1 hl
        simp only [Option.some.injEq, Prod.mk.injEq] at h; obtain ⟨rfl, _⟩ := h
        obtain ⟨vs2, q1, e1, hl2, hty⟩ := of_mapL (staticL call hc hd (.cons e es) _ b2 _ _ _ hl hs)
        have : vs2.map (·.1.toTy) = vs.map (·.1.toTy) := by
          have := congrArg (List.map VTy.toTy) hty; simpa [List.map_map, Function.comp_def] using this
        simp [hl2, this]
      · simp at h
  | .tupleGet a i, b1, b2, t, bs, p, b1', h, hs => by
    simp only [bitExpr] at h ⊢
    split at h
    · rename_i ts bs1 p1 env1 ha
      split at h
      · rename_i off ti hn
        simp only [Option.some.injEq, Prod.mk.injEq] at h; obtain ⟨rfl, _⟩ := h
        obtain ⟨x2, q1, e1, ha2⟩ := of_map4 (staticE call hc hd a _ b2 _ _ _ _ ha hs)
        simp [ha2, hn]
      · simp at h
    · simp at h
  | .array es, b1, b2, t, bs, p, b1', h, hs => by
    cases es with
    | nil => simp [bitExpr] at h
    | cons e es =>
      simp only [bitExpr] at h ⊢
      split at h
      · rename_i t0 b0 vs p1 env1 hl
        split at h
        · rename_i hall
          simp only [Option.some.injEq, Prod.mk.injEq] at h; obtain ⟨rfl, _⟩ := h
          obtain ⟨vs2, q1, e1, hl2, hty⟩ := of_mapL (staticL call hc hd (.cons e es) _ b2 _ _ _ hl hs)
          cases vs2 with
          | nil => simp at hty
          | cons hd vs3 =>
            obtain ⟨t2, c2⟩ := hd
            simp only [List.map_cons, List.cons.injEq] at hty
            obtain ⟨rfl, hty⟩ := hty
            have hall2 : vs3.all (fun x => x.1 = t2) = true := by
              rw [List.all_eq_true] at hall ⊢
              intro x hx
              have hm : x.1 ∈ vs3.map (·.1) := List.mem_map_of_mem hx
              rw [hty] at hm
              obtain ⟨y, hy, hyx⟩ := List.mem_map.mp hm
              have := hall y hy
              simp only [decide_eq_true_eq] at this ⊢
              rw [← hyx]; exact this
            have hlen : vs3.length = vs.length := by
              have := congrArg List.length hty; simpa using this
            simp [hl2, hall2, hlen]
        · simp at h
      · simp at h
  | .repeat_ a n, b1, b2, t, bs, p, b1', h, hs => by
    simp only [bitExpr] at h ⊢
    split at h
    · rename_i t1 bs1 p1 env1 ha
      simp only [Option.some.injEq, Prod.mk.injEq] at h; obtain ⟨rfl, _⟩ := h
      obtain ⟨x2, q1, e1, ha2⟩ := of_map4 (staticE call hc hd a _ b2 _ _ _ _ ha hs)
      simp [ha2]
    · simp at h
  | .index a i, b1, b2, t, bs, p, b1', h, hs => by
    simp only [bitExpr] at h ⊢
    split at h
    · rename_i te n abits pa env1 ha
      split at h
      · rename_i ibits pi env2 hi
        split at h
        · rename_i hn
          simp only [Option.some.injEq, Prod.mk.injEq] at h; obtain ⟨rfl, _⟩ := h
          obtain ⟨x2, q1, e1, ha2⟩ := of_map4 (staticE call hc hd a _ b2 _ _ _ _ ha hs)
          have hs1 := hs.afterE hc ha ha2
          obtain ⟨y2, q2, e2, hi2⟩ := of_map4 (staticE call hc hd i _ e1 _ _ _ _ hi hs1.1)
          have hs2 := hs1.1.afterE hc hi hi2
          have hlen : y2.length = ibits.length := by rw [hs2.2.1, hs2.2.2]
          simp [ha2, hi2, hlen, hn]
        · simp at h
      · simp at h
    · simp at h
  | .range lo hi k, b1, b2, t, bs, p, b1', h, _ => by
    simp only [bitExpr] at h ⊢
    split at h
    · rename_i hr
      simp only [Option.some.injEq, Prod.mk.injEq] at h; obtain ⟨rfl, _⟩ := h
      simp [hr]
    · simp at h
  | .struct name fs, b1, b2, t, bs, p, b1', h, hs => by
    simp only [bitExpr] at h ⊢
    split at h
    · rename_i vs p1 env1 hf
      simp only [Option.some.injEq, Prod.mk.injEq] at h; obtain ⟨rfl, _⟩ := h
      obtain ⟨vs2, q1, e1, hf2, hty⟩ := of_mapF (staticF call hc hd fs _ b2 _ _ _ hf hs)
      have : vs2.map (fun x => (x.1, x.2.1.toTy)) = vs.map (fun x => (x.1, x.2.1.toTy)) := by
        have := congrArg (List.map (fun (x : String × VTy) => (x.1, x.2.toTy))) hty; simpa [List.map_map, Function.comp_def] using this
      simp [hf2, this]
    · simp at h
  | .field a fname, b1, b2, t, bs, p, b1', h, hs => by
    simp only [bitExpr] at h ⊢
    split at h
    · rename_i sn fs bs1 p1 env1 ha
      split at h
      · rename_i off ti hn
        simp only [Option.some.injEq, Prod.mk.injEq] at h; obtain ⟨rfl, _⟩ := h
        obtain ⟨x2, q1, e1, ha2⟩ := of_map4 (staticE call hc hd a _ b2 _ _ _ _ ha hs)
        simp [ha2, hn]
      · simp at h
    · simp at h
  | .enumLit ename variant isUnit es, b1, b2, t, bs, p, b1', h, hs => by
    simp only [bitExpr] at h ⊢
    split at h
    · rename_i variants hdef
      split at h
      · rename_i i u fts hf
        split at h
        · rename_i vs p1 env1 hl
          split at h
          · rename_i hty
            simp only [Option.some.injEq, Prod.mk.injEq] at h; obtain ⟨rfl, _⟩ := h
            obtain ⟨vs2, q1, e1, hl2, hty2⟩ := of_mapL (staticL call hc hd es _ b2 _ _ _ hl hs)
            simp [hdef, hf, hl2, hty2, hty.1, hty.2]
          · simp at h
        · simp at h
      · simp at h
    · simp at h
  | .match_ scrut arms, b1, b2, t, bs, p, b1', h, hs => by
    simp only [bitExpr] at h ⊢
    split at h
    · rename_i ts sb ps env1 hsc
      split at h
      · rename_i hcov
        split at h
        · rename_i hp t' bs' pa envF ha
          simp only [Option.some.injEq, Prod.mk.injEq] at h; obtain ⟨rfl, _⟩ := h
          obtain ⟨sb2, q1, e1, hsc2⟩ := of_map4 (staticE call hc hd scrut _ b2 _ _ _ _ hsc hs)
          have hs1 := hs.afterE hc hsc hsc2
          have := staticArms call hc hd arms env1 e1 ts.toTy sb sb2 (false, none, none, env1) (false, none, none, e1) _ ha
            hs1.1 hs1.2.1 hs1.2.2 rfl hs1.1 rfl
          cases hr : bitArms call e1 ts.toTy sb2 arms (false, none, none, e1) with
          | none => simp [hr] at this
          | some st2 =>
            obtain ⟨hp2, ret2, pa2, envF2⟩ := st2
            simp only [hr, Option.map_some, Option.some.injEq] at this
            cases ret2 with
            | none => simp at this
            | some rv =>
              obtain ⟨tr, rb⟩ := rv
              simp only [Option.map_some, Option.some.injEq] at this
              subst this
              simp [hsc2, hcov, hr]
        · simp at h
      · simp at h
    · simp at h
  | .call fn args, b1, b2, t, bs, p, b1', h, hs => by
    simp only [bitExpr] at h ⊢
    split at h
    · rename_i vs pargs env1 hl
      split at h
      · rename_i t' bs' pb hcall
        simp only [Option.some.injEq, Prod.mk.injEq] at h; obtain ⟨rfl, _⟩ := h
        obtain ⟨vs2, q1, e1, hl2, hty2⟩ := of_mapL (staticL call hc hd args _ b2 _ _ _ hl hs)
        have hw := hs.afterL hc hl hl2
        obtain ⟨bs2, p2, hcall2⟩ := hd fn vs vs2 _ _ _ hcall hty2.symm hw.2.1 hw.2.2
        simp [hl2, hcall2]
      · simp at h
    · simp at h
theorem staticL (call : Ctx) (hc : CallWF call) (hd : CallStatic call) : (es : ExprList) → ∀ (b1 b2 : BEnv)
    (vs : List (VTy × List Bool)) (p : P) (b1' : BEnv), bitList call b1 es = some (vs, p, b1') → SameSh b1 b2 →
    (bitList call b2 es).map (fun r => r.1.map (·.1)) = some (vs.map (·.1))
  | .nil, b1, b2, vs, p, b1', h, _ => by
    simp only [bitList, Option.some.injEq, Prod.mk.injEq] at h ⊢; obtain ⟨rfl, _⟩ := h; rfl
  | .cons e rest, b1, b2, vs, p, b1', h, hs => by
    simp only [bitList] at h ⊢
    split at h
    · rename_i t bs p1 env1 he
      split at h
      · rename_i vs2 p2 env2 hr
        simp only [Option.some.injEq, Prod.mk.injEq] at h; obtain ⟨rfl, _⟩ := h
        obtain ⟨x2, q1, e1, he2⟩ := of_map4 (staticE call hc hd e _ b2 _ _ _ _ he hs)
        obtain ⟨vs3, q2, e2, hr2, hty⟩ := of_mapL (staticL call hc hd rest _ e1 _ _ _ hr (hs.afterE hc he he2).1)
        simp [he2, hr2, hty]
      · simp at h
    · simp at h
theorem staticF (call : Ctx) (hc : CallWF call) (hd : CallStatic call) : (fs : FieldExprs) → ∀ (b1 b2 : BEnv)
    (vs : List (String × VTy × List Bool)) (p : P) (b1' : BEnv), bitFields call b1 fs = some (vs, p, b1') → SameSh b1 b2 →
    (bitFields call b2 fs).map (fun r => r.1.map (fun x => (x.1, x.2.1))) = some (vs.map (fun x => (x.1, x.2.1)))
  | .nil, b1, b2, vs, p, b1', h, _ => by
    simp only [bitFields, Option.some.injEq, Prod.mk.injEq] at h ⊢; obtain ⟨rfl, _⟩ := h; rfl
  | .cons n e rest, b1, b2, vs, p, b1', h, hs => by
    simp only [bitFields] at h ⊢
    split at h
    · rename_i t bs p1 env1 he
      split at h
      · rename_i vs2 p2 env2 hr
        simp only [Option.some.injEq, Prod.mk.injEq] at h; obtain ⟨rfl, _⟩ := h
        obtain ⟨x2, q1, e1, he2⟩ := of_map4 (staticE call hc hd e _ b2 _ _ _ _ he hs)
        obtain ⟨vs3, q2, e2, hr2, hty⟩ := of_mapF (staticF call hc hd rest _ e1 _ _ _ hr (hs.afterE hc he he2).1)
        simp [he2, hr2, hty]
      · simp at h
    · simp at h
theorem staticArms (call : Ctx) (hc : CallWF call) (hd : CallStatic call) : (arms : Arms) → ∀ (benv1 benv2 : BEnv) (ts : Ty)
    (sb1 sb2 : List Bool) (st1 st2 st1' : ArmSt), bitArms call benv1 ts sb1 arms st1 = some st1' → SameSh benv1 benv2 →
    sb1.length = ts.size → sb2.length = ts.size → st1.2.1.map (·.1) = st2.2.1.map (·.1) → SameSh st1.2.2.2 st2.2.2.2 →
    shape st1.2.2.2 = shape benv1 →
    (bitArms call benv2 ts sb2 arms st2).map (fun r => r.2.1.map (·.1)) = some (st1'.2.1.map (·.1))
  | .nil, benv1, benv2, ts, sb1, sb2, st1, st2, st1', h, _, _, _, hret, _, _ => by
    simp only [bitArms, Option.some.injEq] at h ⊢; subst h; simp [hret]
  | .cons p e rest, benv1, benv2, ts, sb1, sb2, (hp1, ret1, pacc1, envA1), (hp2, ret2, pacc2, envA2), st1', h, hs, hl1, hl2, hret, hsa, hsh => by
    simp only [bitArms] at h ⊢
    split at h
    · simp at h
    · rename_i m bb hpb
      split at h
      · simp at h
      · rename_i te be pe enve he
        obtain ⟨m2, bb2, hpb2, hshp⟩ := of_mapP (patG_static p ts sb1 sb2 m bb (by rw [hl1, hl2]) hpb)
        have hbb1 := patG_wf p ts sb1 m bb hl1 hpb
        have hbb2 := patG_wf p ts sb2 m2 bb2 hl2 hpb2
        have hsarm : SameSh (armEnv bb benv1) (armEnv bb2 benv2) := SameSh.append ⟨hshp.symm, hbb1, hbb2⟩ hs
        obtain ⟨be2, pe2, enve2, he2⟩ := of_map4 (staticE call hc hd e _ (armEnv bb2 benv2) _ _ _ _ he hsarm)
        have hs2 := hsarm.afterE hc he he2
        have hbl : bb2.length = bb.length := by rw [← shape_length, ← shape_length, hshp]
        have hout : SameSh (armOut bb enve) (armOut bb2 enve2) := by
          unfold armOut; rw [hbl]; exact hs2.1.drop _
        have hso : shape (armOut bb enve) = shape benv1 := shape_armOut bb benv1 enve (shapeE call e _ _ _ _ _ he)
        have hmux : ∀ c1 c2, SameSh (muxEnv c1 (armOut bb enve) envA1) (muxEnv c2 (armOut bb2 enve2) envA2) :=
          fun c1 c2 => SameSh.mux c1 c2 hout hsa (by rw [hso]; exact hsh.symm)
        have hmsh : ∀ c1, shape (muxEnv c1 (armOut bb enve) envA1) = shape benv1 := by
          intro c1; rw [shape_muxEnv _ _ _ (by rw [hso]; exact hsh.symm), hso]
        simp only [hpb2, he2]
        cases ret1 with
        | none =>
          cases ret2 with
          | some r2 => simp at hret
          | none =>
            simp only at h ⊢
            exact staticArms call hc hd rest benv1 benv2 ts sb1 sb2 _ _ st1' h hs hl1 hl2 (by simp) (hmux _ _) (hmsh _)
        | some r1 =>
          cases ret2 with
          | none => simp at hret
          | some r2 =>
            obtain ⟨tr, rb⟩ := r1
            obtain ⟨tr2, rb2⟩ := r2
            simp only [Option.map_some, Option.some.injEq] at hret
            subst hret
            simp only at h ⊢
            split at h
            · rename_i htr
              subst htr
              simp only [↓reduceIte]
              exact staticArms call hc hd rest benv1 benv2 ts sb1 sb2 _ _ st1' h hs hl1 hl2 (by simp) (hmux _ _) (hmsh _)
            · simp at h
theorem staticSS (call : Ctx) (hc : CallWF call) (hd : CallStatic call) : (ss : StmtList) → ∀ (b1 b2 : BEnv) (t : VTy) (bs : List Bool)
    (p : P) (b1' : BEnv), bitStmts call b1 ss = some (t, bs, p, b1') → SameSh b1 b2 →
    (bitStmts call b2 ss).map (fun r => (r.1, shape r.2.2.2)) = some (t, shape b1')
  | .nil, b1, b2, t, bs, p, b1', h, hs => by
    simp only [bitStmts, Option.some.injEq, Prod.mk.injEq] at h ⊢; obtain ⟨rfl, _, _, rfl⟩ := h
    simp [hs.1]
  | .cons s .nil, b1, b2, t, bs, p, b1', h, hs => by
    simp only [bitStmts] at h ⊢
    exact staticS call hc hd s _ b2 _ _ _ _ h hs
  | .cons s (.cons s2 rest), b1, b2, t, bs, p, b1', h, hs => by
    simp only [bitStmts] at h ⊢
    split at h
    · rename_i t1 bs1 p1 env1 hst
      split at h
      · rename_i t2 bs2 p2 env2 hr
        simp only [Option.some.injEq, Prod.mk.injEq] at h; obtain ⟨rfl, _, _, rfl⟩ := h
        obtain ⟨x2, q1, e1, hst2, hsh1⟩ := of_mapS (staticS call hc hd s _ b2 _ _ _ _ hst hs)
        have hs1 := hs.afterS hc hst hst2 hsh1
        obtain ⟨y2, q2, e2, hr2, hsh2⟩ := of_mapS (staticSS call hc hd (.cons s2 rest) _ e1 _ _ _ _ hr hs1)
        simp [hst2, hr2, hsh2]
      · simp at h
    · simp at h
theorem staticS (call : Ctx) (hc : CallWF call) (hd : CallStatic call) : (s : Stmt) → ∀ (b1 b2 : BEnv) (t : VTy) (bs : List Bool)
    (p : P) (b1' : BEnv), bitStmt call b1 s = some (t, bs, p, b1') → SameSh b1 b2 →
    (bitStmt call b2 s).map (fun r => (r.1, shape r.2.2.2)) = some (t, shape b1')
  | .let_ pat e, b1, b2, t, bs, p, b1', h, hs => by
    -- a destructuring pattern: the value, the check that it always matches, the bindings
    have destr : ∀ (pt : Pat), (match bitExpr call b1 e with
          | some (t, bs, p1, env1) =>
            if irrefutable t.toTy pt then
              match patG pt t.toTy bs with
              | some (_, bb) => some (VTy.unit, ([] : List Bool), p1, bb ++ env1)
              | none => none
            else none
          | none => none) = some (t, bs, p, b1') →
        (match bitExpr call b2 e with
          | some (t, bs, p1, env1) =>
            if irrefutable t.toTy pt then
              match patG pt t.toTy bs with
              | some (_, bb) => some (VTy.unit, ([] : List Bool), p1, bb ++ env1)
              | none => none
            else none
          | none => none).map (fun (r : VTy × List Bool × P × BEnv) => (r.1, shape r.2.2.2)) = some (t, shape b1') := by
      intro pt h
      split at h
      · rename_i t1 bs1 p1 env1 he
        split at h
        · rename_i hirr
          split at h
          · rename_i m bb hp
            simp only [Option.some.injEq, Prod.mk.injEq] at h; obtain ⟨rfl, _, _, rfl⟩ := h
            obtain ⟨x2, q1, e1, he2⟩ := of_map4 (staticE call hc hd e _ b2 _ _ _ _ he hs)
            have hs1 := hs.afterE hc he he2
            obtain ⟨m2, bb2, hp2, hshp⟩ := of_mapP (patG_static pt t1.toTy bs1 x2 m bb (by rw [hs1.2.1, hs1.2.2]) hp)
            simp [he2, hirr, hp2, shape_append, hshp, hs1.1.1]
          · simp at h
        · simp at h
      · simp at h
    cases pat <;> simp only [bitStmt] at h ⊢
    case ident x =>
      split at h
      · rename_i t1 bs1 p1 env1 he
        simp only [Option.some.injEq, Prod.mk.injEq] at h; obtain ⟨rfl, _, _, rfl⟩ := h
        obtain ⟨x2, q1, e1, he2⟩ := of_map4 (staticE call hc hd e _ b2 _ _ _ _ he hs)
        have hs1 := hs.afterE hc he he2
        simp [he2, shape_cons', hs1.1.1]
      · simp at h
    case tuple ps => exact destr _ h
    case struct sn fps => exact destr _ h
    case enumTuple en vn ps => exact destr _ h
    all_goals (simp at h)
  | .letMut x e, b1, b2, t, bs, p, b1', h, hs => by
    simp only [bitStmt] at h ⊢
    split at h
    · rename_i t1 bs1 p1 env1 he
      simp only [Option.some.injEq, Prod.mk.injEq] at h; obtain ⟨rfl, _, _, rfl⟩ := h
      obtain ⟨x2, q1, e1, he2⟩ := of_map4 (staticE call hc hd e _ b2 _ _ _ _ he hs)
      have hs1 := hs.afterE hc he he2
      simp [he2, shape_cons', hs1.1.1]
    · simp at h
  | .assign x path e, b1, b2, t, bs, p, b1', h, hs => by
    have viaPath : (match bitExpr call b1 e with
          | some (t, bs, p1, env1) =>
            match env1.get? x with
            | some (tx, xbits) =>
              match bitUpd call env1 tx.toTy xbits t bs path with
              | some (xbits', p2, env2) => some (VTy.unit, ([] : List Bool), seqP p1 p2, env2.set x xbits')
              | none => none
            | none => none
          | none => none) = some (t, bs, p, b1') →
        (match bitExpr call b2 e with
          | some (t, bs, p1, env1) =>
            match env1.get? x with
            | some (tx, xbits) =>
              match bitUpd call env1 tx.toTy xbits t bs path with
              | some (xbits', p2, env2) => some (VTy.unit, ([] : List Bool), seqP p1 p2, env2.set x xbits')
              | none => none
            | none => none
          | none => none).map (fun (r : VTy × List Bool × P × BEnv) => (r.1, shape r.2.2.2)) = some (t, shape b1') := by
      intro h
      split at h
      · rename_i t1 bs1 p1 env1 he
        split at h
        · rename_i tx xbits hg
          split at h
          · rename_i xb' p2 env2 hu
            simp only [Option.some.injEq, Prod.mk.injEq] at h; obtain ⟨rfl, _, _, rfl⟩ := h
            obtain ⟨x2, q1, e1, he2⟩ := of_map4 (staticE call hc hd e _ b2 _ _ _ _ he hs)
            have hs1 := hs.afterE hc he he2
            obtain ⟨xbits2, hg2⟩ := hs1.1.get hg
            have hu2 := staticU call hc hd path env1 e1 tx.toTy xbits xbits2 t1 bs1 x2 _ _ _ hu hs1.1
              (hs1.1.2.1.get hg) (hs1.1.2.2.get hg2) hs1.2.1 hs1.2.2
            obtain ⟨r2, hr2⟩ := Option.isSome_iff_exists.mp hu2
            obtain ⟨out2, q2, e2⟩ := r2
            have sh1 := shapeU call path _ _ _ _ _ _ _ _ hu
            have sh2 := shapeU call path _ _ _ _ _ _ _ _ hr2
            simp [he2, hg2, hr2, shape_set, sh1, sh2, hs1.1.1]
          · simp at h
        · simp at h
      · simp at h
    cases path <;> simp only [bitStmt] at h ⊢
    case nil =>
      split at h
      · rename_i t1 bs1 p1 env1 he
        split at h
        · rename_i t' old hg
          split at h
          · rename_i htt
            subst htt
            simp only [Option.some.injEq, Prod.mk.injEq] at h; obtain ⟨rfl, _, _, rfl⟩ := h
            obtain ⟨x2, q1, e1, he2⟩ := of_map4 (staticE call hc hd e _ b2 _ _ _ _ he hs)
            have hs1 := hs.afterE hc he he2
            obtain ⟨old2, hg2⟩ := hs1.1.get hg
            simp [he2, hg2, shape_set, hs1.1.1]
          · simp at h
        · simp at h
      · simp at h
    case index i rest => exact viaPath h
    case tup i rest => exact viaPath h
    case fld i rest => exact viaPath h
  | .expr e, b1, b2, t, bs, p, b1', h, hs => by
    simp only [bitStmt] at h ⊢
    obtain ⟨x2, q1, e1, he2⟩ := of_map4 (staticE call hc hd e _ b2 _ _ _ _ h hs)
    have hs1 := hs.afterE hc h he2
    simp [he2, hs1.1.1]
  | .for_ pat arr body, b1, b2, t, bs, p, b1', h, hs => by
    simp only [bitStmt] at h ⊢
    split at h
    · rename_i te n abits pa env1 ha
      split at h
      · rename_i hirr
        split at h
        · rename_i p2 env2 hl
          simp only [Option.some.injEq, Prod.mk.injEq] at h; obtain ⟨rfl, _, _, rfl⟩ := h
          obtain ⟨abits2, q1, e1, ha2⟩ := of_map4 (staticE call hc hd arr _ b2 _ _ _ _ ha hs)
          have hs1 := hs.afterE hc ha ha2
          have hal1 : abits.length = n * te.size := by
            have := hs1.2.1; simpa [VTy.toTy, Ty.size, Nat.mul_comm] using this
          have hal2 : abits2.length = n * te.size := by
            have := hs1.2.2; simpa [VTy.toTy, Ty.size, Nat.mul_comm] using this
          have key : ∀ (els1 els2 : List (List Bool)), els1.length = els2.length → (∀ a, a ∈ els1 → a.length = te.size) →
              (∀ a, a ∈ els2 → a.length = te.size) → ∀ (p0 : P) (e0 : BEnv) (p0' : P) (e0' : BEnv) (p3 : P) (e3 : BEnv),
              SameSh e0 e0' → foldLoop (fun el env =>
                match patG pat te el with
                | some (_, bb) =>
                  match bitStmts call (bb ++ env) body with
                  | some (_, _, pb, envb) => some (pb, envb)
                  | none => none
                | none => none) els1 (p0, e0) = some (p3, e3) →
              ∃ p3' e3', foldLoop (fun el env =>
                match patG pat te el with
                | some (_, bb) =>
                  match bitStmts call (bb ++ env) body with
                  | some (_, _, pb, envb) => some (pb, envb)
                  | none => none
                | none => none) els2 (p0', e0') = some (p3', e3') ∧ shape e3' = shape e3 := by
            intro els1
            induction els1 with
            | nil =>
              intro els2 hlen _ _ p0 e0 p0' e0' p3 e3 h0 hh
              cases els2 with
              | cons _ _ => simp at hlen
              | nil =>
                simp only [foldLoop, Option.some.injEq, Prod.mk.injEq] at hh ⊢; obtain ⟨_, rfl⟩ := hh
                exact ⟨_, _, ⟨rfl, rfl⟩, h0.1.symm⟩
            | cons el rest ih =>
              intro els2 hlen hsz1 hsz2 p0 e0 p0' e0' p3 e3 h0 hh
              cases els2 with
              | nil => simp at hlen
              | cons el2 rest2 =>
                simp only [foldLoop] at hh ⊢
                split at hh
                · rename_i pb envb hstep
                  split at hstep
                  · rename_i m bb hpat
                    split at hstep
                    · rename_i t1 c1 pb1 envb1 hbody
                      simp only [Option.some.injEq, Prod.mk.injEq] at hstep
                      obtain ⟨rfl, rfl⟩ := hstep
                      have hl1 := hsz1 el (by simp)
                      have hl2 := hsz2 el2 (by simp)
                      obtain ⟨m2, bb2, hpat2, hshp⟩ := of_mapP (patG_static pat te el el2 m bb (by rw [hl1, hl2]) hpat)
                      have hbb1 := patG_wf pat te el m bb hl1 hpat
                      have hbb2 := patG_wf pat te el2 m2 bb2 hl2 hpat2
                      have hsb : SameSh (bb ++ e0) (bb2 ++ e0') := SameSh.append ⟨hshp.symm, hbb1, hbb2⟩ h0
                      obtain ⟨c2, pb2, envb2, hbody2, hshb⟩ := of_mapS (staticSS call hc hd body _ (bb2 ++ e0') _ _ _ _ hbody hsb)
                      have hsb2 := hsb.afterSS hc hbody hbody2 hshb
                      simp only [hpat2, hbody2]
                      exact ih rest2 (by simpa using hlen) (fun a ha => hsz1 a (by simp [ha])) (fun a ha => hsz2 a (by simp [ha]))
                        _ _ _ _ _ _ (SameSh.restore h0 hsb2) hh
                    · simp at hstep
                  · simp at hstep
                · simp at hh
          obtain ⟨p3', e3', hl2, hsh3⟩ := key _ (chunks te.size n abits2) (by rw [chunks_length, chunks_length])
            (chunks_sizes te.size n abits hal1) (chunks_sizes te.size n abits2 hal2) _ _ q1 e1 _ _ hs1.1 hl
          simp only [ha2, hirr, ↓reduceIte]
          generalize hfl : foldLoop _ (chunks te.size n abits2) (q1, e1) = r
          have hr : r = some (p3', e3') := by rw [← hfl]; exact hl2
          subst hr
          simp [hsh3]
        · simp at h
      · simp at h
    · simp at h
  | .forJoin _ _ _ _, _, _, _, _, _, _, h, _ => by simp [bitStmt] at h
theorem staticU (call : Ctx) (hc : CallWF call) (hd : CallStatic call) : (path : Path) → ∀ (b1 b2 : BEnv) (t : Ty) (cur1 cur2 : List Bool)
    (vt : VTy) (vb1 vb2 out : List Bool) (p : P) (b1' : BEnv), bitUpd call b1 t cur1 vt vb1 path = some (out, p, b1') → SameSh b1 b2 →
    cur1.length = t.size → cur2.length = t.size → vb1.length = vt.toTy.size → vb2.length = vt.toTy.size →
    (bitUpd call b2 t cur2 vt vb2 path).isSome = true
  | .nil, b1, b2, t, cur1, cur2, vt, vb1, vb2, out, p, b1', h, _, _, _, _, _ => by
    simp only [bitUpd] at h ⊢
    split at h
    · rename_i hvt; simp [hvt]
    · simp at h
  | .tup i rest, b1, b2, t, cur1, cur2, vt, vb1, vb2, out, p, b1', h, hs, hc1, hc2, hv1, hv2 => by
    simp only [bitUpd] at h ⊢
    split at h
    · rename_i ts
      split at h
      · rename_i off ti hn
        split at h
        · rename_i sub p1 env1 hu
          have hb := nth?_bound ts i off ti hn
          simp only [Ty.size] at hc1 hc2
          have := staticU call hc hd rest b1 b2 ti _ ((cur2.drop off).take ti.size) vt vb1 vb2 _ _ _ hu hs
            (slice_length cur1 off ti.size (by omega)) (slice_length cur2 off ti.size (by omega)) hv1 hv2
          obtain ⟨r2, hr2⟩ := Option.isSome_iff_exists.mp this
          obtain ⟨o2, q2, e2⟩ := r2
          simp [hn, hr2]
        · simp at h
      · simp at h
    · simp at h
  | .fld f rest, b1, b2, t, cur1, cur2, vt, vb1, vb2, out, p, b1', h, hs, hc1, hc2, hv1, hv2 => by
    simp only [bitUpd] at h ⊢
    split at h
    · rename_i sn fs
      split at h
      · rename_i off ti hn
        split at h
        · rename_i sub p1 env1 hu
          have hb := fields_nth?_bound fs f off ti hn
          simp only [Ty.size] at hc1 hc2
          have := staticU call hc hd rest b1 b2 ti _ ((cur2.drop off).take ti.size) vt vb1 vb2 _ _ _ hu hs
            (slice_length cur1 off ti.size (by omega)) (slice_length cur2 off ti.size (by omega)) hv1 hv2
          obtain ⟨r2, hr2⟩ := Option.isSome_iff_exists.mp this
          obtain ⟨o2, q2, e2⟩ := r2
          simp [hn, hr2]
        · simp at h
      · simp at h
    · simp at h
  | .index ie rest, b1, b2, t, cur1, cur2, vt, vb1, vb2, out, p, b1', h, hs, hc1, hc2, hv1, hv2 => by
    simp only [bitUpd] at h ⊢
    split at h
    · rename_i te n
      split at h
      · rename_i ibits pi env1 hi
        split at h
        · rename_i hn
          split at h
          · rename_i sub p1 env2 hu
            have hal1 : cur1.length = n * te.size := by simpa [Ty.size, Nat.mul_comm] using hc1
            have hal2 : cur2.length = n * te.size := by simpa [Ty.size, Nat.mul_comm] using hc2
            obtain ⟨ib2, q1, e1, hi2⟩ := of_map4 (staticE call hc hd ie _ b2 _ _ _ _ hi hs)
            have hs1 := hs.afterE hc hi hi2
            have hlen : ib2.length = ibits.length := by rw [hs1.2.1, hs1.2.2]
            have := staticU call hc hd rest env1 e1 te _ (selected te.size (indexMux ib2 (chunks te.size n cur2))) vt vb1 vb2 _ _ _ hu hs1.1
              (index_sel_length te.size n cur1 ibits hal1) (index_sel_length te.size n cur2 ib2 hal2) hv1 hv2
            obtain ⟨r2, hr2⟩ := Option.isSome_iff_exists.mp this
            obtain ⟨o2, q2, e2⟩ := r2
            simp [hi2, hlen, hn, hr2]
          · simp at h
        · simp at h
      · simp at h
    · simp at h
end

/-! ### whole programs -/

theorem bindParams_static : ∀ (ps : List (String × Ty)) (a1 a2 : List (VTy × List Bool)) (callee : BEnv),
    bindParams ps a1 = some callee → a1.map (·.1) = a2.map (·.1) →
    ∃ callee2, bindParams ps a2 = some callee2 ∧ shape callee2 = shape callee
  | [], [], [], callee, h, _ => ⟨callee, h, rfl⟩
  | [], [], _ :: _, _, _, ht => by simp at ht
  | [], _ :: _, _, _, h, _ => by simp [bindParams] at h
  | _ :: _, [], _, _, h, _ => by simp [bindParams] at h
  | _ :: _, _ :: _, [], _, _, ht => by simp at ht
  | (x, ty) :: ps, (t, bs) :: as, (t2, bs2) :: as2, callee, h, ht => by
    simp only [List.map_cons, List.cons.injEq] at ht
    obtain ⟨rfl, ht⟩ := ht
    simp only [bindParams] at h ⊢
    split at h
    · rename_i hty
      split at h
      · rename_i env henv
        simp only [Option.some.injEq] at h; subst h
        obtain ⟨env2, h2, hs2⟩ := bindParams_static ps as as2 env henv ht
        simp only [hty, ↓reduceIte, h2]
        exact ⟨_, rfl, by rw [shape_append, shape_append, hs2]; rfl⟩
      · simp at h
    · simp at h

/-- calls inlined to any depth: defined for some arguments, defined for all arguments of these types -/
theorem callAt_static (prog : Prog) (hcb : ∀ cb, constEnv prog = some cb → WFB cb) :
    ∀ n, CallStatic ⟨callAt prog n, prog.enum?⟩
  | 0 => by intro fn a1 a2 t bs p h; simp [callAt] at h
  | n + 1 => by
    intro fn a1 a2 t bs p h hty hw1 hw2
    simp only [callAt] at h ⊢
    split at h
    · simp at h
    · rename_i d hfn
      split at h
      · rename_i cb callee hcbe hbp
        split at h
        · rename_i t' bs' p' envB hbody
          simp only [Option.some.injEq, Prod.mk.injEq] at h
          obtain ⟨rfl, _, _⟩ := h
          obtain ⟨callee2, hbp2, hsh⟩ := bindParams_static d.params a1 a2 callee hbp hty
          have hs : SameSh (callee ++ cb) (callee2 ++ cb) :=
            SameSh.append ⟨hsh.symm, bindParams_wf d.params a1 callee hbp hw1, bindParams_wf d.params a2 callee2 hbp2 hw2⟩
              (SameSh.refl (hcb cb hcbe))
          obtain ⟨x2, q, e2, hb2, _⟩ := of_mapS (staticSS ⟨callAt prog n, prog.enum?⟩ (callAt_wf prog hcb n)
            (callAt_static prog hcb n) d.body _ _ _ _ _ _ hbody hs)
          simp [hcbe, hbp2, hb2]
        · simp at h
      · simp at h

/-- **the verdict of the compiler model is static**: if a function body is inside the model for one assignment of wires
to the variables in scope, it is for every assignment to variables of the same types, with the same result type and the
same variables afterwards (calls inlined to any depth) -/
theorem static_program (prog : Prog) (depth : Nat) (b1 b2 b1' : BEnv) (body : StmtList) (t : VTy) (bits : List Bool) (p : P)
    (hs : SameSh b1 b2) (h : bitStmts ⟨callAt prog depth, prog.enum?⟩ b1 body = some (t, bits, p, b1')) :
    ∃ bits2 p2 b2', bitStmts ⟨callAt prog depth, prog.enum?⟩ b2 body = some (t, bits2, p2, b2') ∧ shape b2' = shape b1' := by
  have hcb : ∀ cb, constEnv prog = some cb → WFB cb := fun cb hcb => constEnvOf_wf _ _ cb hcb
  obtain ⟨x, q, e, h2, hsh⟩ := of_mapS (staticSS ⟨callAt prog depth, prog.enum?⟩ (callAt_wf prog hcb depth)
    (callAt_static prog hcb depth) body _ _ _ _ _ _ h hs)
  exact ⟨x, q, e, h2, hsh⟩

/-- the arguments `fnTyped` tries a function on: all-zero wires of the parameter types -/
def zeroArgs (ps : List (String × Ty)) : List (VTy × List Bool) :=
  ps.map fun xt => (VTy.ofTy xt.2, List.replicate xt.2.size false)

theorem zeroArgs_wf (ps : List (String × Ty)) : ArgsWF (zeroArgs ps) := by
  intro a ha
  simp only [zeroArgs, List.mem_map] at ha
  obtain ⟨xt, _, rfl⟩ := ha
  simp [VTy.toTy_ofTy]

theorem bindParams_zero : ∀ (ps : List (String × Ty)),
    bindParams ps (zeroArgs ps) = some (ps.map fun xt => (xt.1, VTy.ofTy xt.2, List.replicate xt.2.size false)).reverse
  | [] => rfl
  | (x, ty) :: ps => by
    simp only [zeroArgs, List.map_cons, bindParams, if_true] at *
    have := bindParams_zero ps
    simp only [zeroArgs] at this
    simp [this]

/-- a function `fnTyped` accepts can be called (in the model) on all arguments of its parameter types, and the result has
its declared type -/
theorem typed_call (prog : Prog) (f : String) (d : FnDef) (hfn : prog.fn? f = some d) (hty : fnTyped prog d = true)
    (args : List (VTy × List Bool)) (htys : args.map (·.1) = d.params.map (fun xt => VTy.ofTy xt.2)) (hw : ArgsWF args) :
    ∃ bs p, callAt prog (prog.fns.length + 2) f args = some (VTy.ofTy d.ret, bs, p) := by
  have hcb : ∀ cb, constEnv prog = some cb → WFB cb := fun cb hcb => constEnvOf_wf _ _ cb hcb
  -- the call on the all-zero arguments is what `fnTyped` computes
  have hz : ∃ bs p, callAt prog (prog.fns.length + 2) f (zeroArgs d.params) = some (VTy.ofTy d.ret, bs, p) := by
    unfold fnTyped at hty
    split at hty
    · simp at hty
    · rename_i cb hcbe
      split at hty
      · rename_i t bs p e hb
        simp only [beq_iff_eq] at hty
        subst hty
        unfold bitBody at hb
        refine ⟨bs, p, ?_⟩
        rw [show prog.fns.length + 2 = (prog.fns.length + 1) + 1 from rfl, callAt]
        simp only [hfn, hcbe, bindParams_zero, hb]
      · simp at hty
  obtain ⟨bs, p, hz⟩ := hz
  have := callAt_static prog hcb (prog.fns.length + 2) f (zeroArgs d.params) args _ _ _ hz
    (by rw [htys]; simp [zeroArgs, List.map_map, Function.comp_def]) (zeroArgs_wf d.params) hw
  exact this

end Bit
end GV
