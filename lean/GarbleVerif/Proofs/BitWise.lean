import GarbleVerif.Proofs.BitOps
import GarbleVerif.Proofs.Wrap
import GarbleVerif.Proofs.LiteralSafe
/-! `&`, `|`, `^` on integers: the bit-by-bit gates of `Arith.binop` against `Src.bitwise` (the operation on the
two's complement patterns, read back in the type). -/
namespace GV
namespace Bit
open Arith
open Src

theorem natToBits_head (m s : Nat) : (m / 2 ^ s % 2 == 1) = m.testBit s := by
  rw [Nat.testBit_eq_decide_div_mod_eq]
  by_cases h : m / 2 ^ s % 2 = 1 <;> simp [h]

theorem natToBits_bitwise (f : Nat → Nat → Nat) (g : Bool → Bool → Bool)
    (hf : ∀ p q i, (f p q).testBit i = g (p.testBit i) (q.testBit i)) (p q : Nat) :
    ∀ n, natToBits (f p q) n = List.zipWith g (natToBits p n) (natToBits q n)
  | 0 => rfl
  | n + 1 => by
    simp only [natToBits, List.zipWith_cons_cons, natToBits_head, hf, natToBits_bitwise f g hf p q n]

theorem enc_toUnsigned (k : IntTy) (a : Int) : enc k a = natToBits (toUnsigned k a) k.bits := rfl

theorem enc_bitwise (k : IntTy) (f : Nat → Nat → Nat) (a b : Int) :
    enc k (bitwise f k a b) = natToBits (f (toUnsigned k a) (toUnsigned k b)) k.bits := by
  unfold bitwise enc
  rw [intToBits_congr _ _ _ (wrapTo_emod k _), intToBits_natCast]

theorem bitwise_inRange (k : IntTy) (f : Nat → Nat → Nat) (a b : Int) : k.inRange (bitwise f k a b) = true := by
  have := wrapTo_range k (f (toUnsigned k a) (toUnsigned k b))
  simp [IntTy.inRange, bitwise, this.1, this.2]

theorem zip_map_eq_zipWith (g : Bool → Bool → Bool) (x y : List Bool) :
    ((x.zip y).map fun (a, b) => g a b) = List.zipWith g x y := by
  induction x generalizing y with
  | nil => simp
  | cons a x ih => cases y <;> simp [ih]

theorem binop_band (k : IntTy) (a b : Int) :
    Arith.binop .bitAnd k.signed k.signed k.signed (enc k a) (enc k b) = (enc k (bitwise Nat.land k a b), []) := by
  have hops := binop_operands k a b k.signed k.signed
  unfold Arith.binop
  simp only [hops.1, hops.2]
  rw [zip_map_eq_zipWith (fun a b => a && b), enc_bitwise, enc_toUnsigned, enc_toUnsigned,
    natToBits_bitwise Nat.land (fun a b => a && b) (fun p q i => (Nat.testBit_and p q i : (Nat.land p q).testBit i = _))]

theorem binop_bor (k : IntTy) (a b : Int) :
    Arith.binop .bitOr k.signed k.signed k.signed (enc k a) (enc k b) = (enc k (bitwise Nat.lor k a b), []) := by
  have hops := binop_operands k a b k.signed k.signed
  unfold Arith.binop
  simp only [hops.1, hops.2]
  rw [zip_map_eq_zipWith (fun a b => bOr a b), enc_bitwise, enc_toUnsigned, enc_toUnsigned,
    natToBits_bitwise Nat.lor (fun a b => bOr a b) (fun p q i => by
      rw [show Nat.lor p q = p ||| q from rfl, Nat.testBit_or]; cases p.testBit i <;> cases q.testBit i <;> rfl)]

theorem binop_bxor (k : IntTy) (a b : Int) :
    Arith.binop .bitXor k.signed k.signed k.signed (enc k a) (enc k b) = (enc k (bitwise Nat.xor k a b), []) := by
  have hops := binop_operands k a b k.signed k.signed
  unfold Arith.binop
  simp only [hops.1, hops.2]
  rw [zip_map_eq_zipWith (fun a b => a ^^ b), enc_bitwise, enc_toUnsigned, enc_toUnsigned,
    natToBits_bitwise Nat.xor (fun a b => a ^^ b) (fun p q i => (Nat.testBit_xor p q i : (Nat.xor p q).testBit i = _))]

end Bit
end GV
