import GarbleVerif.Proofs.BuilderSound
namespace GV
namespace Builder

/-- hypothesis on the recursive call -/
def RecOk (op : Bool → Bool → Bool) (rec : Rec) : Prop :=
  ∀ (b : Builder) (x y : Nat), WF b → x < b.counter → y < b.counter → Post b op x y (rec b x y)

theorem c2 {b : Builder} (hb : WF b) : 2 ≤ b.counter := by
  have := hb.shift2; simp [counter]; omega

theorem bool_factor (p q r : Bool) : (p && (q ^^ r)) = ((p && q) ^^ (p && r)) := by
  cases p <;> cases q <;> cases r <;> rfl

/-- semantic core of the AND-factoring rule, for any orientation with a common operand -/
theorem and_factor_sem (f : Nat → Bool) {x1 x2 y1 y2 a1 a2 b1 b2 : Nat}
    (ha : (a1 = x1 ∧ a2 = x2) ∨ (a1 = x2 ∧ a2 = x1))
    (hb : (b1 = y1 ∧ b2 = y2) ∨ (b1 = y2 ∧ b2 = y1)) (hab : a1 = b1) :
    (f a1 && (f a2 ^^ f b2)) = ((f x1 && f x2) ^^ (f y1 && f y2)) := by
  rcases ha with ⟨e1, e2⟩ | ⟨e1, e2⟩ <;> rcases hb with ⟨e3, e4⟩ | ⟨e3, e4⟩
  · have h : x1 = y1 := by rw [← e1, ← e3]; exact hab
    rw [e1, e2, e4, bool_factor, h]
  · have h : x1 = y2 := by rw [← e1, ← e3]; exact hab
    rw [e1, e2, e4, bool_factor, h, Bool.and_comm (f y2) (f y1)]
  · have h : x2 = y1 := by rw [← e1, ← e3]; exact hab
    rw [e1, e2, e4, bool_factor, h, Bool.and_comm (f y1) (f x1)]
  · have h : x2 = y2 := by rw [← e1, ← e3]; exact hab
    rw [e1, e2, e4, bool_factor, h, Bool.and_comm (f y2) (f x1), Bool.and_comm (f y2) (f y1)]

/-- two consecutive raw pushes used by the AND-factoring rule -/
theorem pushTwo_post {b : Builder} (hb : WF b) (a1 a2 b2 : Nat)
    (h1 : a1 < b.counter) (h2 : a2 < b.counter) (h3 : b2 < b.counter) (h1n : 2 ≤ a1) :
    WF ((b.pushGate (.xor a2 b2)).2.pushGate (.and a1 (b.pushGate (.xor a2 b2)).1)).2 ∧
    Ext b ((b.pushGate (.xor a2 b2)).2.pushGate (.and a1 (b.pushGate (.xor a2 b2)).1)).2 ∧
    ((b.pushGate (.xor a2 b2)).2.pushGate (.and a1 (b.pushGate (.xor a2 b2)).1)).1 <
      ((b.pushGate (.xor a2 b2)).2.pushGate (.and a1 (b.pushGate (.xor a2 b2)).1)).2.counter ∧
    ∀ inp, inp.length + 2 = b.shift →
      ((b.pushGate (.xor a2 b2)).2.pushGate (.and a1 (b.pushGate (.xor a2 b2)).1)).2.sem inp
        ((b.pushGate (.xor a2 b2)).2.pushGate (.and a1 (b.pushGate (.xor a2 b2)).1)).1
        = (b.sem inp a1 && (b.sem inp a2 ^^ b.sem inp b2)) := by
  have hg1 : opsLt (.xor a2 b2) b.counter := ⟨h2, h3⟩
  obtain ⟨hwf1, hw1, hsem1⟩ := pushGate_spec hb (.xor a2 b2) hg1 (fun _ _ h => by simp at h)
    (fun _ _ _ h => by simp at h)
  have hext1 := pushGate_ext b (.xor a2 b2)
  have hcnt1 := pushGate_counter b (.xor a2 b2)
  -- the AND gates after the first push are the old ones: their operands are below the new wire
  have hold : ∀ (i x' y' : Nat), (b.pushGate (.xor a2 b2)).2.gates[i]? = some (BGate.and x' y') →
      x' < b.counter ∧ y' < b.counter := by
    intro i x' y' hi
    rcases pushGate_getElem? b _ _ i hi with ⟨hil, hio⟩ | ⟨_, hin⟩
    · have := hb.ops i _ hio
      simp only [opsLt, counter] at this ⊢
      omega
    · simp at hin
  generalize (b.pushGate (.xor a2 b2)) = r at *
  obtain ⟨w, b1⟩ := r
  simp only at hwf1 hw1 hsem1 hext1 hcnt1 ⊢
  subst hw1
  have hg2 : opsLt (.and a1 b.counter) b1.counter := by
    show a1 < b1.counter ∧ b.counter < b1.counter
    omega
  obtain ⟨hwf2, hw2, hsem2⟩ := pushGate_spec hwf1 (.and a1 b.counter) hg2 (fun x y h => by
    simp only [BGate.and.injEq] at h
    obtain ⟨rfl, rfl⟩ := h
    have := hb.shift2
    simp only [counter] at h1 ⊢
    omega)
    (fun _ x y h i x' y' hi hs => by
      simp only [BGate.and.injEq] at h
      obtain ⟨rfl, rfl⟩ := h
      have := hold i x' y' hi
      rcases hs with ⟨_, e⟩ | ⟨e, _⟩ <;> omega)
  have hext2 := pushGate_ext b1 (.and a1 b.counter)
  have hcnt2 := pushGate_counter b1 (.and a1 b.counter)
  refine ⟨hwf2, hext1.trans hext2, by rw [hw2, hcnt2]; omega, fun inp hi => ?_⟩
  have hi1 : inp.length + 2 = b1.shift := by rw [hext1.shift]; exact hi
  rw [hw2, hsem2 inp hi1, gateVal_and, hsem1 inp hi, gateVal_xor, hext1.sem_eq inp hi a1 h1]

theorem mem_andOrients {x1 x2 y1 y2 a1 a2 b1 b2 : Nat} (h : (a1, a2, b1, b2) ∈ andOrients x1 x2 y1 y2) :
    ((a1 = x1 ∧ a2 = x2) ∨ (a1 = x2 ∧ a2 = x1)) ∧ ((b1 = y1 ∧ b2 = y2) ∨ (b1 = y2 ∧ b2 = y1)) := by
  simp only [andOrients, List.mem_cons, Prod.mk.injEq, List.mem_nil_iff, or_false] at h
  rcases h with h | h | h | h <;> obtain ⟨rfl, rfl, rfl, rfl⟩ := h <;> simp

theorem gateAt_andNorm {b : Builder} (hb : WF b) {w x1 x2 : Nat} (hg : b.gateAt w = some (.and x1 x2)) :
    x1 ≠ x2 ∧ 2 ≤ x1 ∧ 2 ≤ x2 := by
  simp only [gateAt] at hg
  split at hg
  · simp at hg
  · exact hb.andNorm _ x1 x2 hg

theorem xorRule1_post {rec : Rec} (hrec : RecOk (· ^^ ·) rec) {b : Builder} (hb : WF b) (x y : Nat)
    (hx : x < b.counter) (hy : y < b.counter) (r : Nat × Builder)
    (h : xorRule1 rec b x y = some r) : Post b (· ^^ ·) x y r := by
  simp only [xorRule1] at h
  split at h
  · -- xor / xor
    rename_i x1 x2 y1 y2 hgx hgy
    have sx := fun inp hi => sem_gate hb inp hi x _ hgx
    have sy := fun inp hi => sem_gate hb inp hi y _ hgy
    -- operand bounds do not depend on the input; use a dummy input of the right length
    have hdummy : (List.replicate (b.shift - 2) false).length + 2 = b.shift := by
      have := hb.shift2; simp; omega
    obtain ⟨_, ⟨hx1, hx2⟩, _⟩ := sx _ hdummy
    obtain ⟨_, ⟨hy1, hy2⟩, _⟩ := sy _ hdummy
    have bx1 : x1 < b.counter := by omega
    have bx2 : x2 < b.counter := by omega
    have by1 : y1 < b.counter := by omega
    have by2 : y2 < b.counter := by omega
    have fin : ∀ (p q : Nat), p < b.counter → q < b.counter →
        (∀ inp, inp.length + 2 = b.shift → (b.sem inp p ^^ b.sem inp q) = (b.sem inp x ^^ b.sem inp y)) →
        Post b (· ^^ ·) x y (rec b p q) := fun p q hp hq heq => (hrec b p q hb hp hq).mono heq
    split at h
    · rename_i e; simp at h; subst h; subst e
      exact fin _ _ bx2 by2 (fun inp hi => by
        rw [(sx inp hi).2.2, (sy inp hi).2.2, gateVal_xor, gateVal_xor]
        cases b.sem inp x1 <;> cases b.sem inp x2 <;> cases b.sem inp y2 <;> rfl)
    split at h
    · rename_i e; simp at h; subst h; subst e
      exact fin _ _ bx2 by1 (fun inp hi => by
        rw [(sx inp hi).2.2, (sy inp hi).2.2, gateVal_xor, gateVal_xor]
        cases b.sem inp x1 <;> cases b.sem inp x2 <;> cases b.sem inp y1 <;> rfl)
    split at h
    · rename_i e; simp at h; subst h; subst e
      exact fin _ _ bx1 by2 (fun inp hi => by
        rw [(sx inp hi).2.2, (sy inp hi).2.2, gateVal_xor, gateVal_xor]
        cases b.sem inp x1 <;> cases b.sem inp x2 <;> cases b.sem inp y2 <;> rfl)
    split at h
    · rename_i e; simp at h; subst h; subst e
      exact fin _ _ bx1 by1 (fun inp hi => by
        rw [(sx inp hi).2.2, (sy inp hi).2.2, gateVal_xor, gateVal_xor]
        cases b.sem inp x1 <;> cases b.sem inp x2 <;> cases b.sem inp y1 <;> rfl)
    · simp at h
  · -- and / and
    rename_i x1 x2 y1 y2 hgx hgy
    have sx := fun inp hi => sem_gate hb inp hi x _ hgx
    have sy := fun inp hi => sem_gate hb inp hi y _ hgy
    have hdummy : (List.replicate (b.shift - 2) false).length + 2 = b.shift := by
      have := hb.shift2; simp; omega
    obtain ⟨_, ⟨hx1, hx2⟩, _⟩ := sx _ hdummy
    obtain ⟨_, ⟨hy1, hy2⟩, _⟩ := sy _ hdummy
    have bx1 : x1 < b.counter := by omega
    have bx2 : x2 < b.counter := by omega
    have by1 : y1 < b.counter := by omega
    have by2 : y2 < b.counter := by omega
    -- semantic fact for any orientation with a1 = b1
    have orient : ∀ a1 a2 b1 b2, (a1, a2, b1, b2) ∈ andOrients x1 x2 y1 y2 → a1 = b1 →
        a1 < b.counter ∧ a2 < b.counter ∧ b2 < b.counter ∧
        ∀ inp, inp.length + 2 = b.shift →
          (b.sem inp a1 && (b.sem inp a2 ^^ b.sem inp b2)) = (b.sem inp x ^^ b.sem inp y) := by
      intro a1 a2 b1 b2 hmem hab
      obtain ⟨ha, hbb⟩ := mem_andOrients hmem
      refine ⟨by rcases ha with ⟨e1, _⟩ | ⟨e1, _⟩ <;> rw [e1] <;> assumption,
              by rcases ha with ⟨_, e2⟩ | ⟨_, e2⟩ <;> rw [e2] <;> assumption,
              by rcases hbb with ⟨_, e4⟩ | ⟨_, e4⟩ <;> rw [e4] <;> assumption, fun inp hi => ?_⟩
      rw [(sx inp hi).2.2, (sy inp hi).2.2, gateVal_and, gateVal_and]
      exact and_factor_sem (b.sem inp) ha hbb hab
    split at h
    · -- cached hit
      rename_i w hhit
      simp at h; subst h
      obtain ⟨⟨a1, a2, b1, b2⟩, hmem, hf⟩ := List.exists_of_findSome?_eq_some hhit
      simp only at hf
      split at hf
      · rename_i hab
        split at hf
        · rename_i ab hcab
          obtain ⟨o1, o2, o3, osem⟩ := orient a1 a2 b1 b2 hmem hab
          have c1 := getCached_sound hb _ ab hcab
          have c2' := getCached_sound hb _ w hf
          refine Post.of_same hb c2'.1 (fun inp hi => ?_)
          rw [c2'.2 inp hi, gateVal_and, c1.2 inp hi, gateVal_xor, osem inp hi]
        · simp at hf
      · simp at hf
    · split at h
      · rename_i a1 a2 b1' b2 hfind
        simp at h; subst h
        have hmem := List.mem_of_find?_eq_some hfind
        have hp := List.find?_some hfind
        have hab : a1 = b1' := by simpa using hp
        obtain ⟨o1, o2, o3, osem⟩ := orient a1 a2 b1' b2 hmem hab
        have hnx := gateAt_andNorm hb hgx
        have hn1 : 2 ≤ a1 := by
          rcases (mem_andOrients hmem).1 with ⟨e, _⟩ | ⟨e, _⟩ <;> rw [e]
          · exact hnx.2.1
          · exact hnx.2.2
        obtain ⟨w1, w2, w3, w4⟩ := pushTwo_post hb a1 a2 b2 o1 o2 o3 hn1
        exact ⟨w1, w2, w3, fun inp hi => by rw [w4 inp hi, osem inp hi]⟩
      · simp at h
  · simp at h


theorem dummy_inp {b : Builder} (hb : WF b) : (List.replicate (b.shift - 2) false).length + 2 = b.shift := by
  have := hb.shift2; simp; omega

/-- operand bounds of a gate wire -/
theorem gate_bounds {b : Builder} (hb : WF b) {w : Nat} {g : BGate} (hg : b.gateAt w = some g) :
    w < b.counter ∧ opsLt g w := by
  obtain ⟨h1, h2, _⟩ := sem_gate hb _ (dummy_inp hb) w g hg
  exact ⟨h1, h2⟩

theorem xorRule2_post {rec : Rec} (hrec : RecOk (· ^^ ·) rec) {b : Builder} (hb : WF b) (x y : Nat)
    (hx : x < b.counter) (hy : y < b.counter) (r : Nat × Builder)
    (h : xorRule2 rec b x y = some r) : Post b (· ^^ ·) x y r := by
  simp only [xorRule2] at h
  split at h
  · rename_i x1 x2 hgx
    have sx := fun inp hi => (sem_gate hb inp hi x _ hgx).2.2
    obtain ⟨_, hx1, hx2⟩ := gate_bounds hb hgx
    have bx1 : x1 < b.counter := by omega
    have bx2 : x2 < b.counter := by omega
    split at h
    · rename_i e; simp at h; subst h
      refine Post.of_same hb bx2 (fun inp hi => ?_)
      rw [sx inp hi, gateVal_xor, e]; cases b.sem inp y <;> cases b.sem inp x2 <;> rfl
    split at h
    · rename_i e; simp at h; subst h
      refine Post.of_same hb bx1 (fun inp hi => ?_)
      rw [sx inp hi, gateVal_xor, e]; cases b.sem inp y <;> cases b.sem inp x1 <;> rfl
    split at h
    · rename_i yn hyn
      have hn := hb.negSound y yn hyn
      split at h
      · rename_i e; simp at h; subst h
        refine (hrec b x2 1 hb bx2 (by have := c2 hb; omega)).mono (fun inp hi => ?_)
        rw [sx inp hi, gateVal_xor, e, hn.2.2 inp hi, sem_one]
        cases b.sem inp y <;> cases b.sem inp x2 <;> rfl
      split at h
      · rename_i e; simp at h; subst h
        refine (hrec b x1 1 hb bx1 (by have := c2 hb; omega)).mono (fun inp hi => ?_)
        rw [sx inp hi, gateVal_xor, e, hn.2.2 inp hi, sem_one]
        cases b.sem inp y <;> cases b.sem inp x1 <;> rfl
      · simp at h
    · simp at h
  · simp at h

theorem xorRule3_post {rec : Rec} (hrec : RecOk (· ^^ ·) rec) {b : Builder} (hb : WF b) (x y : Nat)
    (hx : x < b.counter) (hy : y < b.counter) (r : Nat × Builder)
    (h : xorRule3 rec b x y = some r) : Post b (· ^^ ·) x y r := by
  simp only [xorRule3] at h
  split at h
  · rename_i y1 y2 hgy
    have sy := fun inp hi => (sem_gate hb inp hi y _ hgy).2.2
    obtain ⟨_, hy1, hy2⟩ := gate_bounds hb hgy
    have by1 : y1 < b.counter := by omega
    have by2 : y2 < b.counter := by omega
    split at h
    · rename_i e; simp at h; subst h
      refine Post.of_same hb by2 (fun inp hi => ?_)
      rw [sy inp hi, gateVal_xor, e]; cases b.sem inp y1 <;> cases b.sem inp y2 <;> rfl
    split at h
    · rename_i e; simp at h; subst h
      refine Post.of_same hb by1 (fun inp hi => ?_)
      rw [sy inp hi, gateVal_xor, e]; cases b.sem inp y1 <;> cases b.sem inp y2 <;> rfl
    split at h
    · rename_i xn hxn
      have hn := hb.negSound x xn hxn
      split at h
      · rename_i e; simp at h; subst h
        refine (hrec b 1 y2 hb (by have := c2 hb; omega) by2).mono (fun inp hi => ?_)
        rw [sy inp hi, gateVal_xor, ← e, hn.2.2 inp hi, sem_one]
        cases b.sem inp x <;> cases b.sem inp y2 <;> rfl
      split at h
      · rename_i e; simp at h; subst h
        refine (hrec b 1 y1 hb (by have := c2 hb; omega) by1).mono (fun inp hi => ?_)
        rw [sy inp hi, gateVal_xor, ← e, hn.2.2 inp hi, sem_one]
        cases b.sem inp x <;> cases b.sem inp y1 <;> rfl
      · simp at h
    · simp at h
  · simp at h

/-- **`push_xor` is sound** for every fuel. -/
theorem pushXor_post (fuel : Nat) : RecOk (· ^^ ·) (pushXor fuel) := by
  induction fuel with
  | zero =>
    intro b x y hb hx hy
    unfold pushXor
    split
    · rename_i w hw
      have := optimizeXor_sound hb x y w hx hy hw
      exact Post.of_same hb this.1 this.2
    · exact pushXorRaw_post hb x y hx hy
  | succ fuel ih =>
    intro b x y hb hx hy
    unfold pushXor
    split
    · rename_i w hw
      have := optimizeXor_sound hb x y w hx hy hw
      exact Post.of_same hb this.1 this.2
    · simp only
      split
      · rename_i r hr; exact xorRule1_post ih hb x y hx hy r hr
      · split
        · rename_i r hr; exact xorRule2_post ih hb x y hx hy r hr
        · split
          · rename_i r hr; exact xorRule3_post ih hb x y hx hy r hr
          · exact pushXorRaw_post hb x y hx hy


end Builder
end GV
