import GarbleVerif.Model.Requests
import GarbleVerif.Proofs.PushAndSound
import GarbleVerif.Proofs.BuildSound
/-! Soundness of the derived requests (`not/or/eq/mux/adder`) and of whole request sequences. -/
namespace GV
namespace Builder

/-- post-condition of a request returning wire `r.1` with value `v` -/
def PostV (b : Builder) (r : Nat × Builder) (v : List Bool → Bool) : Prop :=
  WF r.2 ∧ Ext b r.2 ∧ r.1 < r.2.counter ∧
  ∀ inp, inp.length + 2 = b.shift → r.2.sem inp r.1 = v inp

theorem xor_post {b : Builder} (hb : WF b) {x y : Nat} (hx : x < b.counter) (hy : y < b.counter) :
    PostV b (b.xor x y) (fun inp => b.sem inp x ^^ b.sem inp y) :=
  pushXor_post b.fuelFor b x y hb hx hy

theorem and_post {b : Builder} (hb : WF b) {x y : Nat} (hx : x < b.counter) (hy : y < b.counter) :
    PostV b (b.and x y) (fun inp => b.sem inp x && b.sem inp y) :=
  pushAnd_post b.fuelFor b.fuelFor b x y hb hx hy

/-- chaining: a post-condition relative to an extension `b1` of `b`, restated relative to `b` -/
theorem PostV.chain {b b1 : Builder} {r : Nat × Builder} {v1 v : List Bool → Bool}
    (e : Ext b b1) (h : PostV b1 r v1)
    (hv : ∀ inp, inp.length + 2 = b.shift → v1 inp = v inp) : PostV b r v := by
  obtain ⟨wf, e1, hlt, hs⟩ := h
  refine ⟨wf, e.trans e1, hlt, fun inp hi => ?_⟩
  rw [hs inp (by rw [e.shift]; exact hi), hv inp hi]

theorem not_post {b : Builder} (hb : WF b) {x : Nat} (hx : x < b.counter) :
    PostV b (b.not x) (fun inp => !b.sem inp x) := by
  have h := xor_post hb hx (show 1 < b.counter from by have := c2 hb; omega)
  obtain ⟨wf, e, hlt, hs⟩ := h
  refine ⟨wf, e, hlt, fun inp hi => ?_⟩
  rw [show b.not x = b.xor x 1 from rfl, hs inp hi]
  dsimp only
  rw [sem_one]
  cases b.sem inp x <;> rfl

theorem or_post {b : Builder} (hb : WF b) {x y : Nat} (hx : x < b.counter) (hy : y < b.counter) :
    PostV b (b.or x y) (fun inp => b.sem inp x || b.sem inp y) := by
  have h1 := xor_post hb hx hy
  simp only [Builder.or]
  generalize b.xor x y = r1 at *
  obtain ⟨xo, b1⟩ := r1
  obtain ⟨wf1, e1, hxo, s1⟩ := h1
  simp only at wf1 e1 hxo s1 ⊢
  have hx1 : x < b1.counter := Nat.lt_of_lt_of_le hx e1.counter_le
  have hy1 : y < b1.counter := Nat.lt_of_lt_of_le hy e1.counter_le
  have h2 := and_post wf1 hx1 hy1
  generalize b1.and x y = r2 at *
  obtain ⟨an, b2⟩ := r2
  obtain ⟨wf2, e2, han, s2⟩ := h2
  simp only at wf2 e2 han s2 ⊢
  have hxo2 : xo < b2.counter := Nat.lt_of_lt_of_le hxo e2.counter_le
  have h3 := xor_post wf2 hxo2 han
  refine PostV.chain (e1.trans e2) h3 ?_
  intro inp hi
  have hi1 : inp.length + 2 = b1.shift := by rw [e1.shift]; exact hi
  rw [s2 inp hi1, e2.sem_eq inp hi1 xo hxo, s1 inp hi, e1.sem_eq inp hi x hx, e1.sem_eq inp hi y hy]
  cases b.sem inp x <;> cases b.sem inp y <;> rfl

theorem eq_post {b : Builder} (hb : WF b) {x y : Nat} (hx : x < b.counter) (hy : y < b.counter) :
    PostV b (b.eq x y) (fun inp => b.sem inp x == b.sem inp y) := by
  have h1 := xor_post hb hx hy
  simp only [Builder.eq]
  generalize b.xor x y = r1 at *
  obtain ⟨xo, b1⟩ := r1
  obtain ⟨wf1, e1, hxo, s1⟩ := h1
  simp only at wf1 e1 hxo s1 ⊢
  have h2 := xor_post wf1 hxo (show 1 < b1.counter from by have := c2 wf1; omega)
  refine PostV.chain e1 h2 ?_
  intro inp hi
  rw [s1 inp hi, sem_one]
  cases b.sem inp x <;> cases b.sem inp y <;> rfl

theorem mux_post {b : Builder} (hb : WF b) {s x0 x1 : Nat} (hs : s < b.counter)
    (hx0 : x0 < b.counter) (hx1 : x1 < b.counter) :
    PostV b (b.mux s x0 x1) (fun inp => if b.sem inp s then b.sem inp x0 else b.sem inp x1) := by
  simp only [Builder.mux]
  split
  · rename_i he
    subst he
    exact ⟨hb, Ext.refl b, hx0, fun inp _ => by simp⟩
  · have h1 := xor_post hb hx0 hx1
    generalize b.xor x0 x1 = r1 at *
    obtain ⟨x, b1⟩ := r1
    obtain ⟨wf1, e1, hx, s1⟩ := h1
    simp only at wf1 e1 hx s1 ⊢
    have h2 := not_post wf1 (Nat.lt_of_lt_of_le hs e1.counter_le)
    generalize b1.not s = r2 at *
    obtain ⟨ns, b2⟩ := r2
    obtain ⟨wf2, e2, hns, s2⟩ := h2
    simp only at wf2 e2 hns s2 ⊢
    have h3 := and_post wf2 (Nat.lt_of_lt_of_le hx e2.counter_le) hns
    generalize b2.and x ns = r3 at *
    obtain ⟨sw, b3⟩ := r3
    obtain ⟨wf3, e3, hsw, s3⟩ := h3
    simp only at wf3 e3 hsw s3 ⊢
    have e12 := e1.trans e2
    have e123 := e12.trans e3
    have h4 := xor_post wf3 (Nat.lt_of_lt_of_le hx0 e123.counter_le) hsw
    refine PostV.chain e123 h4 ?_
    intro inp hi
    have hi1 : inp.length + 2 = b1.shift := by rw [e1.shift]; exact hi
    have hi2 : inp.length + 2 = b2.shift := by rw [e2.shift]; exact hi1
    rw [s3 inp hi2, s2 inp hi1, e2.sem_eq inp hi1 x hx, s1 inp hi, e1.sem_eq inp hi s hs,
      e123.sem_eq inp hi x0 hx0]
    cases b.sem inp s <;> cases b.sem inp x0 <;> cases b.sem inp x1 <;> rfl

/-- post-condition of `adder`: two result wires -/
def PostV2 (b : Builder) (r : (Nat × Nat) × Builder) (v1 v2 : List Bool → Bool) : Prop :=
  WF r.2 ∧ Ext b r.2 ∧ r.1.1 < r.2.counter ∧ r.1.2 < r.2.counter ∧
  ∀ inp, inp.length + 2 = b.shift → r.2.sem inp r.1.1 = v1 inp ∧ r.2.sem inp r.1.2 = v2 inp

theorem adder_post {b : Builder} (hb : WF b) {x y c : Nat} (hx : x < b.counter)
    (hy : y < b.counter) (hc : c < b.counter) :
    PostV2 b (b.adder x y c)
      (fun inp => (b.sem inp x ^^ b.sem inp y) ^^ b.sem inp c)
      (fun inp => (b.sem inp x && b.sem inp y) || ((b.sem inp x ^^ b.sem inp y) && b.sem inp c)) := by
  simp only [Builder.adder]
  have h1 := xor_post hb hx hy
  generalize b.xor x y = r1 at *
  obtain ⟨u, b1⟩ := r1
  obtain ⟨wf1, e1, hu, s1⟩ := h1
  simp only at wf1 e1 hu s1 ⊢
  have h2 := and_post wf1 (Nat.lt_of_lt_of_le hx e1.counter_le) (Nat.lt_of_lt_of_le hy e1.counter_le)
  generalize b1.and x y = r2 at *
  obtain ⟨v, b2⟩ := r2
  obtain ⟨wf2, e2, hv, s2⟩ := h2
  simp only at wf2 e2 hv s2 ⊢
  have e12 := e1.trans e2
  have h3 := xor_post wf2 (Nat.lt_of_lt_of_le hu e2.counter_le) (Nat.lt_of_lt_of_le hc e12.counter_le)
  generalize b2.xor u c = r3 at *
  obtain ⟨s, b3⟩ := r3
  obtain ⟨wf3, e3, hs, s3⟩ := h3
  simp only at wf3 e3 hs s3 ⊢
  have e123 := e12.trans e3
  have e23 := e2.trans e3
  have h4 := and_post wf3 (Nat.lt_of_lt_of_le hu e23.counter_le) (Nat.lt_of_lt_of_le hc e123.counter_le)
  generalize b3.and u c = r4 at *
  obtain ⟨w, b4⟩ := r4
  obtain ⟨wf4, e4, hw, s4⟩ := h4
  simp only at wf4 e4 hw s4 ⊢
  have e34 := e3.trans e4
  have h5 := or_post wf4 (Nat.lt_of_lt_of_le hv e34.counter_le) hw
  generalize b4.or v w = r5 at *
  obtain ⟨c', b5⟩ := r5
  obtain ⟨wf5, e5, hc', s5⟩ := h5
  simp only at wf5 e5 hc' s5 ⊢
  have e45 := e4.trans e5
  refine ⟨wf5, (e123.trans e4).trans e5, Nat.lt_of_lt_of_le hs e45.counter_le, hc', ?_⟩
  intro inp hi
  have hi1 : inp.length + 2 = b1.shift := by rw [e1.shift]; exact hi
  have hi2 : inp.length + 2 = b2.shift := by rw [e2.shift]; exact hi1
  have hi3 : inp.length + 2 = b3.shift := by rw [e3.shift]; exact hi2
  have hi4 : inp.length + 2 = b4.shift := by rw [e4.shift]; exact hi3
  -- values of the intermediate wires, all expressed in `b`
  have vu : b1.sem inp u = (b.sem inp x ^^ b.sem inp y) := s1 inp hi
  have vu2 : b2.sem inp u = (b.sem inp x ^^ b.sem inp y) := by rw [e2.sem_eq inp hi1 u hu, vu]
  have vc2 : b2.sem inp c = b.sem inp c := e12.sem_eq inp hi c hc
  have vv : b2.sem inp v = (b.sem inp x && b.sem inp y) := by
    rw [s2 inp hi1, e1.sem_eq inp hi x hx, e1.sem_eq inp hi y hy]
  have vs : b3.sem inp s = ((b.sem inp x ^^ b.sem inp y) ^^ b.sem inp c) := by
    rw [s3 inp hi2, vu2, vc2]
  have vu3 : b3.sem inp u = (b.sem inp x ^^ b.sem inp y) := by
    rw [e3.sem_eq inp hi2 u (Nat.lt_of_lt_of_le hu e2.counter_le), vu2]
  have vc3 : b3.sem inp c = b.sem inp c := e123.sem_eq inp hi c hc
  have vw : b4.sem inp w = ((b.sem inp x ^^ b.sem inp y) && b.sem inp c) := by
    rw [s4 inp hi3, vu3, vc3]
  have vv4 : b4.sem inp v = (b.sem inp x && b.sem inp y) := by
    rw [e34.sem_eq inp hi2 v hv, vv]
  constructor
  · rw [e45.sem_eq inp hi3 s hs, vs]
  · rw [s5 inp hi4, vv4, vw]

end Builder

/-! ### request sequences -/
namespace Req
open Builder

/-- invariant of `run`: results are valid wires carrying the literal values `vs` -/
structure RunInv (ig : List Nat) (st : Builder × List Nat) (vs : List Bool → List Bool) : Prop where
  wf : WF st.1
  shift : st.1.shift = ig.sum + 2
  lt : ∀ w, w ∈ st.2 → w < st.1.counter
  vals : ∀ inp, inp.length + 2 = st.1.shift → st.2.map (st.1.sem inp) = vs inp

theorem RunInv.get {ig st vs} (h : RunInv ig st vs) {inp : List Bool} (hi : inp.length + 2 = st.1.shift)
    (x : Nat) : (vs inp)[x]? = (st.2[x]?).map (st.1.sem inp) := by
  rw [← h.vals inp hi, List.getElem?_map]

theorem mem_of_getElem? {l : List Nat} {i w : Nat} (h : l[i]? = some w) : w ∈ l :=
  List.mem_of_getElem? h

/-- extending the state by one result wire -/
theorem RunInv.push {ig : List Nat} {b : Builder} {rs : List Nat} {vs : List Bool → List Bool}
    (h : RunInv ig (b, rs) vs) {r : Nat × Builder} {v : List Bool → Bool} (hp : PostV b r v) :
    RunInv ig (r.2, rs ++ [r.1]) (fun inp => vs inp ++ [v inp]) := by
  obtain ⟨wf, e, hlt, hs⟩ := hp
  refine ⟨wf, by rw [e.shift]; exact h.shift, ?_, ?_⟩
  · intro w hw
    simp only [List.mem_append, List.mem_singleton] at hw
    rcases hw with hw | rfl
    · exact Nat.lt_of_lt_of_le (h.lt w hw) e.counter_le
    · exact hlt
  · intro inp hi
    have hi' : inp.length + 2 = b.shift := by rw [← e.shift]; exact hi
    simp only [List.map_append, List.map_cons, List.map_nil]
    rw [hs inp hi', ← h.vals inp hi']
    congr 1
    apply List.map_congr_left
    intro w hw
    exact e.sem_eq inp hi' w (h.lt w hw)

theorem RunInv.push2 {ig : List Nat} {b : Builder} {rs : List Nat} {vs : List Bool → List Bool}
    (h : RunInv ig (b, rs) vs) {r : (Nat × Nat) × Builder} {v1 v2 : List Bool → Bool}
    (hp : PostV2 b r v1 v2) :
    RunInv ig (r.2, rs ++ [r.1.1, r.1.2]) (fun inp => vs inp ++ [v1 inp, v2 inp]) := by
  obtain ⟨wf, e, hlt1, hlt2, hs⟩ := hp
  refine ⟨wf, by rw [e.shift]; exact h.shift, ?_, ?_⟩
  · intro w hw
    simp only [List.mem_append, List.mem_cons, List.mem_nil_iff, or_false] at hw
    rcases hw with hw | rfl | rfl
    · exact Nat.lt_of_lt_of_le (h.lt w hw) e.counter_le
    · exact hlt1
    · exact hlt2
  · intro inp hi
    have hi' : inp.length + 2 = b.shift := by rw [← e.shift]; exact hi
    simp only [List.map_append, List.map_cons, List.map_nil]
    rw [(hs inp hi').1, (hs inp hi').2, ← h.vals inp hi']
    congr 1
    apply List.map_congr_left
    intro w hw
    exact e.sem_eq inp hi' w (h.lt w hw)

theorem RunInv.congr {ig st vs vs'} (h : RunInv ig st vs)
    (hv : ∀ inp, inp.length + 2 = st.1.shift → vs inp = vs' inp) : RunInv ig st vs' :=
  ⟨h.wf, h.shift, h.lt, fun inp hi => by rw [h.vals inp hi, hv inp hi]⟩

theorem step_bin {ig : List Nat} {b : Builder} {rs : List Nat} {vs : List Bool → List Bool}
    (h : RunInv ig (b, rs) vs) (x y : Nat)
    (f : Builder → Nat → Nat → Nat × Builder) (op : Bool → Bool → Bool)
    (hf : ∀ {b : Builder}, WF b → ∀ {x y : Nat}, x < b.counter → y < b.counter →
      PostV b (f b x y) (fun inp => op (b.sem inp x) (b.sem inp y))) :
    RunInv ig
      (match rs[x]?, rs[y]? with
        | some x, some y => ((f b x y).2, rs ++ [(f b x y).1])
        | _, _ => (b, rs))
      (fun inp => match (vs inp)[x]?, (vs inp)[y]? with
        | some x, some y => vs inp ++ [op x y]
        | _, _ => vs inp) := by
  cases hx : rs[x]? with
  | none =>
    refine h.congr (fun inp hi => ?_)
    have := h.get hi x
    simp only [hx, Option.map_none] at this
    simp [this]
  | some wx =>
    cases hy : rs[y]? with
    | none =>
      refine h.congr (fun inp hi => ?_)
      have := h.get hi y
      simp only [hy, Option.map_none] at this
      simp only [this]
      split <;> simp_all
    | some wy =>
      have hp := hf h.wf (h.lt wx (mem_of_getElem? hx)) (h.lt wy (mem_of_getElem? hy))
      have := h.push hp
      refine this.congr (fun inp hi => ?_)
      have hi' : inp.length + 2 = b.shift := by
        have := hp.2.1.shift
        simp only at hi this ⊢
        rw [← this]; exact hi
      have gx := h.get hi' x
      have gy := h.get hi' y
      simp only [hx, hy, Option.map_some] at gx gy
      simp only [gx, gy]

theorem step_inv {ig : List Nat} {st : Builder × List Nat} {vs : List Bool → List Bool}
    (h : RunInv ig st vs) (r : Req) : RunInv ig (step st r) (fun inp => litStep (vs inp) r) := by
  obtain ⟨b, rs⟩ := st
  cases r with
  | xor x y => exact step_bin h x y Builder.xor (· ^^ ·) (fun hb _ _ hx hy => xor_post hb hx hy)
  | and x y => exact step_bin h x y Builder.and (· && ·) (fun hb _ _ hx hy => and_post hb hx hy)
  | or x y => exact step_bin h x y Builder.or (· || ·) (fun hb _ _ hx hy => or_post hb hx hy)
  | eq x y => exact step_bin h x y Builder.eq (· == ·) (fun hb _ _ hx hy => eq_post hb hx hy)
  | not x =>
    show RunInv ig (match rs[x]? with
        | some x => ((b.not x).2, rs ++ [(b.not x).1])
        | _ => (b, rs))
      (fun inp => match (vs inp)[x]? with
        | some x => vs inp ++ [!x]
        | _ => vs inp)
    cases hx : rs[x]? with
    | none =>
      refine h.congr (fun inp hi => ?_)
      have := h.get hi x
      simp only [hx, Option.map_none] at this
      simp [this]
    | some wx =>
      have hp := not_post h.wf (h.lt wx (mem_of_getElem? hx))
      refine (h.push hp).congr (fun inp hi => ?_)
      have hi' : inp.length + 2 = b.shift := by
        have := hp.2.1.shift
        simp only at hi this ⊢
        rw [← this]; exact hi
      have gx := h.get hi' x
      simp only [hx, Option.map_some] at gx
      simp only [gx]
  | mux s x0 x1 =>
    show RunInv ig (match rs[s]?, rs[x0]?, rs[x1]? with
        | some s, some x0, some x1 => ((b.mux s x0 x1).2, rs ++ [(b.mux s x0 x1).1])
        | _, _, _ => (b, rs))
      (fun inp => match (vs inp)[s]?, (vs inp)[x0]?, (vs inp)[x1]? with
        | some s, some x0, some x1 => vs inp ++ [if s then x0 else x1]
        | _, _, _ => vs inp)
    cases hs : rs[s]? with
    | none =>
      refine h.congr (fun inp hi => ?_)
      have := h.get hi s
      simp only [hs, Option.map_none] at this
      simp [this]
    | some ws =>
      cases hx0 : rs[x0]? with
      | none =>
        refine h.congr (fun inp hi => ?_)
        have := h.get hi x0
        simp only [hx0, Option.map_none] at this
        simp only [this]
        split <;> simp_all
      | some w0 =>
        cases hx1 : rs[x1]? with
        | none =>
          refine h.congr (fun inp hi => ?_)
          have := h.get hi x1
          simp only [hx1, Option.map_none] at this
          simp only [this]
          split <;> simp_all
        | some w1 =>
          have hp := mux_post h.wf (h.lt ws (mem_of_getElem? hs)) (h.lt w0 (mem_of_getElem? hx0))
            (h.lt w1 (mem_of_getElem? hx1))
          refine (h.push hp).congr (fun inp hi => ?_)
          have hi' : inp.length + 2 = b.shift := by
            have := hp.2.1.shift
            simp only at hi this ⊢
            rw [← this]; exact hi
          have gs := h.get hi' s
          have g0 := h.get hi' x0
          have g1 := h.get hi' x1
          simp only [hs, hx0, hx1, Option.map_some] at gs g0 g1
          simp only [gs, g0, g1]
  | adder x y c =>
    show RunInv ig (match rs[x]?, rs[y]?, rs[c]? with
        | some x, some y, some c => ((b.adder x y c).2, rs ++ [(b.adder x y c).1.1, (b.adder x y c).1.2])
        | _, _, _ => (b, rs))
      (fun inp => match (vs inp)[x]?, (vs inp)[y]?, (vs inp)[c]? with
        | some x, some y, some c => vs inp ++ [(x ^^ y) ^^ c, (x && y) || ((x ^^ y) && c)]
        | _, _, _ => vs inp)
    cases hx : rs[x]? with
    | none =>
      refine h.congr (fun inp hi => ?_)
      have := h.get hi x
      simp only [hx, Option.map_none] at this
      simp [this]
    | some wx =>
      cases hy : rs[y]? with
      | none =>
        refine h.congr (fun inp hi => ?_)
        have := h.get hi y
        simp only [hy, Option.map_none] at this
        simp only [this]
        split <;> simp_all
      | some wy =>
        cases hc : rs[c]? with
        | none =>
          refine h.congr (fun inp hi => ?_)
          have := h.get hi c
          simp only [hc, Option.map_none] at this
          simp only [this]
          split <;> simp_all
        | some wc =>
          have hp := adder_post h.wf (h.lt wx (mem_of_getElem? hx)) (h.lt wy (mem_of_getElem? hy))
            (h.lt wc (mem_of_getElem? hc))
          refine (h.push2 hp).congr (fun inp hi => ?_)
          have hi' : inp.length + 2 = b.shift := by
            have := hp.2.1.shift
            simp only at hi this ⊢
            rw [← this]; exact hi
          have gx := h.get hi' x
          have gy := h.get hi' y
          have gc := h.get hi' c
          simp only [hx, hy, hc, Option.map_some] at gx gy gc
          simp only [gx, gy, gc]

/-- a request never switches gate de-duplication on or off -/
theorem step_cacheOn {ig : List Nat} {st : Builder × List Nat} {vs : List Bool → List Bool}
    (h : RunInv ig st vs) (r : Req) : (step st r).1.cacheOn = st.1.cacheOn := by
  obtain ⟨b, rs⟩ := st
  have lt : ∀ {i w}, rs[i]? = some w → w < b.counter := fun hi => h.lt _ (mem_of_getElem? hi)
  cases r with
  | xor x y =>
    simp only [step]
    cases hx : rs[x]? <;> cases hy : rs[y]? <;> simp only
    exact (xor_post h.wf (lt hx) (lt hy)).2.1.cacheOn
  | and x y =>
    simp only [step]
    cases hx : rs[x]? <;> cases hy : rs[y]? <;> simp only
    exact (and_post h.wf (lt hx) (lt hy)).2.1.cacheOn
  | or x y =>
    simp only [step]
    cases hx : rs[x]? <;> cases hy : rs[y]? <;> simp only
    exact (or_post h.wf (lt hx) (lt hy)).2.1.cacheOn
  | eq x y =>
    simp only [step]
    cases hx : rs[x]? <;> cases hy : rs[y]? <;> simp only
    exact (eq_post h.wf (lt hx) (lt hy)).2.1.cacheOn
  | not x =>
    simp only [step]
    cases hx : rs[x]? <;> simp only
    exact (not_post h.wf (lt hx)).2.1.cacheOn
  | mux s x0 x1 =>
    simp only [step]
    cases hs : rs[s]? <;> cases hx0 : rs[x0]? <;> cases hx1 : rs[x1]? <;> simp only
    exact (mux_post h.wf (lt hs) (lt hx0) (lt hx1)).2.1.cacheOn
  | adder x y c =>
    simp only [step]
    cases hx : rs[x]? <;> cases hy : rs[y]? <;> cases hc : rs[c]? <;> simp only
    exact (adder_post h.wf (lt hx) (lt hy) (lt hc)).2.1.cacheOn

/-- the initial state -/
theorem new_wf (ig : List Nat) (cacheOn : Bool) : WF (Builder.new ig cacheOn) := by
  refine ⟨by simp [Builder.new], ?_, ?_, ?_, ?_, ?_, ?_⟩
  · intro i g h; simp [Builder.new] at h
  · intro g w h; simp [Builder.new] at h
  · intro a n h; simp [Builder.new] at h
  · intro i x y h; simp [Builder.new] at h
  · intro _ i x y h; simp [Builder.new] at h
  · intro _ i j x y x' y' h; simp [Builder.new] at h

theorem init_inv (ig : List Nat) (cacheOn : Bool) :
    RunInv ig (Builder.new ig cacheOn, initResults ig) (fun inp => false :: true :: inp) := by
  refine ⟨new_wf ig cacheOn, rfl, ?_, ?_⟩
  · intro w hw
    simp only [initResults, List.mem_range] at hw
    simp [Builder.new, counter]; omega
  · intro inp hi
    simp only [Builder.new] at hi
    apply List.ext_getElem
    · simp [initResults]; omega
    · intro i h1 h2
      simp only [List.getElem_map, initResults, List.getElem_range]
      simp only [sem, vals, Builder.new, valsFrom, List.foldl_nil]
      simp [List.getD_eq_getElem?_getD, List.getElem?_eq_getElem h2]

theorem run_inv (ig : List Nat) (cacheOn : Bool) (reqs : List Req) :
    RunInv ig (run ig cacheOn reqs) (fun inp => literal reqs inp) := by
  suffices ∀ (st : Builder × List Nat) (vs : List Bool → List Bool), RunInv ig st vs →
      RunInv ig (reqs.foldl step st) (fun inp => reqs.foldl litStep (vs inp)) from
    this _ _ (init_inv ig cacheOn)
  induction reqs with
  | nil => intro st vs h; exact h
  | cons r rs ih =>
    intro st vs h
    simp only [List.foldl_cons]
    exact ih _ _ (step_inv h r)

theorem run_cacheOn (ig : List Nat) (cacheOn : Bool) (reqs : List Req) :
    (run ig cacheOn reqs).1.cacheOn = cacheOn := by
  suffices ∀ (st : Builder × List Nat) (vs : List Bool → List Bool), RunInv ig st vs →
      (reqs.foldl step st).1.cacheOn = st.1.cacheOn from by
    have := this _ _ (init_inv ig cacheOn)
    simpa [run, Builder.new] using this
  induction reqs with
  | nil => intro st vs _; rfl
  | cons r rs ih =>
    intro st vs h
    simp only [List.foldl_cons]
    rw [ih _ _ (step_inv h r), step_cacheOn h r]

end Req
end GV
