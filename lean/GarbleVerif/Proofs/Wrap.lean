import GarbleVerif.Model.SrcSem
/-! `wrapTo`: the value of the low bits of an integer read in a type. -/
namespace GV
namespace Src

theorem wrapTo_range (k : IntTy) (n : Int) : k.lo ≤ wrapTo k n ∧ wrapTo k n ≤ k.hi := by
  have hpos : (0 : Int) < (2 : Int) ^ k.bits := Int.pow_pos (by decide)
  have h0 := Int.emod_nonneg n (Int.ne_of_gt hpos)
  have h1 := Int.emod_lt_of_pos n hpos
  have hb : 1 ≤ k.bits := by cases k <;> decide
  have hhalf : (2 : Int) ^ k.bits = 2 * (2 : Int) ^ (k.bits - 1) := by
    have : k.bits = (k.bits - 1) + 1 := by omega
    rw [this, Int.pow_succ]; simp; omega
  unfold wrapTo IntTy.lo IntTy.hi
  generalize (2 : Int) ^ k.bits = P at *
  generalize (2 : Int) ^ (k.bits - 1) = H at *
  cases hs : k.signed
  · simp only [Bool.false_and, Bool.false_eq_true, if_false]
    omega
  · simp only [Bool.true_and, if_true]
    by_cases hge : n % P ≥ H
    · simp only [hge, decide_true, if_true]
      omega
    · simp only [hge, decide_false, Bool.false_eq_true, if_false]
      omega

theorem wrapTo_emod (k : IntTy) (n : Int) : wrapTo k n % (2 : Int) ^ k.bits = n % (2 : Int) ^ k.bits := by
  unfold wrapTo
  simp only
  split
  · have : n % (2 : Int) ^ k.bits - (2 : Int) ^ k.bits = n % (2 : Int) ^ k.bits + (-1) * (2 : Int) ^ k.bits := by omega
    rw [this, Int.add_mul_emod_self_right, Int.emod_emod_of_dvd _ (Int.dvd_refl _)]
  · exact Int.emod_emod_of_dvd _ (Int.dvd_refl _)

theorem wrapTo_eq_of_emod_eq (k : IntTy) (a b : Int) (h : a % (2 : Int) ^ k.bits = b % (2 : Int) ^ k.bits) :
    wrapTo k a = wrapTo k b := by
  unfold wrapTo
  simp only [h]

end Src
end GV
