import GarbleVerif.Model.BitSem
/-!
# The bit-level evaluation keeps the scope stack: names and types of the variables

An expression leaves exactly the variables it found (their bits may have changed); a statement list
only adds the bindings of its own `let`s in front. This is what makes the variable-by-variable merge
of `mux_envs` meaningful: both branches of an `if` end with the same variables in the same order.
-/
namespace GV
namespace Bit
open Src

/-- names and types of the variables in scope -/
def shape (b : BEnv) : List (String × VTy) := b.map fun e => (e.1, e.2.1)

@[simp] theorem shape_nil : shape [] = [] := rfl
@[simp] theorem shape_cons (n : String) (t : VTy) (bs : List Bool) (b : BEnv) :
    shape ((n, t, bs) :: b) = (n, t) :: shape b := rfl

theorem shape_length (b : BEnv) : (shape b).length = b.length := by simp [shape]

theorem shape_set (b : BEnv) (x : String) (w : List Bool) : shape (b.set x w) = shape b := by
  induction b with
  | nil => rfl
  | cons e r ih =>
    obtain ⟨n, t, bs⟩ := e
    simp only [BEnv.set]
    split <;> simp [ih]

theorem muxEnv_true (a b : BEnv) (h : a.length = b.length) : muxEnv true a b = a := by
  induction a generalizing b with
  | nil => cases b <;> simp [muxEnv]
  | cons e r ih =>
    obtain ⟨n, t, x⟩ := e
    cases b with
    | nil => simp at h
    | cons f s =>
      obtain ⟨m, u, y⟩ := f
      simp only [muxEnv, if_true, List.cons.injEq, true_and]
      exact ih s (by simpa using h)

theorem muxEnv_false (a b : BEnv) (h : shape a = shape b) : muxEnv false a b = b := by
  induction a generalizing b with
  | nil =>
    cases b with
    | nil => rfl
    | cons f s => simp [shape] at h
  | cons e r ih =>
    obtain ⟨n, t, x⟩ := e
    cases b with
    | nil => simp [shape] at h
    | cons f s =>
      obtain ⟨m, u, y⟩ := f
      simp only [shape_cons, List.cons.injEq, Prod.mk.injEq] at h
      obtain ⟨⟨rfl, rfl⟩, hs⟩ := h
      simp only [muxEnv, Bool.false_eq_true, if_false, List.cons.injEq, true_and]
      exact ih s hs

theorem muxEnv_eq (c : Bool) (a b : BEnv) (h : shape a = shape b) : muxEnv c a b = if c then a else b := by
  cases c
  · simp [muxEnv_false a b h]
  · have : a.length = b.length := by rw [← shape_length a, ← shape_length b, h]
    simp [muxEnv_true a b this]

theorem shape_muxEnv (c : Bool) (a b : BEnv) (h : shape a = shape b) : shape (muxEnv c a b) = shape a := by
  rw [muxEnv_eq c a b h]; cases c <;> simp [h]

theorem shape_restoreB (outer inner : BEnv) (pre : List (String × VTy)) (h : shape inner = pre ++ shape outer) :
    shape (restoreB outer inner) = shape outer := by
  have hl : inner.length = pre.length + outer.length := by
    rw [← shape_length inner, h, List.length_append, shape_length]
  unfold restoreB shape
  rw [List.map_drop]
  have : inner.length - outer.length = pre.length := by omega
  rw [this]
  have h2 : (inner.map fun e => (e.1, e.2.1)).drop pre.length = outer.map fun e => (e.1, e.2.1) := by
    have := congrArg (List.drop pre.length) h
    simpa [shape] using this
  exact h2

theorem litMul_some {neg : Bool} {n : Nat} {k : IntTy} {ty : Ty} {other : Option (VTy × List Bool × P × BEnv)}
    {t : VTy} {bs : List Bool} {p : P} {env : BEnv} (h : litMul neg n k ty other = some (t, bs, p, env)) :
    neg = false ∧ STy.ofTy ty = some (.int k) ∧ ∃ y p2, other = some (.s (.int k), y, p2, env) ∧
      t = .s (.int k) ∧ bs = (Arith.constMul y k.signed n false).1 ∧
      p = seqP p2 (if (Arith.constMul y k.signed n false).2 then some .overflow else none) := by
  unfold litMul at h
  split at h
  · simp at h
  · rename_i hneg
    split at h
    · rename_i k' y p2 env2
      split at h
      · rename_i hk
        simp only [Option.some.injEq, Prod.mk.injEq] at h
        obtain ⟨rfl, rfl, rfl, rfl⟩ := h
        obtain ⟨rfl, hty⟩ := hk
        exact ⟨by simpa using hneg, hty, y, p2, rfl, rfl, rfl, rfl⟩
      · simp at h
    · simp at h

theorem shape_aggEq {op : Src.BinOp} {ty : Ty} {ra : Option (VTy × List Bool × P × BEnv)}
    {rb : BEnv → Option (VTy × List Bool × P × BEnv)} {benv : BEnv} {r : VTy × List Bool × P × BEnv}
    (h : aggEq op ty ra rb = some r)
    (ha : ∀ t x p e, ra = some (t, x, p, e) → shape e = shape benv)
    (hb : ∀ e0 t x p e, rb e0 = some (t, x, p, e) → shape e = shape e0) : shape r.2.2.2 = shape benv := by
  unfold aggEq at h
  split at h
  · split at h
    · rename_i ta x p1 env1
      split at h
      · rename_i tb y p2 env2 hrb
        split at h
        · simp only [Option.some.injEq] at h
          subst h
          rw [hb _ _ _ _ _ hrb, ha _ _ _ _ rfl]
        · simp at h
      · simp at h
    · simp at h
  · simp at h

/-- an unrolled loop keeps the variables it found, if every iteration only adds bindings in front -/
theorem shape_foldLoop (f : List Bool → BEnv → Option (P × BEnv))
    (hf : ∀ el env pb envb, f el env = some (pb, envb) → ∃ pre, shape envb = pre ++ shape env) :
    ∀ (els : List (List Bool)) (p0 : P) (e0 : BEnv) (p2 : P) (env2 : BEnv),
      foldLoop f els (p0, e0) = some (p2, env2) → shape env2 = shape e0
  | [], p0, e0, p2, env2, h => by
    simp only [foldLoop, Option.some.injEq, Prod.mk.injEq] at h; obtain ⟨_, rfl⟩ := h; rfl
  | el :: rest, p0, e0, p2, env2, h => by
    simp only [foldLoop] at h
    split at h
    · rename_i pb envb hfe
      obtain ⟨pre, hpre⟩ := hf el e0 pb envb hfe
      rw [shape_foldLoop f hf rest _ _ _ _ h]
      exact shape_restoreB _ _ pre hpre
    · simp at h

theorem shape_drop (b : BEnv) (n : Nat) : shape (b.drop n) = (shape b).drop n := by
  simp [shape, List.map_drop]

theorem shape_append (a b : BEnv) : shape (a ++ b) = shape a ++ shape b := by simp [shape]

/-- leaving an arm: the pattern's bindings are dropped again -/
theorem shape_armOut (bb benv1 enve : BEnv) (h : shape enve = shape (armEnv bb benv1)) :
    shape (armOut bb enve) = shape benv1 := by
  rw [armOut, shape_drop, h, armEnv, shape_append, ← shape_length bb, List.drop_left]

mutual
theorem shapeE (call : Ctx) : (e : Expr) → ∀ (benv : BEnv) (t : VTy) (bs : List Bool) (p : P) (benv' : BEnv),
    bitExpr call benv e = some (t, bs, p, benv') → shape benv' = shape benv
  | .bool b, benv, t, bs, p, benv', h => by
    simp only [bitExpr, Option.some.injEq, Prod.mk.injEq] at h; obtain ⟨_, _, _, rfl⟩ := h; rfl
  | .int n k, benv, t, bs, p, benv', h => by
    simp only [bitExpr] at h
    split at h
    · simp only [Option.some.injEq, Prod.mk.injEq] at h; obtain ⟨_, _, _, rfl⟩ := h; rfl
    · simp at h
  | .var x, benv, t, bs, p, benv', h => by
    simp only [bitExpr] at h
    split at h
    · simp only [Option.some.injEq, Prod.mk.injEq] at h; obtain ⟨_, _, _, rfl⟩ := h; rfl
    · simp at h
  | .un op ty a, benv, t, bs, p, benv', h => by
    cases op with
    | not =>
      cases ty <;> simp only [bitExpr] at h
      case bool =>
        split at h
        · rename_i b p1 env1 ha
          simp only [Option.some.injEq, Prod.mk.injEq] at h; obtain ⟨_, _, _, rfl⟩ := h
          exact shapeE call a _ _ _ _ _ ha
        · simp at h
      case int k =>
        split at h
        · rename_i k' bs' p1 env1 ha
          split at h
          · simp only [Option.some.injEq, Prod.mk.injEq] at h; obtain ⟨_, _, _, rfl⟩ := h
            exact shapeE call a _ _ _ _ _ ha
          · simp at h
        · simp at h
      all_goals (simp at h)
    | neg =>
      cases ty <;> simp only [bitExpr] at h
      case int k =>
        split at h
        · split at h
          · rename_i k' bs' p1 env1 ha
            split at h
            · simp only [Option.some.injEq, Prod.mk.injEq] at h; obtain ⟨_, _, _, rfl⟩ := h
              exact shapeE call a _ _ _ _ _ ha
            · simp at h
          · simp at h
        · simp at h
      all_goals (simp at h)
  | .cast src dst a, benv, t, bs, p, benv', h => by
    simp only [bitExpr] at h
    split at h
    · split at h
      · rename_i ta x p1 env1 ha
        split at h
        · simp only [Option.some.injEq, Prod.mk.injEq] at h; obtain ⟨_, _, _, rfl⟩ := h
          exact shapeE call a _ _ _ _ _ ha
        · simp at h
      · simp at h
    · simp at h
  | .ite c tb fb, benv, t, bs, p, benv', h => by
    simp only [bitExpr] at h
    split at h
    · rename_i cb pc env1 hc
      split at h
      · rename_i tt tbits pt envT tf fbits pf envF hT hF
        split at h
        · simp only [Option.some.injEq, Prod.mk.injEq] at h; obtain ⟨_, _, _, rfl⟩ := h
          have h1 := shapeE call c _ _ _ _ _ hc
          have h2 := shapeE call tb _ _ _ _ _ hT
          have h3 := shapeE call fb _ _ _ _ _ hF
          rw [shape_muxEnv _ _ _ (by rw [h2, h3]), h2, h1]
        · simp at h
      · simp at h
    · simp at h
  | .block ss, benv, t, bs, p, benv', h => by
    simp only [bitExpr] at h
    split at h
    · rename_i t' bs' p' env1 hs
      simp only [Option.some.injEq, Prod.mk.injEq] at h; obtain ⟨_, _, _, rfl⟩ := h
      obtain ⟨pre, hp⟩ := shapeSS call ss _ _ _ _ _ hs
      exact shape_restoreB _ _ pre hp
    · simp at h
  | .bin op ty a b, benv, t, bs, p, benv', h => by
    cases op
    case land =>
      simp only [bitExpr] at h
      split at h
      · rename_i x p1 env1 ha
        split at h
        · rename_i y p2 env2 hb
          simp only [Option.some.injEq, Prod.mk.injEq] at h; obtain ⟨_, _, _, rfl⟩ := h
          have h1 := shapeE call a _ _ _ _ _ ha
          have h2 := shapeE call b _ _ _ _ _ hb
          rw [shape_muxEnv _ _ _ h2, h2, h1]
        · simp at h
      · simp at h
    case lor =>
      simp only [bitExpr] at h
      split at h
      · rename_i x p1 env1 ha
        split at h
        · rename_i y p2 env2 hb
          simp only [Option.some.injEq, Prod.mk.injEq] at h; obtain ⟨_, _, _, rfl⟩ := h
          have h1 := shapeE call a _ _ _ _ _ ha
          have h2 := shapeE call b _ _ _ _ _ hb
          rw [shape_muxEnv _ _ _ h2.symm, h1]
        · simp at h
      · simp at h
    case shl =>
      simp only [bitExpr] at h
      split at h
      · split at h
        · rename_i k' x p1 env1 ha
          split at h
          · rename_i y p2 env2 hb
            split at h
            · simp only [Option.some.injEq, Prod.mk.injEq] at h; obtain ⟨_, _, _, rfl⟩ := h
              rw [shapeE call b _ _ _ _ _ hb, shapeE call a _ _ _ _ _ ha]
            · simp at h
          · simp at h
        · simp at h
      · simp at h
    case shr =>
      simp only [bitExpr] at h
      split at h
      · split at h
        · rename_i k' x p1 env1 ha
          split at h
          · rename_i y p2 env2 hb
            split at h
            · simp only [Option.some.injEq, Prod.mk.injEq] at h; obtain ⟨_, _, _, rfl⟩ := h
              rw [shapeE call b _ _ _ _ _ hb, shapeE call a _ _ _ _ _ ha]
            · simp at h
          · simp at h
        · simp at h
      · simp at h
    case mul =>
      simp only [bitExpr, if_true] at h
      split at h
      · obtain ⟨_, _, y, p2, ho, _⟩ := litMul_some h
        exact shapeE call b _ _ _ _ _ ho
      · obtain ⟨_, _, y, p2, ho, _⟩ := litMul_some h
        exact shapeE call a _ _ _ _ _ ho
      · split at h
        · exact shape_aggEq h (fun _ _ _ _ hh => shapeE call a _ _ _ _ _ hh) (fun _ _ _ _ _ hh => shapeE call b _ _ _ _ _ hh)
        · split at h
          · rename_i ta x p1 env1 ha
            split at h
            · rename_i tb y p2 env2 hb
              split at h
              · split at h
                · simp only [Option.some.injEq, Prod.mk.injEq] at h; obtain ⟨_, _, _, rfl⟩ := h
                  rw [shapeE call b _ _ _ _ _ hb, shapeE call a _ _ _ _ _ ha]
                · simp at h
              · simp at h
            · simp at h
          · simp at h
    all_goals
      simp only [bitExpr] at h
      split at h
      · rename_i heq; simp at heq
      · rename_i heq; simp at heq
      split at h
      · exact shape_aggEq h (fun _ _ _ _ hh => shapeE call a _ _ _ _ _ hh) (fun _ _ _ _ _ hh => shapeE call b _ _ _ _ _ hh)
      · split at h
        · rename_i ta x p1 env1 ha
          split at h
          · rename_i tb y p2 env2 hb
            split at h
            · split at h
              · simp only [Option.some.injEq, Prod.mk.injEq] at h; obtain ⟨_, _, _, rfl⟩ := h
                rw [shapeE call b _ _ _ _ _ hb, shapeE call a _ _ _ _ _ ha]
              · simp at h
            · simp at h
          · simp at h
        · simp at h
  | .tuple es, benv, t, bs, p, benv', h => by
    cases es with
    | nil => simp only [bitExpr, Option.some.injEq, Prod.mk.injEq] at h; obtain ⟨_, _, _, rfl⟩ := h; rfl
    | cons e es =>
      simp only [bitExpr] at h
      split at h
      · rename_i vs p1 env1 hl
        simp only [Option.some.injEq, Prod.mk.injEq] at h; obtain ⟨_, _, _, rfl⟩ := h
        exact shapeL call (.cons e es) _ _ _ _ hl
      · simp at h
  | .tupleGet a i, benv, t, bs, p, benv', h => by
    simp only [bitExpr] at h
    split at h
    · rename_i ts bs1 p1 env1 ha
      split at h
      · simp only [Option.some.injEq, Prod.mk.injEq] at h; obtain ⟨_, _, _, rfl⟩ := h
        exact shapeE call a _ _ _ _ _ ha
      · simp at h
    · simp at h
  | .array es, benv, t, bs, p, benv', h => by
    cases es with
    | nil => simp [bitExpr] at h
    | cons e es =>
      simp only [bitExpr] at h
      split at h
      · rename_i t0 b0 vs p1 env1 hl
        split at h
        · simp only [Option.some.injEq, Prod.mk.injEq] at h; obtain ⟨_, _, _, rfl⟩ := h
          exact shapeL call (.cons e es) _ _ _ _ hl
        · simp at h
      · simp at h
  | .repeat_ a n, benv, t, bs, p, benv', h => by
    simp only [bitExpr] at h
    split at h
    · rename_i t1 bs1 p1 env1 ha
      simp only [Option.some.injEq, Prod.mk.injEq] at h; obtain ⟨_, _, _, rfl⟩ := h
      exact shapeE call a _ _ _ _ _ ha
    · simp at h
  | .index a i, benv, t, bs, p, benv', h => by
    simp only [bitExpr] at h
    split at h
    · rename_i te n abits pa env1 ha
      split at h
      · rename_i ibits pi env2 hi
        split at h
        · simp only [Option.some.injEq, Prod.mk.injEq] at h; obtain ⟨_, _, _, rfl⟩ := h
          rw [shapeE call i _ _ _ _ _ hi, shapeE call a _ _ _ _ _ ha]
        · simp at h
      · simp at h
    · simp at h
  | .range lo hi k, benv, t, bs, p, benv', h => by
    simp only [bitExpr] at h
    split at h
    · simp only [Option.some.injEq, Prod.mk.injEq] at h; obtain ⟨_, _, _, rfl⟩ := h; rfl
    · simp at h
  | .struct name fs, benv, t, bs, p, benv', h => by
    simp only [bitExpr] at h
    split at h
    · rename_i vs p1 env1 hf
      simp only [Option.some.injEq, Prod.mk.injEq] at h; obtain ⟨_, _, _, rfl⟩ := h
      exact shapeF call fs _ _ _ _ hf
    · simp at h
  | .field a fname, benv, t, bs, p, benv', h => by
    simp only [bitExpr] at h
    split at h
    · rename_i sn fs bs1 p1 env1 ha
      split at h
      · simp only [Option.some.injEq, Prod.mk.injEq] at h; obtain ⟨_, _, _, rfl⟩ := h
        exact shapeE call a _ _ _ _ _ ha
      · simp at h
    · simp at h
  | .enumLit ename variant isUnit es, benv, t, bs, p, benv', h => by
    simp only [bitExpr] at h
    split at h
    · split at h
      · split at h
        · rename_i vs p1 env1 hl
          split at h
          · simp only [Option.some.injEq, Prod.mk.injEq] at h; obtain ⟨_, _, _, rfl⟩ := h
            exact shapeL call es _ _ _ _ hl
          · simp at h
        · simp at h
      · simp at h
    · simp at h
  | .match_ scrut arms, benv, t, bs, p, benv', h => by
    simp only [bitExpr] at h
    split at h
    · rename_i ts sb ps env1 hs
      split at h
      · split at h
        · rename_i hp t' bs' pa envF ha
          simp only [Option.some.injEq, Prod.mk.injEq] at h; obtain ⟨_, _, _, rfl⟩ := h
          rw [shapeArms call arms env1 ts.toTy sb _ _ ha rfl, shapeE call scrut _ _ _ _ _ hs]
        · simp at h
      · simp at h
    · simp at h
  | .call fn args, benv, t, bs, p, benv', h => by
    simp only [bitExpr] at h
    split at h
    · rename_i vs pargs env1 hl
      split at h
      · simp only [Option.some.injEq, Prod.mk.injEq] at h; obtain ⟨_, _, _, rfl⟩ := h
        exact shapeL call args _ _ _ _ hl
      · simp at h
    · simp at h
theorem shapeL (call : Ctx) : (es : ExprList) → ∀ (benv : BEnv) (vs : List (VTy × List Bool)) (p : P) (benv' : BEnv),
    bitList call benv es = some (vs, p, benv') → shape benv' = shape benv
  | .nil, benv, vs, p, benv', h => by
    simp only [bitList, Option.some.injEq, Prod.mk.injEq] at h; obtain ⟨_, _, rfl⟩ := h; rfl
  | .cons e rest, benv, vs, p, benv', h => by
    simp only [bitList] at h
    split at h
    · rename_i t bs p1 env1 he
      split at h
      · rename_i vs2 p2 env2 hr
        simp only [Option.some.injEq, Prod.mk.injEq] at h; obtain ⟨_, _, rfl⟩ := h
        rw [shapeL call rest _ _ _ _ hr, shapeE call e _ _ _ _ _ he]
      · simp at h
    · simp at h
theorem shapeF (call : Ctx) : (fs : FieldExprs) → ∀ (benv : BEnv) (vs : List (String × VTy × List Bool)) (p : P) (benv' : BEnv),
    bitFields call benv fs = some (vs, p, benv') → shape benv' = shape benv
  | .nil, benv, vs, p, benv', h => by
    simp only [bitFields, Option.some.injEq, Prod.mk.injEq] at h; obtain ⟨_, _, rfl⟩ := h; rfl
  | .cons n e rest, benv, vs, p, benv', h => by
    simp only [bitFields] at h
    split at h
    · rename_i t bs p1 env1 he
      split at h
      · rename_i vs2 p2 env2 hr
        simp only [Option.some.injEq, Prod.mk.injEq] at h; obtain ⟨_, _, rfl⟩ := h
        rw [shapeF call rest _ _ _ _ hr, shapeE call e _ _ _ _ _ he]
      · simp at h
    · simp at h
theorem shapeArms (call : Ctx) : (arms : Arms) → ∀ (benv1 : BEnv) (ts : Ty) (sb : List Bool) (st st' : ArmSt),
    bitArms call benv1 ts sb arms st = some st' → shape st.2.2.2 = shape benv1 → shape st'.2.2.2 = shape benv1
  | .nil, benv1, ts, sb, st, st', h, hs => by
    simp only [bitArms, Option.some.injEq] at h; subst h; exact hs
  | .cons p e rest, benv1, ts, sb, (hasPrev, ret, pacc, envAcc), st', h, hs => by
    simp only [bitArms] at h
    split at h
    · simp at h
    · rename_i m bind hpb
      split at h
      · simp at h
      · rename_i te be pe enve he
        have hse := shapeE call e _ _ _ _ _ he
        have hout : shape (armOut bind enve) = shape benv1 := shape_armOut bind benv1 enve hse
        have hmux : shape (muxEnv (!hasPrev && m) (armOut bind enve) envAcc) = shape benv1 := by
          rw [shape_muxEnv _ _ _ (by rw [hout]; exact hs.symm), hout]
        split at h
        · split at h
          · exact shapeArms call rest benv1 ts sb _ st' h hmux
          · simp at h
        · exact shapeArms call rest benv1 ts sb _ st' h hmux
theorem shapeSS (call : Ctx) : (ss : StmtList) → ∀ (benv : BEnv) (t : VTy) (bs : List Bool) (p : P) (benv' : BEnv),
    bitStmts call benv ss = some (t, bs, p, benv') → ∃ pre, shape benv' = pre ++ shape benv
  | .nil, benv, t, bs, p, benv', h => by
    simp only [bitStmts, Option.some.injEq, Prod.mk.injEq] at h; obtain ⟨_, _, _, rfl⟩ := h
    exact ⟨[], rfl⟩
  | .cons s .nil, benv, t, bs, p, benv', h => by
    simp only [bitStmts] at h
    exact shapeS call s _ _ _ _ _ h
  | .cons s (.cons s2 rest), benv, t, bs, p, benv', h => by
    simp only [bitStmts] at h
    split at h
    · rename_i t1 bs1 p1 env1 hs
      split at h
      · rename_i t2 bs2 p2 env2 hr
        simp only [Option.some.injEq, Prod.mk.injEq] at h; obtain ⟨_, _, _, rfl⟩ := h
        obtain ⟨pre1, h1⟩ := shapeS call s _ _ _ _ _ hs
        obtain ⟨pre2, h2⟩ := shapeSS call (.cons s2 rest) _ _ _ _ _ hr
        exact ⟨pre2 ++ pre1, by rw [h2, h1, List.append_assoc]⟩
      · simp at h
    · simp at h
theorem shapeS (call : Ctx) : (s : Stmt) → ∀ (benv : BEnv) (t : VTy) (bs : List Bool) (p : P) (benv' : BEnv),
    bitStmt call benv s = some (t, bs, p, benv') → ∃ pre, shape benv' = pre ++ shape benv
  | .let_ pat e, benv, t, bs, p, benv', h => by
    cases pat <;> simp only [bitStmt] at h
    case ident x =>
      split at h
      · rename_i t1 bs1 p1 env1 he
        simp only [Option.some.injEq, Prod.mk.injEq] at h; obtain ⟨_, _, _, rfl⟩ := h
        exact ⟨[(x, t1)], by simp [shapeE call e _ _ _ _ _ he]⟩
      · simp at h
    case tuple ps =>
      split at h
      · rename_i t1 bs1 p1 env1 he
        split at h
        · split at h
          · rename_i m bb hp
            simp only [Option.some.injEq, Prod.mk.injEq] at h; obtain ⟨_, _, _, rfl⟩ := h
            exact ⟨shape bb, by rw [← shapeE call e _ _ _ _ _ he]; simp [shape]⟩
          · simp at h
        · simp at h
      · simp at h
    case struct sn fps =>
      split at h
      · rename_i t1 bs1 p1 env1 he
        split at h
        · split at h
          · rename_i m bb hp
            simp only [Option.some.injEq, Prod.mk.injEq] at h; obtain ⟨_, _, _, rfl⟩ := h
            exact ⟨shape bb, by rw [← shapeE call e _ _ _ _ _ he]; simp [shape]⟩
          · simp at h
        · simp at h
      · simp at h
    case enumTuple en vn ps =>
      split at h
      · rename_i t1 bs1 p1 env1 he
        split at h
        · split at h
          · rename_i m bb hp
            simp only [Option.some.injEq, Prod.mk.injEq] at h; obtain ⟨_, _, _, rfl⟩ := h
            exact ⟨shape bb, by rw [← shapeE call e _ _ _ _ _ he]; simp [shape]⟩
          · simp at h
        · simp at h
      · simp at h
    all_goals (simp at h)
  | .letMut x e, benv, t, bs, p, benv', h => by
    simp only [bitStmt] at h
    split at h
    · rename_i t1 bs1 p1 env1 he
      simp only [Option.some.injEq, Prod.mk.injEq] at h; obtain ⟨_, _, _, rfl⟩ := h
      exact ⟨[(x, t1)], by simp [shapeE call e _ _ _ _ _ he]⟩
    · simp at h
  | .assign x path e, benv, t, bs, p, benv', h => by
    cases path <;> simp only [bitStmt] at h
    case nil =>
      split at h
      · rename_i t1 bs1 p1 env1 he
        split at h
        · split at h
          · simp only [Option.some.injEq, Prod.mk.injEq] at h; obtain ⟨_, _, _, rfl⟩ := h
            exact ⟨[], by simp [shape_set, shapeE call e _ _ _ _ _ he]⟩
          · simp at h
        · simp at h
      · simp at h
    case index i rest =>
      split at h
      · rename_i t1 bs1 p1 env1 he
        split at h
        · rename_i tx xbits hg
          split at h
          · rename_i xb' p2 env2 hu
            simp only [Option.some.injEq, Prod.mk.injEq] at h; obtain ⟨_, _, _, rfl⟩ := h
            exact ⟨[], by simp [shape_set, shapeU call (.index i rest) _ _ _ _ _ _ _ _ hu, shapeE call e _ _ _ _ _ he]⟩
          · simp at h
        · simp at h
      · simp at h
    case tup i rest =>
      split at h
      · rename_i t1 bs1 p1 env1 he
        split at h
        · rename_i tx xbits hg
          split at h
          · rename_i xb' p2 env2 hu
            simp only [Option.some.injEq, Prod.mk.injEq] at h; obtain ⟨_, _, _, rfl⟩ := h
            exact ⟨[], by simp [shape_set, shapeU call (.tup i rest) _ _ _ _ _ _ _ _ hu, shapeE call e _ _ _ _ _ he]⟩
          · simp at h
        · simp at h
      · simp at h
    case fld i rest =>
      split at h
      · rename_i t1 bs1 p1 env1 he
        split at h
        · rename_i tx xbits hg
          split at h
          · rename_i xb' p2 env2 hu
            simp only [Option.some.injEq, Prod.mk.injEq] at h; obtain ⟨_, _, _, rfl⟩ := h
            exact ⟨[], by simp [shape_set, shapeU call (.fld i rest) _ _ _ _ _ _ _ _ hu, shapeE call e _ _ _ _ _ he]⟩
          · simp at h
        · simp at h
      · simp at h
  | .expr e, benv, t, bs, p, benv', h => by
    simp only [bitStmt] at h
    exact ⟨[], by simp [shapeE call e _ _ _ _ _ h]⟩
  | .for_ pat arr body, benv, t, bs, p, benv', h => by
    simp only [bitStmt] at h
    split at h
    · rename_i te n abits pa env1 ha
      split at h
      · split at h
        · rename_i p2 env2 hl
          simp only [Option.some.injEq, Prod.mk.injEq] at h; obtain ⟨_, _, _, rfl⟩ := h
          refine ⟨[], ?_⟩
          rw [List.nil_append, ← shapeE call arr _ _ _ _ _ ha]
          refine shape_foldLoop _ ?_ _ _ _ _ _ hl
          intro el env pb envb hfe
          split at hfe
          · rename_i m bb hp
            split at hfe
            · rename_i t1 b1 pb1 envb1 hbody
              simp only [Option.some.injEq, Prod.mk.injEq] at hfe
              obtain ⟨_, rfl⟩ := hfe
              obtain ⟨pre, hpre⟩ := shapeSS call body _ _ _ _ _ hbody
              exact ⟨pre ++ shape bb, by rw [hpre]; simp [shape]⟩
            · simp at hfe
          · simp at hfe
        · simp at h
      · simp at h
    · simp at h
  | .forJoin _ _ _ _, _, _, _, _, _, h => by simp [bitStmt] at h
theorem shapeU (call : Ctx) : (path : Path) → ∀ (benv : BEnv) (t : Ty) (cur : List Bool) (vt : VTy) (vb out : List Bool) (p : P)
    (benv' : BEnv), bitUpd call benv t cur vt vb path = some (out, p, benv') → shape benv' = shape benv
  | .nil, benv, t, cur, vt, vb, out, p, benv', h => by
    simp only [bitUpd] at h
    split at h
    · simp only [Option.some.injEq, Prod.mk.injEq] at h; obtain ⟨_, _, rfl⟩ := h; rfl
    · simp at h
  | .tup i rest, benv, t, cur, vt, vb, out, p, benv', h => by
    simp only [bitUpd] at h
    split at h
    · split at h
      · split at h
        · rename_i hu
          simp only [Option.some.injEq, Prod.mk.injEq] at h; obtain ⟨_, _, rfl⟩ := h
          exact shapeU call rest _ _ _ _ _ _ _ _ hu
        · simp at h
      · simp at h
    · simp at h
  | .index ie rest, benv, t, cur, vt, vb, out, p, benv', h => by
    simp only [bitUpd] at h
    split at h
    · split at h
      · rename_i ibits pi env1 hi
        split at h
        · split at h
          · rename_i hu
            simp only [Option.some.injEq, Prod.mk.injEq] at h; obtain ⟨_, _, rfl⟩ := h
            rw [shapeU call rest _ _ _ _ _ _ _ _ hu, shapeE call ie _ _ _ _ _ hi]
          · simp at h
        · simp at h
      · simp at h
    · simp at h
  | .fld f rest, benv, t, cur, vt, vb, out, p, benv', h => by
    simp only [bitUpd] at h
    split at h
    · split at h
      · split at h
        · rename_i hu
          simp only [Option.some.injEq, Prod.mk.injEq] at h; obtain ⟨_, _, rfl⟩ := h
          exact shapeU call rest _ _ _ _ _ _ _ _ hu
        · simp at h
      · simp at h
    · simp at h
end

end Bit
end GV
