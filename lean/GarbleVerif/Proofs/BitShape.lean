import GarbleVerif.Model.BitSem
/-!
# The bit-level evaluation keeps the scope stack: names and types of the variables

An expression leaves exactly the variables it found (their bits may have changed); a statement list
only adds the bindings of its own `let`s in front. This is what makes the variable-by-variable merge
of `mux_envs` meaningful: both branches of an `if` end with the same variables in the same order.
-/
namespace GV
namespace Bit
open Src

/-- names and types of the variables in scope -/
def shape (b : BEnv) : List (String × STy) := b.map fun e => (e.1, e.2.1)

@[simp] theorem shape_nil : shape [] = [] := rfl
@[simp] theorem shape_cons (n : String) (t : STy) (bs : List Bool) (b : BEnv) :
    shape ((n, t, bs) :: b) = (n, t) :: shape b := rfl

theorem shape_length (b : BEnv) : (shape b).length = b.length := by simp [shape]

theorem shape_set (b : BEnv) (x : String) (w : List Bool) : shape (b.set x w) = shape b := by
  induction b with
  | nil => rfl
  | cons e r ih =>
    obtain ⟨n, t, bs⟩ := e
    simp only [BEnv.set]
    split <;> simp [ih]

theorem muxEnv_true (a b : BEnv) (h : a.length = b.length) : muxEnv true a b = a := by
  induction a generalizing b with
  | nil => cases b <;> simp [muxEnv]
  | cons e r ih =>
    obtain ⟨n, t, x⟩ := e
    cases b with
    | nil => simp at h
    | cons f s =>
      obtain ⟨m, u, y⟩ := f
      simp only [muxEnv, if_true, List.cons.injEq, true_and]
      exact ih s (by simpa using h)

theorem muxEnv_false (a b : BEnv) (h : shape a = shape b) : muxEnv false a b = b := by
  induction a generalizing b with
  | nil =>
    cases b with
    | nil => rfl
    | cons f s => simp [shape] at h
  | cons e r ih =>
    obtain ⟨n, t, x⟩ := e
    cases b with
    | nil => simp [shape] at h
    | cons f s =>
      obtain ⟨m, u, y⟩ := f
      simp only [shape_cons, List.cons.injEq, Prod.mk.injEq] at h
      obtain ⟨⟨rfl, rfl⟩, hs⟩ := h
      simp only [muxEnv, Bool.false_eq_true, if_false, List.cons.injEq, true_and]
      exact ih s hs

theorem muxEnv_eq (c : Bool) (a b : BEnv) (h : shape a = shape b) : muxEnv c a b = if c then a else b := by
  cases c
  · simp [muxEnv_false a b h]
  · have : a.length = b.length := by rw [← shape_length a, ← shape_length b, h]
    simp [muxEnv_true a b this]

theorem shape_muxEnv (c : Bool) (a b : BEnv) (h : shape a = shape b) : shape (muxEnv c a b) = shape a := by
  rw [muxEnv_eq c a b h]; cases c <;> simp [h]

theorem shape_restoreB (outer inner : BEnv) (pre : List (String × STy)) (h : shape inner = pre ++ shape outer) :
    shape (restoreB outer inner) = shape outer := by
  have hl : inner.length = pre.length + outer.length := by
    rw [← shape_length inner, h, List.length_append, shape_length]
  unfold restoreB shape
  rw [List.map_drop]
  have : inner.length - outer.length = pre.length := by omega
  rw [this]
  have h2 : (inner.map fun e => (e.1, e.2.1)).drop pre.length = outer.map fun e => (e.1, e.2.1) := by
    have := congrArg (List.drop pre.length) h
    simpa [shape] using this
  exact h2

theorem litMul_some {neg : Bool} {n : Nat} {k : IntTy} {ty : Ty} {other : Option (VTy × List Bool × P × BEnv)}
    {t : VTy} {bs : List Bool} {p : P} {env : BEnv} (h : litMul neg n k ty other = some (t, bs, p, env)) :
    neg = false ∧ STy.ofTy ty = some (.int k) ∧ ∃ y p2, other = some (.s (.int k), y, p2, env) ∧
      t = .s (.int k) ∧ bs = (Arith.constMul y k.signed n false).1 ∧
      p = seqP p2 (if (Arith.constMul y k.signed n false).2 then some .overflow else none) := by
  unfold litMul at h
  split at h
  · simp at h
  · rename_i hneg
    split at h
    · rename_i k' y p2 env2
      split at h
      · rename_i hk
        simp only [Option.some.injEq, Prod.mk.injEq] at h
        obtain ⟨rfl, rfl, rfl, rfl⟩ := h
        obtain ⟨rfl, hty⟩ := hk
        exact ⟨by simpa using hneg, hty, y, p2, rfl, rfl, rfl, rfl⟩
      · simp at h
    · simp at h

mutual
theorem shapeE (call : CallFn) : (e : Expr) → ∀ (benv : BEnv) (t : VTy) (bs : List Bool) (p : P) (benv' : BEnv),
    bitExpr call benv e = some (t, bs, p, benv') → shape benv' = shape benv
  | .bool b, benv, t, bs, p, benv', h => by
    simp only [bitExpr, Option.some.injEq, Prod.mk.injEq] at h; obtain ⟨_, _, _, rfl⟩ := h; rfl
  | .int n k, benv, t, bs, p, benv', h => by
    simp only [bitExpr] at h
    split at h
    · simp only [Option.some.injEq, Prod.mk.injEq] at h; obtain ⟨_, _, _, rfl⟩ := h; rfl
    · simp at h
  | .var x, benv, t, bs, p, benv', h => by
    simp only [bitExpr] at h
    split at h
    · simp only [Option.some.injEq, Prod.mk.injEq] at h; obtain ⟨_, _, _, rfl⟩ := h; rfl
    · simp at h
  | .un op ty a, benv, t, bs, p, benv', h => by
    cases op with
    | not =>
      cases ty <;> simp only [bitExpr] at h
      case bool =>
        split at h
        · rename_i b p1 env1 ha
          simp only [Option.some.injEq, Prod.mk.injEq] at h; obtain ⟨_, _, _, rfl⟩ := h
          exact shapeE call a _ _ _ _ _ ha
        · simp at h
      all_goals (simp at h)
    | neg =>
      cases ty <;> simp only [bitExpr] at h
      case int k =>
        split at h
        · split at h
          · rename_i k' bs' p1 env1 ha
            split at h
            · simp only [Option.some.injEq, Prod.mk.injEq] at h; obtain ⟨_, _, _, rfl⟩ := h
              exact shapeE call a _ _ _ _ _ ha
            · simp at h
          · simp at h
        · simp at h
      all_goals (simp at h)
  | .cast src dst a, benv, t, bs, p, benv', h => by
    simp only [bitExpr] at h
    split at h
    · split at h
      · rename_i ta x p1 env1 ha
        split at h
        · simp only [Option.some.injEq, Prod.mk.injEq] at h; obtain ⟨_, _, _, rfl⟩ := h
          exact shapeE call a _ _ _ _ _ ha
        · simp at h
      · simp at h
    · simp at h
  | .ite c tb fb, benv, t, bs, p, benv', h => by
    simp only [bitExpr] at h
    split at h
    · rename_i cb pc env1 hc
      split at h
      · rename_i tt tbits pt envT tf fbits pf envF hT hF
        split at h
        · simp only [Option.some.injEq, Prod.mk.injEq] at h; obtain ⟨_, _, _, rfl⟩ := h
          have h1 := shapeE call c _ _ _ _ _ hc
          have h2 := shapeE call tb _ _ _ _ _ hT
          have h3 := shapeE call fb _ _ _ _ _ hF
          rw [shape_muxEnv _ _ _ (by rw [h2, h3]), h2, h1]
        · simp at h
      · simp at h
    · simp at h
  | .block ss, benv, t, bs, p, benv', h => by
    simp only [bitExpr] at h
    split at h
    · rename_i t' bs' p' env1 hs
      simp only [Option.some.injEq, Prod.mk.injEq] at h; obtain ⟨_, _, _, rfl⟩ := h
      obtain ⟨pre, hp⟩ := shapeSS call ss _ _ _ _ _ hs
      exact shape_restoreB _ _ pre hp
    · simp at h
  | .bin op ty a b, benv, t, bs, p, benv', h => by
    cases op
    case land =>
      simp only [bitExpr] at h
      split at h
      · rename_i x p1 env1 ha
        split at h
        · rename_i y p2 env2 hb
          simp only [Option.some.injEq, Prod.mk.injEq] at h; obtain ⟨_, _, _, rfl⟩ := h
          have h1 := shapeE call a _ _ _ _ _ ha
          have h2 := shapeE call b _ _ _ _ _ hb
          rw [shape_muxEnv _ _ _ h2, h2, h1]
        · simp at h
      · simp at h
    case lor =>
      simp only [bitExpr] at h
      split at h
      · rename_i x p1 env1 ha
        split at h
        · rename_i y p2 env2 hb
          simp only [Option.some.injEq, Prod.mk.injEq] at h; obtain ⟨_, _, _, rfl⟩ := h
          have h1 := shapeE call a _ _ _ _ _ ha
          have h2 := shapeE call b _ _ _ _ _ hb
          rw [shape_muxEnv _ _ _ h2.symm, h1]
        · simp at h
      · simp at h
    case shl =>
      simp only [bitExpr] at h
      split at h
      · split at h
        · rename_i k' x p1 env1 ha
          split at h
          · rename_i y p2 env2 hb
            split at h
            · simp only [Option.some.injEq, Prod.mk.injEq] at h; obtain ⟨_, _, _, rfl⟩ := h
              rw [shapeE call b _ _ _ _ _ hb, shapeE call a _ _ _ _ _ ha]
            · simp at h
          · simp at h
        · simp at h
      · simp at h
    case shr =>
      simp only [bitExpr] at h
      split at h
      · split at h
        · rename_i k' x p1 env1 ha
          split at h
          · rename_i y p2 env2 hb
            split at h
            · simp only [Option.some.injEq, Prod.mk.injEq] at h; obtain ⟨_, _, _, rfl⟩ := h
              rw [shapeE call b _ _ _ _ _ hb, shapeE call a _ _ _ _ _ ha]
            · simp at h
          · simp at h
        · simp at h
      · simp at h
    case mul =>
      simp only [bitExpr, if_true] at h
      split at h
      · obtain ⟨_, _, y, p2, ho, _⟩ := litMul_some h
        exact shapeE call b _ _ _ _ _ ho
      · obtain ⟨_, _, y, p2, ho, _⟩ := litMul_some h
        exact shapeE call a _ _ _ _ _ ho
      · split at h
        · simp at h
        · split at h
          · rename_i ta x p1 env1 ha
            split at h
            · rename_i tb y p2 env2 hb
              split at h
              · split at h
                · simp only [Option.some.injEq, Prod.mk.injEq] at h; obtain ⟨_, _, _, rfl⟩ := h
                  rw [shapeE call b _ _ _ _ _ hb, shapeE call a _ _ _ _ _ ha]
                · simp at h
              · simp at h
            · simp at h
          · simp at h
    all_goals
      simp only [bitExpr] at h
      split at h
      · rename_i heq; simp at heq
      · rename_i heq; simp at heq
      split at h
      · simp at h
      · split at h
        · rename_i ta x p1 env1 ha
          split at h
          · rename_i tb y p2 env2 hb
            split at h
            · split at h
              · simp only [Option.some.injEq, Prod.mk.injEq] at h; obtain ⟨_, _, _, rfl⟩ := h
                rw [shapeE call b _ _ _ _ _ hb, shapeE call a _ _ _ _ _ ha]
              · simp at h
            · simp at h
          · simp at h
        · simp at h
  | .tuple es, benv, t, bs, p, benv', h => by
    cases es with
    | nil => simp only [bitExpr, Option.some.injEq, Prod.mk.injEq] at h; obtain ⟨_, _, _, rfl⟩ := h; rfl
    | cons _ _ => simp [bitExpr] at h
  | .tupleGet _ _, _, _, _, _, _, h => by simp [bitExpr] at h
  | .array _, _, _, _, _, _, h => by simp [bitExpr] at h
  | .repeat_ _ _, _, _, _, _, _, h => by simp [bitExpr] at h
  | .index _ _, _, _, _, _, _, h => by simp [bitExpr] at h
  | .range _ _ _, _, _, _, _, _, h => by simp [bitExpr] at h
  | .struct _ _, _, _, _, _, _, h => by simp [bitExpr] at h
  | .field _ _, _, _, _, _, _, h => by simp [bitExpr] at h
  | .enumLit _ _ _ _, _, _, _, _, _, h => by simp [bitExpr] at h
  | .match_ scrut arms, benv, t, bs, p, benv', h => by
    simp only [bitExpr] at h
    split at h
    · rename_i ts sb ps env1 hs
      split at h
      · split at h
        · rename_i hp t' bs' pa envF ha
          simp only [Option.some.injEq, Prod.mk.injEq] at h; obtain ⟨_, _, _, rfl⟩ := h
          rw [shapeArms call arms env1 ts sb _ _ ha rfl, shapeE call scrut _ _ _ _ _ hs]
        · simp at h
      · simp at h
    · simp at h
  | .call fn args, benv, t, bs, p, benv', h => by
    simp only [bitExpr] at h
    split at h
    · rename_i vs pargs env1 hl
      split at h
      · simp only [Option.some.injEq, Prod.mk.injEq] at h; obtain ⟨_, _, _, rfl⟩ := h
        exact shapeL call args _ _ _ _ hl
      · simp at h
    · simp at h
theorem shapeL (call : CallFn) : (es : ExprList) → ∀ (benv : BEnv) (vs : List (STy × List Bool)) (p : P) (benv' : BEnv),
    bitList call benv es = some (vs, p, benv') → shape benv' = shape benv
  | .nil, benv, vs, p, benv', h => by
    simp only [bitList, Option.some.injEq, Prod.mk.injEq] at h; obtain ⟨_, _, rfl⟩ := h; rfl
  | .cons e rest, benv, vs, p, benv', h => by
    simp only [bitList] at h
    split at h
    · rename_i t bs p1 env1 he
      split at h
      · rename_i vs2 p2 env2 hr
        simp only [Option.some.injEq, Prod.mk.injEq] at h; obtain ⟨_, _, rfl⟩ := h
        rw [shapeL call rest _ _ _ _ hr, shapeE call e _ _ _ _ _ he]
      · simp at h
    · simp at h
theorem shapeArms (call : CallFn) : (arms : Arms) → ∀ (benv1 : BEnv) (ts : STy) (sb : List Bool) (st st' : ArmSt),
    bitArms call benv1 ts sb arms st = some st' → shape st.2.2.2 = shape benv1 → shape st'.2.2.2 = shape benv1
  | .nil, benv1, ts, sb, st, st', h, hs => by
    simp only [bitArms, Option.some.injEq] at h; subst h; exact hs
  | .cons p e rest, benv1, ts, sb, (hasPrev, ret, pacc, envAcc), st', h, hs => by
    simp only [bitArms] at h
    split at h
    · simp at h
    · rename_i m bind hpb
      split at h
      · simp at h
      · rename_i te be pe enve he
        have hse := shapeE call e _ _ _ _ _ he
        -- the arm's variables without the pattern binding
        have hout : shape (armOut bind enve) = shape benv1 := by
          cases bind with
          | none => simpa [armOut, armEnv] using hse
          | some x =>
            simp only [armEnv] at hse
            simp only [armOut]
            cases enve with
            | nil => simp [shape] at hse
            | cons hd tl =>
              obtain ⟨n', t', b'⟩ := hd
              simp only [shape_cons, List.cons.injEq] at hse
              simpa using hse.2
        have hmux : shape (muxEnv (!hasPrev && m) (armOut bind enve) envAcc) = shape benv1 := by
          rw [shape_muxEnv _ _ _ (by rw [hout]; exact hs.symm), hout]
        split at h
        · split at h
          · exact shapeArms call rest benv1 ts sb _ st' h hmux
          · simp at h
        · exact shapeArms call rest benv1 ts sb _ st' h hmux
theorem shapeSS (call : CallFn) : (ss : StmtList) → ∀ (benv : BEnv) (t : VTy) (bs : List Bool) (p : P) (benv' : BEnv),
    bitStmts call benv ss = some (t, bs, p, benv') → ∃ pre, shape benv' = pre ++ shape benv
  | .nil, benv, t, bs, p, benv', h => by
    simp only [bitStmts, Option.some.injEq, Prod.mk.injEq] at h; obtain ⟨_, _, _, rfl⟩ := h
    exact ⟨[], rfl⟩
  | .cons s .nil, benv, t, bs, p, benv', h => by
    simp only [bitStmts] at h
    exact shapeS call s _ _ _ _ _ h
  | .cons s (.cons s2 rest), benv, t, bs, p, benv', h => by
    simp only [bitStmts] at h
    split at h
    · rename_i t1 bs1 p1 env1 hs
      split at h
      · rename_i t2 bs2 p2 env2 hr
        simp only [Option.some.injEq, Prod.mk.injEq] at h; obtain ⟨_, _, _, rfl⟩ := h
        obtain ⟨pre1, h1⟩ := shapeS call s _ _ _ _ _ hs
        obtain ⟨pre2, h2⟩ := shapeSS call (.cons s2 rest) _ _ _ _ _ hr
        exact ⟨pre2 ++ pre1, by rw [h2, h1, List.append_assoc]⟩
      · simp at h
    · simp at h
theorem shapeS (call : CallFn) : (s : Stmt) → ∀ (benv : BEnv) (t : VTy) (bs : List Bool) (p : P) (benv' : BEnv),
    bitStmt call benv s = some (t, bs, p, benv') → ∃ pre, shape benv' = pre ++ shape benv
  | .let_ pat e, benv, t, bs, p, benv', h => by
    cases pat <;> simp only [bitStmt] at h
    case ident x =>
      split at h
      · rename_i t1 bs1 p1 env1 he
        simp only [Option.some.injEq, Prod.mk.injEq] at h; obtain ⟨_, _, _, rfl⟩ := h
        exact ⟨[(x, t1)], by simp [shapeE call e _ _ _ _ _ he]⟩
      · simp at h
    all_goals (simp at h)
  | .letMut x e, benv, t, bs, p, benv', h => by
    simp only [bitStmt] at h
    split at h
    · rename_i t1 bs1 p1 env1 he
      simp only [Option.some.injEq, Prod.mk.injEq] at h; obtain ⟨_, _, _, rfl⟩ := h
      exact ⟨[(x, t1)], by simp [shapeE call e _ _ _ _ _ he]⟩
    · simp at h
  | .assign x path e, benv, t, bs, p, benv', h => by
    cases path <;> simp only [bitStmt] at h
    case nil =>
      split at h
      · rename_i t1 bs1 p1 env1 he
        split at h
        · split at h
          · simp only [Option.some.injEq, Prod.mk.injEq] at h; obtain ⟨_, _, _, rfl⟩ := h
            exact ⟨[], by simp [shape_set, shapeE call e _ _ _ _ _ he]⟩
          · simp at h
        · simp at h
      · simp at h
    all_goals (simp at h)
  | .expr e, benv, t, bs, p, benv', h => by
    simp only [bitStmt] at h
    exact ⟨[], by simp [shapeE call e _ _ _ _ _ h]⟩
  | .for_ _ _ _, _, _, _, _, _, h => by simp [bitStmt] at h
  | .forJoin _ _ _ _, _, _, _, _, _, h => by simp [bitStmt] at h
end

end Bit
end GV
