import GarbleVerif.Model.Reg
import GarbleVerif.Proofs.SsaEval
/-! Helper lemmas: a validated register circuit evaluates strictly (no undefined register is
read, no index is out of range), and the strict evaluator agrees with the raw one. -/
namespace GV
namespace Reg
namespace RCircuit

/-- `set` marks only registers that are defined in `regs` -/
structure Rel (set : List Bool) (regs : List (Option Bool)) : Prop where
  len : set.length = regs.length
  defd : ∀ r, set.getD r false = true → ∃ v, regs[r]? = some (some v)

theorem Rel.init (n : Nat) : Rel (List.replicate n false) (List.replicate n none) := by
  refine ⟨by simp, ?_⟩
  intro r h
  simp [List.getD_eq_getElem?_getD, List.getElem?_replicate] at h
  split at h <;> simp at h

theorem Rel.readReg {set regs r} (h : Rel set regs) (hs : isSet set r = true) :
    ∃ v, readReg regs r = some v := by
  obtain ⟨v, hv⟩ := h.defd r hs
  exact ⟨v, by simp [RCircuit.readReg, hv]⟩

theorem Rel.set {set regs} (h : Rel set regs) (o : Nat) (v : Bool) :
    Rel (set.set o true) (regs.set o (some v)) := by
  refine ⟨by simp [h.len], ?_⟩
  intro r hr
  by_cases hro : o = r
  · subst hro
    have hlt : o < set.length := by
      rcases Nat.lt_or_ge o set.length with hlt | hge
      · exact hlt
      · rw [List.set_eq_of_length_le hge] at hr
        simp [List.getD_eq_getElem?_getD, List.getElem?_eq_none hge] at hr
    have hlt' : o < regs.length := h.len ▸ hlt
    exact ⟨v, by simp [List.getElem?_set, hlt']⟩
  · have : (set.set o true).getD r false = set.getD r false := by
      simp [List.getD_eq_getElem?_getD, List.getElem?_set, hro]
    rw [this] at hr
    obtain ⟨w, hw⟩ := h.defd r hr
    exact ⟨w, by simp [List.getElem?_set, hro, hw]⟩

theorem input_some {sizes : List Nat} {ins : List (List Bool)} (hs : Circuit.shapeOk sizes ins = true)
    {p idx sz : Nat} (hp : sizes[p]? = some sz) (hi : idx < sz) :
    ∃ v, (do let party ← ins[p]?; party[idx]?) = some v := by
  simp only [Circuit.shapeOk, beq_iff_eq] at hs
  subst hs
  simp only [List.getElem?_map] at hp
  cases hq : ins[p]? with
  | none => simp [hq] at hp
  | some party =>
    simp [hq] at hp
    subst hp
    exact ⟨party[idx], by simp [List.getElem?_eq_getElem hi]⟩

theorem validateInst_step {inputRegs n set i inst set'} {regs : List (Option Bool)}
    {ins : List (List Bool)}
    (hv : validateInst inputRegs n set i inst = .ok set') (hr : Rel set regs)
    (hn : regs.length = n) (hs : Circuit.shapeOk inputRegs ins = true) :
    ∃ v, strictOp ins regs inst.op = some v ∧ inst.out < regs.length ∧
      set' = set.set inst.out true := by
  simp only [validateInst] at hv
  split at hv
  · simp at hv
  · rename_i hout
    simp at hout
    split at hv
    · simp at hv
    · rename_i hok
      simp only [Except.ok.injEq] at hv
      subst hv
      suffices ∃ v, strictOp ins regs inst.op = some v from by
        obtain ⟨v, hv⟩ := this
        exact ⟨v, hv, by omega, rfl⟩
      -- case analysis on the operation
      cases hop : inst.op with
      | input p idx =>
        simp only [hop] at hok
        split at hok
        · simp at hok
        · split at hok
          · simp at hok
          · rename_i sz hsz
            split at hok
            · rename_i hlt
              exact input_some hs hsz hlt
            · simp at hok
      | xor x y =>
        simp only [hop] at hok
        split at hok
        · simp at hok
        · split at hok
          · simp at hok
          · split at hok
            · simp at hok
            · rename_i h1 h2 h3
              simp at h2 h3
              obtain ⟨a, ha⟩ := hr.readReg h2
              obtain ⟨b, hb⟩ := hr.readReg h3
              exact ⟨a ^^ b, by simp [strictOp, ha, hb]⟩
      | and x y =>
        simp only [hop] at hok
        split at hok
        · simp at hok
        · split at hok
          · simp at hok
          · split at hok
            · simp at hok
            · rename_i h1 h2 h3
              simp at h2 h3
              obtain ⟨a, ha⟩ := hr.readReg h2
              obtain ⟨b, hb⟩ := hr.readReg h3
              exact ⟨a && b, by simp [strictOp, ha, hb]⟩
      | not x =>
        simp only [hop] at hok
        split at hok
        · simp at hok
        · split at hok
          · simp at hok
          · rename_i h1 h2
            simp at h2
            obtain ⟨a, ha⟩ := hr.readReg h2
            exact ⟨!a, by simp [strictOp, ha]⟩

theorem validateInsts_strict {inputRegs n} (insts : List Inst) {i set setF}
    {regs : List (Option Bool)} {ins : List (List Bool)}
    (hv : validateInsts inputRegs n insts i set = .ok setF) (hr : Rel set regs)
    (hn : regs.length = n) (hs : Circuit.shapeOk inputRegs ins = true) :
    ∃ regsF, strictInsts ins insts regs = some regsF ∧ Rel setF regsF := by
  induction insts generalizing i set regs with
  | nil =>
    simp only [validateInsts, Except.ok.injEq] at hv
    subst hv
    exact ⟨regs, rfl, hr⟩
  | cons inst rest ih =>
    simp only [validateInsts] at hv
    split at hv
    · simp at hv
    · rename_i set' hstep
      obtain ⟨v, hop, hout, hset⟩ := validateInst_step hstep hr hn hs
      subst hset
      obtain ⟨regsF, hF, hrel⟩ := ih hv (hr.set inst.out v) (by simp [hn])
      exact ⟨regsF, by simp [strictInsts, hop, hout, hF], hrel⟩

theorem outputs_strict {set regs} (hr : Rel set regs) (os : List Nat)
    (h : validateOutputsSet set os = .ok ()) :
    ∃ out, os.mapM (fun r => readReg regs r) = some out ∧ out.length = os.length := by
  induction os with
  | nil => exact ⟨[], by simp, rfl⟩
  | cons o os ih =>
    simp only [validateOutputsSet] at h
    split at h
    · rename_i ho
      obtain ⟨out, hout, hl⟩ := ih h
      obtain ⟨v, hv⟩ := hr.readReg (r := o) ho
      exact ⟨v :: out, by simp [List.mapM_cons, hv, hout], by simp [hl]⟩
    · simp at h

/-! ### strict ⇒ raw -/

structure RawRel (regs : List Bool) (sregs : List (Option Bool)) : Prop where
  len : regs.length = sregs.length
  agree : ∀ (r : Nat) (v : Bool), sregs[r]? = some (some v) → regs[r]? = some v

theorem RawRel.init (n : Nat) : RawRel (List.replicate n false) (List.replicate n none) := by
  refine ⟨by simp, ?_⟩
  intro r v h
  simp [List.getElem?_replicate] at h

theorem RawRel.read {regs sregs r v} (h : RawRel regs sregs) (hr : readReg sregs r = some v) :
    regs[r]? = some v := by
  unfold readReg at hr
  cases hq : sregs[r]? with
  | none => simp [hq] at hr
  | some w =>
    cases w with
    | none => simp [hq] at hr
    | some x =>
      simp [hq] at hr; subst hr
      exact h.agree r x hq

theorem RawRel.set {regs sregs} (h : RawRel regs sregs) (o : Nat) (v : Bool) :
    RawRel (regs.set o v) (sregs.set o (some v)) := by
  refine ⟨by simp [h.len], ?_⟩
  intro r w hw
  by_cases hro : o = r
  · subst hro
    simp only [List.getElem?_set] at hw ⊢
    simp only [if_true] at hw ⊢
    split at hw
    · rename_i hlt
      simp at hw; subst hw
      simp [h.len, hlt]
    · simp at hw
  · simp only [List.getElem?_set, hro, if_false] at hw ⊢
    exact h.agree r w hw

theorem strictOp_raw {ins regs sregs op v} (h : RawRel regs sregs)
    (hs : strictOp ins sregs op = some v) : rawOp ins regs op = some v := by
  cases op with
  | xor a b =>
    simp only [strictOp] at hs
    cases ha : readReg sregs a with
    | none => simp [ha] at hs
    | some x =>
      cases hb : readReg sregs b with
      | none => simp [ha, hb] at hs
      | some y =>
        simp [ha, hb] at hs
        simp [rawOp, h.read ha, h.read hb, hs]
  | and a b =>
    simp only [strictOp] at hs
    cases ha : readReg sregs a with
    | none => simp [ha] at hs
    | some x =>
      cases hb : readReg sregs b with
      | none => simp [ha, hb] at hs
      | some y =>
        simp [ha, hb] at hs
        simp [rawOp, h.read ha, h.read hb, hs]
  | not a =>
    simp only [strictOp] at hs
    cases ha : readReg sregs a with
    | none => simp [ha] at hs
    | some x =>
      simp [ha] at hs
      simp [rawOp, h.read ha, hs]
  | input p i => simpa [strictOp, rawOp] using hs

theorem strictInsts_raw {ins} (insts : List Inst) {regs sregs sregsF}
    (h : RawRel regs sregs) (hs : strictInsts ins insts sregs = some sregsF) :
    ∃ regsF, rawInsts ins insts regs = some regsF ∧ RawRel regsF sregsF := by
  induction insts generalizing regs sregs with
  | nil =>
    simp only [strictInsts, Option.some.injEq] at hs
    subst hs
    exact ⟨regs, rfl, h⟩
  | cons inst rest ih =>
    simp only [strictInsts] at hs
    split at hs
    · simp at hs
    · rename_i v hv
      split at hs
      · rename_i hout
        obtain ⟨regsF, hF, hrel⟩ := ih (h.set inst.out v) hs
        exact ⟨regsF, by simp [rawInsts, strictOp_raw h hv, h.len, hout, hF], hrel⟩
      · simp at hs

theorem outputs_raw {regs sregs} (h : RawRel regs sregs) (os : List Nat) {out}
    (hs : os.mapM (fun r => readReg sregs r) = some out) :
    os.mapM (fun r => regs[r]?) = some out := by
  induction os generalizing out with
  | nil => simpa using hs
  | cons o os ih =>
    simp only [List.mapM_cons] at hs ⊢
    cases ho : readReg sregs o with
    | none => simp [ho] at hs
    | some v =>
      cases hrest : os.mapM (fun r => readReg sregs r) with
      | none => simp [ho, hrest] at hs
      | some rest =>
        simp [ho, hrest] at hs
        subst hs
        simp [h.read ho, ih hrest]

end RCircuit
end Reg
end GV
