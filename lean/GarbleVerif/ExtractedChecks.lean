import GarbleVerif.Extracted
import GarbleVerif.Model.Ssa
/-! Proof obligations tying the constants extracted from `/repo/src` to the values the
models use. A changed constant in the source makes one of these fail to build. -/
namespace GV

theorem extracted_maxGates : Extracted.maxGates = MAX_GATES := by decide
theorem extracted_usizeBits : Extracted.usizeBits = 32 := by decide
theorem extracted_panicResultSize : Extracted.panicResultSize = 161 := by decide
theorem extracted_panicCodes :
    (Extracted.panicOverflow, Extracted.panicDivByZero, Extracted.panicOutOfBounds) = (1, 2, 3) ∧
    (Extracted.panicDecodeOverflow, Extracted.panicDecodeDivByZero, Extracted.panicDecodeOutOfBounds) = (1, 2, 3) := by
  decide

end GV
