/-!
# L1 — SSA circuits

Transliteration of `circuit.rs:113-230`: `Circuit::{wires_len, and_gates, validate, eval}`.
Every index / `unwrap` of the Rust code is an `Option` step here, so "does not panic"
is "returns `some`".
-/
namespace GV

inductive Gate where
  | xor (a b : Nat)
  | and (a b : Nat)
  | not (a : Nat)
deriving DecidableEq, Repr, Inhabited

structure Circuit where
  inputGates : List Nat
  gates : List Gate
  outputGates : List Nat
deriving DecidableEq, Repr, Inhabited

inductive CircuitError where
  | invalidGate (i : Nat)
  | invalidOutput (o : Nat)
  | emptyInputs
  | emptyOutputs
  | maxCircuitSizeExceeded
deriving DecidableEq, Repr

/-- `MAX_GATES = u32::MAX` (checked against the source by `ExtractedChecks`). -/
def MAX_GATES : Nat := 4294967295

namespace Circuit

def totalInputs (c : Circuit) : Nat := c.inputGates.sum

/-- `wires_len` -/
def wiresLen (c : Circuit) : Nat := c.totalInputs + c.gates.length

/-- `and_gates` -/
def andGates (c : Circuit) : Nat :=
  (c.gates.filter fun g => match g with | .and _ _ => true | _ => false).length

/-- the gate at wire `i` refers to earlier wires only -/
def gateOk (g : Gate) (i : Nat) : Bool :=
  match g with
  | .xor x y => x < i && y < i
  | .and x y => x < i && y < i
  | .not x => x < i

/-- the gate loop of `validate`: `i` is the wire number of the first gate of `gs` -/
def validateGates : List Gate → Nat → Except CircuitError Unit
  | [], _ => .ok ()
  | g :: gs, i => if gateOk g i then validateGates gs (i + 1) else .error (.invalidGate i)

def validateOutputs (n : Nat) : List Nat → Except CircuitError Unit
  | [] => .ok ()
  | o :: os => if o < n then validateOutputs n os else .error (.invalidOutput o)

/-- `Circuit::validate` (circuit.rs:148-180). The `EmptyInputs` test of the Rust code is
`is_empty() && all(== 0)`, i.e. just `is_empty()`. Input wires are skipped by the loop. -/
def validate (c : Circuit) : Except CircuitError Unit :=
  if c.inputGates.isEmpty then .error .emptyInputs else
  match validateGates c.gates c.totalInputs with
  | .error e => .error e
  | .ok () =>
    if c.outputGates.isEmpty then .error .emptyOutputs else
    match validateOutputs c.wiresLen c.outputGates with
    | .error e => .error e
    | .ok () =>
      if c.wiresLen + c.totalInputs > MAX_GATES then .error .maxCircuitSizeExceeded else .ok ()

/-- value of one gate over the wires defined so far (`output[x].unwrap()`) -/
def evalGate (ws : List Bool) : Gate → Option Bool
  | .xor x y => do let a ← ws[x]?; let b ← ws[y]?; pure (a ^^ b)
  | .and x y => do let a ← ws[x]?; let b ← ws[y]?; pure (a && b)
  | .not x => do let a ← ws[x]?; pure (!a)

def evalGates : List Gate → List Bool → Option (List Bool)
  | [], ws => some ws
  | g :: gs, ws =>
    match evalGate ws g with
    | some v => evalGates gs (ws ++ [v])
    | none => none

/-- the inputs have the declared number of parties and bits per party -/
def shapeOk (sizes : List Nat) (ins : List (List Bool)) : Bool :=
  ins.map List.length == sizes

/-- `Circuit::eval` (circuit.rs:186-230). `none` = the Rust code panics. -/
def eval? (c : Circuit) (ins : List (List Bool)) : Option (List Bool) :=
  if !shapeOk c.inputGates ins then none else
  match evalGates c.gates ins.flatten with
  | none => none
  | some ws => c.outputGates.mapM (fun o => ws[o]?)

end Circuit
end GV
