import GarbleVerif.Model.SrcSem
/-!
# L6 — constant expressions (`const C: T = …;`)

`evalC` is the specification: literals, supplied external values, earlier constants, `+`, `-`,
`min`, `max`, with wrapping arithmetic in the constant's type. `exact` is the value over the
unbounded integers (what `compile.rs` computes in 64 bits before it truncates to the type).
-/
namespace GV
namespace Src

inductive CExpr where
  | lit (n : Int)
  | ext (party name : String)
  | ident (name : String)
  | add (a b : CExpr)
  | sub (a b : CExpr)
  | max (a b : CExpr)
  | min (a b : CExpr)

/-- values of the supplied external constants and of the constants declared earlier -/
structure CEnv where
  ext : String → String → Int
  named : String → Int

def evalC (k : IntTy) (env : CEnv) : CExpr → Int
  | .lit n => n
  | .ext p n => env.ext p n
  | .ident n => env.named n
  | .add a b => wrapTo k (evalC k env a + evalC k env b)
  | .sub a b => wrapTo k (evalC k env a - evalC k env b)
  | .max a b => Max.max (evalC k env a) (evalC k env b)
  | .min a b => Min.min (evalC k env a) (evalC k env b)

/-- the value over the integers, without any wrapping -/
def exact (env : CEnv) : CExpr → Int
  | .lit n => n
  | .ext p n => env.ext p n
  | .ident n => env.named n
  | .add a b => exact env a + exact env b
  | .sub a b => exact env a - exact env b
  | .max a b => Max.max (exact env a) (exact env b)
  | .min a b => Min.min (exact env a) (exact env b)

/-- built from `+` and `-` only -/
def CExpr.linear : CExpr → Bool
  | .add a b => a.linear && b.linear
  | .sub a b => a.linear && b.linear
  | .max _ _ => false
  | .min _ _ => false
  | _ => true

end Src
end GV
