import GarbleVerif.Model.Reg
/-!
# L2 — SSA → register conversion

Transliteration of `register_circuit.rs:235-408`: `last_use_map`, `RegisterAllocator::
{convert_circuit, find_out_reg}`. The Rust `HashMap`s keyed by wire are lists indexed by
wire here (`none` = no entry). `none` results = the Rust code panics (`wire_map[&a]` on a
missing key, `unreachable!`).
-/
namespace GV
namespace Reg

inductive LastUse where
  | never
  | at (g : Nat)
  | pinned
deriving DecidableEq, Repr, Inhabited

def gateOperands : Gate → List Nat
  | .xor a b => [a, b]
  | .and a b => [a, b]
  | .not a => [a]

/-- gate loop of `last_use_map`: gate `g` has wire number `id` -/
def lastUseGates : List Gate → Nat → List LastUse → List LastUse
  | [], _, m => m
  | g :: gs, id, m => lastUseGates gs (id + 1) ((gateOperands g).foldl (fun m a => m.set a (.at id)) m)

/-- `last_use_map` -/
def lastUseMap (c : Circuit) : List LastUse :=
  let m := lastUseGates c.gates c.totalInputs (List.replicate c.wiresLen .never)
  c.outputGates.foldl (fun m o => m.set o .pinned) m

structure Alloc where
  free : List Nat            -- `free_regs`, head = top of the stack
  next : Nat                 -- `next_reg`
  wireMap : List (Option Nat)
  insts : List Inst          -- in program order
  andOps : Nat
deriving Repr, Inhabited

/-- `find_out_reg` -/
def findOutReg (last : List LastUse) (st : Alloc) (gateId a : Nat) (b : Option Nat) :
    Option (Nat × Alloc) :=
  -- first operand
  let r1 : Option (Option Nat × Alloc) :=
    if last.getD a .never = .at gateId then
      match st.wireMap.getD a none with
      | some reg => some (some reg, { st with wireMap := st.wireMap.set a none })
      | none => none                                  -- `unreachable!`
    else some (none, st)
  match r1 with
  | none => none
  | some (reuse, st) =>
    -- second operand
    let (reuse, st) : Option Nat × Alloc :=
      match b with
      | none => (reuse, st)
      | some b =>
        if last.getD b .never = .at gateId then
          match st.wireMap.getD b none with
          | some reg =>
            let st := { st with wireMap := st.wireMap.set b none }
            match reuse with
            | some _ => (reuse, { st with free := reg :: st.free })
            | none => (some reg, st)
          | none => (reuse, st)
        else (reuse, st)
    match reuse with
    | some reg => some (reg, st)
    | none =>
      match st.free with
      | reg :: rest => some (reg, { st with free := rest })
      | [] => some (st.next, { st with next := st.next + 1 })

/-- the `Input` instructions, party by party -/
def inputInsts : List Nat → Nat → Nat → List Inst
  | [], _, _ => []
  | sz :: rest, party, pos =>
    ((List.range sz).map fun i => ({ out := pos + i, op := .input party i } : Inst)) ++
      inputInsts rest (party + 1) (pos + sz)

/-- one gate of the conversion loop -/
def convertGate (last : List LastUse) (st : Alloc) (id : Nat) (g : Gate) : Option Alloc :=
  match g with
  | .xor a b => do
    let ra ← st.wireMap.getD a none
    let rb ← st.wireMap.getD b none
    let (out, st) ← findOutReg last st id a (some b)
    pure { st with wireMap := st.wireMap.set id (some out), insts := st.insts ++ [⟨out, .xor ra rb⟩] }
  | .and a b => do
    let ra ← st.wireMap.getD a none
    let rb ← st.wireMap.getD b none
    let (out, st) ← findOutReg last st id a (some b)
    pure { st with wireMap := st.wireMap.set id (some out), insts := st.insts ++ [⟨out, .and ra rb⟩],
                   andOps := st.andOps + 1 }
  | .not a => do
    let ra ← st.wireMap.getD a none
    let (out, st) ← findOutReg last st id a none
    pure { st with wireMap := st.wireMap.set id (some out), insts := st.insts ++ [⟨out, .not ra⟩] }

def convertGates (last : List LastUse) : List Gate → Nat → Alloc → Option Alloc
  | [], _, st => some st
  | g :: gs, id, st =>
    match convertGate last st id g with
    | none => none
    | some st => convertGates last gs (id + 1) st

/-- `RegisterAllocator::convert_circuit` (`From<&SsaCircuit>`) -/
def convert (c : Circuit) : Option RCircuit :=
  let last := lastUseMap c
  let n := c.totalInputs
  let st0 : Alloc :=
    { free := [], next := n,
      wireMap := (List.range n).map some ++ List.replicate c.gates.length none,
      insts := inputInsts c.inputGates 0 0, andOps := 0 }
  match convertGates last c.gates n st0 with
  | none => none
  | some st =>
    match c.outputGates.mapM (fun o => st.wireMap.getD o none) with
    | none => none
    | some outs =>
      some { inputRegs := c.inputGates, insts := st.insts, maxRegCount := st.next,
             outputRegs := outs, andOps := st.andOps }

end Reg
end GV
