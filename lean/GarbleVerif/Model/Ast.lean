import GarbleVerif.Model.Value
/-!
# L6 — abstract syntax of Garble programs (after type checking)

Types are expanded (`Ty` carries struct and enum definitions, array sizes are numbers, constants
are resolved to values), and every operator node carries the type of its operands, so the
semantics needs no type environment. Lists are hand-rolled so that all recursion stays inside one
family of mutual inductives.
-/
namespace GV
namespace Src

inductive UnOp where
  | not | neg
deriving DecidableEq, Repr, Inhabited

inductive BinOp where
  | add | sub | mul | div | rem | band | bor | bxor | shl | shr
  | eq | ne | lt | le | gt | ge | land | lor
deriving DecidableEq, Repr, Inhabited

mutual
inductive Pat where
  | ident (name : String)
  | bool (b : Bool)
  | int (n : Int)
  /-- inclusive on both ends (an exclusive source pattern `a..b` arrives as `a ..= b-1`) -/
  | range (lo hi : Int)
  | tuple (ps : PatList)
  /-- the listed fields only (`..` or all of them) -/
  | struct (name : String) (fs : FieldPats)
  | enumUnit (ename variant : String)
  | enumTuple (ename variant : String) (ps : PatList)
inductive PatList where
  | nil
  | cons (p : Pat) (rest : PatList)
inductive FieldPats where
  | nil
  | cons (name : String) (p : Pat) (rest : FieldPats)
end

mutual
inductive Expr where
  | bool (b : Bool)
  | int (n : Int) (k : IntTy)
  | var (name : String)
  /-- `ty`: type of the operand (= type of the result) -/
  | un (op : UnOp) (ty : Ty) (a : Expr)
  /-- `ty`: type of the left operand -/
  | bin (op : BinOp) (ty : Ty) (a b : Expr)
  | cast (src dst : Ty) (a : Expr)
  | ite (c t e : Expr)
  | block (ss : StmtList)
  | tuple (es : ExprList)
  | tupleGet (a : Expr) (i : Nat)
  | array (es : ExprList)
  | repeat_ (a : Expr) (n : Nat)
  | index (a i : Expr)
  /-- `lo..hi` -/
  | range (lo hi : Nat) (k : IntTy)
  | struct (name : String) (fs : FieldExprs)
  | field (a : Expr) (name : String)
  | enumLit (ename variant : String) (isUnit : Bool) (es : ExprList)
  | match_ (scrut : Expr) (arms : Arms)
  | call (fn : String) (args : ExprList)
inductive Stmt where
  | let_ (p : Pat) (e : Expr)
  | letMut (name : String) (e : Expr)
  | assign (name : String) (path : Path) (e : Expr)
  | expr (e : Expr)
  | for_ (p : Pat) (arr : Expr) (body : StmtList)
  | forJoin (p : Pat) (a b : Expr) (body : StmtList)
/-- the accessors of an assignment target, outermost first -/
inductive Path where
  | nil
  | index (i : Expr) (rest : Path)
  | tup (i : Nat) (rest : Path)
  | fld (name : String) (rest : Path)
inductive ExprList where
  | nil
  | cons (e : Expr) (rest : ExprList)
inductive StmtList where
  | nil
  | cons (s : Stmt) (rest : StmtList)
inductive FieldExprs where
  | nil
  | cons (name : String) (e : Expr) (rest : FieldExprs)
inductive Arms where
  | nil
  | cons (p : Pat) (e : Expr) (rest : Arms)
end

instance : Inhabited Pat := ⟨.ident "_"⟩
instance : Inhabited PatList := ⟨.nil⟩
instance : Inhabited FieldPats := ⟨.nil⟩
instance : Inhabited Expr := ⟨.bool false⟩
instance : Inhabited Stmt := ⟨.expr (.bool false)⟩
instance : Inhabited Path := ⟨.nil⟩
instance : Inhabited ExprList := ⟨.nil⟩
instance : Inhabited StmtList := ⟨.nil⟩
instance : Inhabited FieldExprs := ⟨.nil⟩
instance : Inhabited Arms := ⟨.nil⟩

namespace PatList
def ofList : List Pat → PatList
  | [] => nil
  | p :: r => cons p (ofList r)
end PatList
namespace FieldPats
def ofList : List (String × Pat) → FieldPats
  | [] => nil
  | (n, p) :: r => cons n p (ofList r)
end FieldPats
namespace ExprList
def ofList : List Expr → ExprList
  | [] => nil
  | e :: r => cons e (ofList r)
end ExprList
namespace StmtList
def ofList : List Stmt → StmtList
  | [] => nil
  | s :: r => cons s (ofList r)
end StmtList
namespace FieldExprs
def ofList : List (String × Expr) → FieldExprs
  | [] => nil
  | (n, e) :: r => cons n e (ofList r)
end FieldExprs
namespace Arms
def ofList : List (Pat × Expr) → Arms
  | [] => nil
  | (p, e) :: r => cons p e (ofList r)
end Arms

structure FnDef where
  name : String
  params : List (String × Ty)
  ret : Ty
  body : StmtList

/-- a checked program: its functions and the values of its constants -/
structure Prog where
  fns : List FnDef
  consts : List (String × Val)
  /-- the enum definitions of the program (an enum literal names its type only) -/
  enums : List (String × Variants) := []
  /-- the declared types of the constants -/
  constTys : List (String × Ty) := []

def Prog.enum? (p : Prog) (name : String) : Option Variants := (p.enums.find? (·.1 == name)).map (·.2)

def Prog.fn? (p : Prog) (name : String) : Option FnDef := p.fns.find? (·.name == name)

end Src
end GV
