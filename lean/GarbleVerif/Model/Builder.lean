import Std.Data.HashMap
import GarbleVerif.Model.Ssa
/-!
# L3 — the circuit builder

Transliteration of `CircuitBuilder` (circuit.rs:415-1062): `push_gate`, `get_cached`,
`optimize_xor`, `push_xor`, `optimize_and`, `push_and`, `push_not/or/eq/mux/adder`,
`remove_unused_gates`, `build`.

Wires 0 and 1 are the constants false / true, wires `2 .. shift-1` the inputs, wire
`shift + i` is `gates[i]`. `push_xor` / `push_and` recurse through operand definitions
exactly like the Rust code; they take a fuel argument (the Rust recursion is on strictly
smaller wire sums, `fuelFor` is always enough) and fall back to emitting the raw gate when
it runs out — soundness is proved for *any* fuel.
-/
namespace GV

inductive BGate where
  | xor (a b : Nat)
  | and (a b : Nat)
deriving DecidableEq, Hashable, Repr

structure Builder where
  cacheOn : Bool
  shift : Nat
  gates : List BGate
  cache : Std.HashMap BGate Nat
  negated : Std.HashMap Nat Nat

namespace Builder

def counter (b : Builder) : Nat := b.shift + b.gates.length

/-- `push_gate` -/
def pushGate (b : Builder) (g : BGate) : Nat × Builder :=
  (b.counter,
   { b with gates := b.gates ++ [g],
            cache := if b.cacheOn then b.cache.insert g b.counter else b.cache })

/-- `get_cached` (commutative lookup) -/
def getCached (b : Builder) (g : BGate) : Option Nat :=
  if !b.cacheOn then none else
  match b.cache[g]? with
  | some w => some w
  | none => match g with
    | .xor x y => b.cache[BGate.xor y x]?
    | .and x y => b.cache[BGate.and y x]?

def gateAt (b : Builder) (w : Nat) : Option BGate :=
  if w < b.shift then none else b.gates[w - b.shift]?

/-- `optimize_xor` -/
def optimizeXor (b : Builder) (x y : Nat) : Option Nat :=
  if x = 0 then some y
  else if y = 0 then some x
  else if x = y then some 0
  else
    let viaNeg : Option Nat :=
      match b.negated[x]? with
      | some xn => if xn = y then some 1 else if y = 1 then some xn else none
      | none => match b.negated[y]? with
        | some yn => if yn = x then some 1 else if x = 1 then some yn else none
        | none => none
    match viaNeg with
    | some w => some w
    | none => b.getCached (.xor x y)

/-- the final, un-optimised push of an XOR gate incl. `negated` bookkeeping -/
def pushXorRaw (b : Builder) (x y : Nat) : Nat × Builder :=
  let (w, b1) := b.pushGate (.xor x y)
  let b2 := if x = 1 then { b1 with negated := (b1.negated.insert y w).insert w y } else b1
  let b3 := if y = 1 then { b2 with negated := (b2.negated.insert x w).insert w x } else b2
  (w, b3)

/-- first tuple `(a1,a2,b1,b2)` among the four orientations with `a1 = b1` -/
def andOrients (x1 x2 y1 y2 : Nat) : List (Nat × Nat × Nat × Nat) :=
  [(x1, x2, y1, y2), (x1, x2, y2, y1), (x2, x1, y1, y2), (x2, x1, y2, y1)]

abbrev Rec := Builder → Nat → Nat → Nat × Builder

/-- rule block 1 of `push_xor`: both operands are gates (circuit.rs:827-872) -/
def xorRule1 (rec : Rec) (b : Builder) (x y : Nat) : Option (Nat × Builder) :=
  match b.gateAt x, b.gateAt y with
  | some (.xor x1 x2), some (.xor y1 y2) =>
    if x1 = y1 then some (rec b x2 y2)
    else if x1 = y2 then some (rec b x2 y1)
    else if x2 = y1 then some (rec b x1 y2)
    else if x2 = y2 then some (rec b x1 y1)
    else none
  | some (.and x1 x2), some (.and y1 y2) =>
    let os := andOrients x1 x2 y1 y2
    let cachedHit : Option Nat := os.findSome? fun (a1, a2, b1, b2) =>
      if a1 = b1 then
        match b.getCached (.xor a2 b2) with
        | some ab => b.getCached (.and a1 ab)
        | none => none
      else none
    match cachedHit with
    | some w => some (w, b)
    | none =>
      match os.find? (fun (a1, _, b1, _) => a1 = b1) with
      | some (a1, a2, _, b2) =>
        let r := b.pushGate (.xor a2 b2)
        some (r.2.pushGate (.and a1 r.1))
      | none => none
  | _, _ => none

/-- rule block 2: `x` is an XOR gate (circuit.rs:873-890) -/
def xorRule2 (rec : Rec) (b : Builder) (x y : Nat) : Option (Nat × Builder) :=
  match b.gateAt x with
  | some (.xor x1 x2) =>
    if x1 = y then some (x2, b)
    else if x2 = y then some (x1, b)
    else match b.negated[y]? with
      | some yn =>
        if x1 = yn then some (rec b x2 1)
        else if x2 = yn then some (rec b x1 1)
        else none
      | none => none
  | _ => none

/-- rule block 3: `y` is an XOR gate (circuit.rs:891-908) -/
def xorRule3 (rec : Rec) (b : Builder) (x y : Nat) : Option (Nat × Builder) :=
  match b.gateAt y with
  | some (.xor y1 y2) =>
    if x = y1 then some (y2, b)
    else if x = y2 then some (y1, b)
    else match b.negated[x]? with
      | some xn =>
        if xn = y1 then some (rec b 1 y2)
        else if xn = y2 then some (rec b 1 y1)
        else none
      | none => none
  | _ => none

def pushXor : Nat → Builder → Nat → Nat → Nat × Builder
  | fuel, b, x, y =>
    match b.optimizeXor x y with
    | some w => (w, b)
    | none =>
      match fuel with
      | 0 => b.pushXorRaw x y
      | fuel + 1 =>
        match xorRule1 (pushXor fuel) b x y with
        | some r => r
        | none =>
        match xorRule2 (pushXor fuel) b x y with
        | some r => r
        | none =>
        match xorRule3 (pushXor fuel) b x y with
        | some r => r
        | none => b.pushXorRaw x y

/-- `optimize_and` -/
def optimizeAnd (b : Builder) (x y : Nat) : Option Nat :=
  if x = 0 ∨ y = 0 then some 0
  else if x = 1 then some y
  else if y = 1 ∨ x = y then some x
  else
    let viaNeg : Option Nat :=
      match b.negated[x]? with
      | some xn => if xn = y then some 0 else none
      | none => match b.negated[y]? with
        | some yn => if yn = x then some 0 else none
        | none => none
    match viaNeg with
    | some w => some w
    | none => b.getCached (.and x y)

def andRule1 (rec : Rec) (b : Builder) (x y : Nat) : Option (Nat × Builder) :=
  match b.gateAt x, b.gateAt y with
  | some (.and x1 x2), some (.and y1 y2) =>
    if x1 = y1 ∨ x2 = y1 then some (rec b x y2)
    else if x1 = y2 ∨ x2 = y2 then some (rec b x y1)
    else none
  | _, _ => none

def andRule2 (xrec : Rec) (b : Builder) (x y : Nat) : Option (Nat × Builder) :=
  match b.gateAt x with
  | some (.and x1 x2) =>
    if x1 = y ∨ x2 = y then some (x, b)
    else match b.negated[y]? with
      | some yn => if x1 = yn ∨ x2 = yn then some (0, b) else none
      | none => none
  | some (.xor x1 x2) =>
    match b.getCached (.and x1 y), b.getCached (.and x2 y) with
    | some p, some q => some (xrec b p q)
    | _, _ => none
  | none => none

def andRule3 (xrec : Rec) (b : Builder) (x y : Nat) : Option (Nat × Builder) :=
  match b.gateAt y with
  | some (.and y1 y2) =>
    if x = y1 ∨ x = y2 then some (y, b)
    else match b.negated[x]? with
      | some xn => if xn = y1 ∨ xn = y2 then some (0, b) else none
      | none => none
  | some (.xor y1 y2) =>
    match b.getCached (.and x y1), b.getCached (.and x y2) with
    | some p, some q => some (xrec b p q)
    | _, _ => none
  | none => none

def pushAnd : Nat → Nat → Builder → Nat → Nat → Nat × Builder
  | fuel, xfuel, b, x, y =>
    match b.optimizeAnd x y with
    | some w => (w, b)
    | none =>
      match fuel with
      | 0 => b.pushGate (.and x y)
      | fuel + 1 =>
        match andRule1 (pushAnd fuel xfuel) b x y with
        | some r => r
        | none =>
        match andRule2 (pushXor xfuel) b x y with
        | some r => r
        | none =>
        match andRule3 (pushXor xfuel) b x y with
        | some r => r
        | none => b.pushGate (.and x y)


/-! ### derived requests (circuit.rs:1009-1062) -/

/-- enough fuel for any request on existing wires (all wires are `< counter`) -/
def fuelFor (b : Builder) : Nat := 2 * b.counter + 2

/-- `CircuitBuilder::new` -/
def new (inputGates : List Nat) (cacheOn : Bool) : Builder :=
  { cacheOn := cacheOn, shift := inputGates.sum + 2, gates := [],
    cache := {}, negated := {} }

def xor (b : Builder) (x y : Nat) : Nat × Builder := pushXor b.fuelFor b x y
def and (b : Builder) (x y : Nat) : Nat × Builder := pushAnd b.fuelFor b.fuelFor b x y

/-- `push_not` -/
def not (b : Builder) (x : Nat) : Nat × Builder := b.xor x 1

/-- `push_or` -/
def or (b : Builder) (x y : Nat) : Nat × Builder :=
  let (xo, b) := b.xor x y
  let (an, b) := b.and x y
  b.xor xo an

/-- `push_eq` -/
def eq (b : Builder) (x y : Nat) : Nat × Builder :=
  let (xo, b) := b.xor x y
  b.xor xo 1

/-- `push_mux(s, x0, x1)` = `if s then x0 else x1` -/
def mux (b : Builder) (s x0 x1 : Nat) : Nat × Builder :=
  if x0 = x1 then (x0, b) else
  let (x, b) := b.xor x0 x1
  let (ns, b) := b.not s
  let (sw, b) := b.and x ns
  b.xor x0 sw

/-- `push_adder` → (sum, carry) -/
def adder (b : Builder) (x y c : Nat) : (Nat × Nat) × Builder :=
  let (u, b) := b.xor x y
  let (v, b) := b.and x y
  let (s, b) := b.xor u c
  let (w, b) := b.and u c
  let (c', b) := b.or v w
  ((s, c'), b)

/-! ### `remove_unused_gates` and `build` (circuit.rs:470-644) -/

def gateOps : BGate → Nat × Nat
  | .xor a b => (a, b)
  | .and a b => (a, b)

def markWire (shift : Nat) (need : List Bool) (w : Nat) : List Bool :=
  if shift ≤ w then need.set (w - shift) true else need

/-- mark phase, one gate: if gate `k` is needed, so are its operands -/
def markStep (shift : Nat) (gates : List BGate) (need : List Bool) (k : Nat) : List Bool :=
  if need.getD k false then
    match gates[k]? with
    | some g => markWire shift (markWire shift need (gateOps g).1) (gateOps g).2
    | none => need
  else need

/-- process gates `k-1, k-2, …, 0` -/
def sweep (shift : Nat) (gates : List BGate) : Nat → List Bool → List Bool
  | 0, need => need
  | k + 1, need => sweep shift gates k (markStep shift gates need k)

/-- The set of gates reachable from the roots. The Rust code computes it with an explicit
stack; as every operand is an earlier wire, one backward sweep computes the same set. -/
def mark (shift : Nat) (gates : List BGate) (roots : List Nat) : List Bool :=
  sweep shift gates gates.length (roots.foldl (markWire shift) (List.replicate gates.length false))

def mapOps (f : Nat → Nat) : BGate → BGate
  | .xor a b => .xor (f a) (f b)
  | .and a b => .and (f a) (f b)

/-- `unused_before_gate[k]` : number of unused gates among positions `0..=k` -/
def unusedUpTo (used : List Bool) (k : Nat) : Nat := ((used.take (k + 1)).filter (fun u => !u)).length

/-- number of used gates among positions `0..k-1` = new position of gate `k` -/
def newPos (used : List Bool) (k : Nat) : Nat := ((used.take k).filter (fun u => u)).length

/-- `shift_gate_index_if_necessary` of `remove_unused_gates` (note `>`: gate 0 never moves) -/
def remap (shift : Nat) (used : List Bool) (w : Nat) : Nat :=
  if w > shift then w - unusedUpTo used (w - shift) else w

/-- kept gates (from position `k` on), operands remapped -/
def compactFrom (shift : Nat) (used : List Bool) : Nat → List BGate → List BGate
  | _, [] => []
  | k, g :: gs =>
    if used.getD k false then mapOps (remap shift used) g :: compactFrom shift used (k + 1) gs
    else compactFrom shift used (k + 1) gs

def compact (shift : Nat) (used : List Bool) (gates : List BGate) : List BGate :=
  compactFrom shift used 0 gates

/-- `shift_gate_index_if_necessary` of `build` -/
def fIdx (shift i : Nat) : Nat :=
  if i ≤ 1 then i + (shift - 2) else if i < shift then i - 2 else i

/-- `shift_gate_if_necessary` of `build` -/
def convGate (shift : Nat) : BGate → Gate
  | .xor x y =>
    if x = 1 then .not (fIdx shift y)
    else if y = 1 then .not (fIdx shift x)
    else .xor (fIdx shift x) (fIdx shift y)
  | .and x y => .and (fIdx shift x) (fIdx shift y)

/-- `CircuitBuilder::build`: `panicWires` are the 161 wires of the panic record, `outs` the
requested outputs, `inputGates` the party sizes the builder was created with. -/
def build (b : Builder) (inputGates : List Nat) (panicWires outs : List Nat) : Circuit :=
  let used := mark b.shift b.gates (outs ++ panicWires)
  let f := fun w => fIdx b.shift (remap b.shift used w)
  { inputGates := inputGates
    gates := .xor 0 0 :: .not (b.shift - 2) :: (compact b.shift used b.gates).map (convGate b.shift)
    outputGates := panicWires.map f ++ outs.map f }


/-! ### the panic record (circuit.rs:646-758) -/

/-- the 161 wires of a `PanicResult` (flag, then reason / start line / start column / end line /
end column, 32 wires each) and the conditions already folded into it (`CachedPanicResult`) -/
structure PanicSt where
  wires : List Nat
  cache : List Nat

/-- `unsigned_as_usize_bits`: 32 constant wires (0/1), most significant first -/
def usizeWires (n : Nat) : List Nat := (List.range 32).map fun i => n / 2 ^ (31 - i) % 2

/-- `PanicResult::ok()` -/
def PanicSt.ok : PanicSt :=
  { wires := 0 :: (usizeWires 1 ++ usizeWires 0 ++ usizeWires 0 ++ usizeWires 0 ++ usizeWires 0), cache := [] }

def PanicSt.flag (p : PanicSt) : Nat := p.wires.headD 0
def PanicSt.reason (p : PanicSt) : List Nat := (p.wires.drop 1).take 32
def PanicSt.startLine (p : PanicSt) : List Nat := (p.wires.drop 33).take 32
def PanicSt.startCol (p : PanicSt) : List Nat := (p.wires.drop 65).take 32
def PanicSt.endLine (p : PanicSt) : List Nat := (p.wires.drop 97).take 32
def PanicSt.endCol (p : PanicSt) : List Nat := (p.wires.drop 129).take 32

/-- `push_mux` over two equally long wire lists, left to right -/
def muxWires (b : Builder) (s : Nat) : List Nat → List Nat → List Nat × Builder
  | x :: xs, y :: ys =>
    let (w, b) := b.mux s x y
    let (ws, b) := muxWires b s xs ys
    (w :: ws, b)
  | _, _ => ([], b)

/-- `[a0, b0, c0, d0, a1, b1, …]` -/
def interleave4 {α} : List α → List α → List α → List α → List α
  | a :: as, b :: bs, c :: cs, d :: ds => a :: b :: c :: d :: interleave4 as bs cs ds
  | _, _, _, _ => []

def deinterleave4 {α} : List α → List α × List α × List α × List α
  | a :: b :: c :: d :: rest =>
    let (as, bs, cs, ds) := deinterleave4 rest
    (a :: as, b :: bs, c :: cs, d :: ds)
  | _ => ([], [], [], [])

/-- `push_panic_if(cond, reason, meta)`; a condition that is already part of the record is a
no-op. The Rust loop muxes, for each `i`, start line, start column, end line, end column (in this
order) and afterwards the 32 reason wires. -/
def pushPanicIf (b : Builder) (p : PanicSt) (cond reason l0 c0 l1 c1 : Nat) : Builder × PanicSt :=
  if p.cache.contains cond then (b, p) else
  let already := p.flag
  let (flag, b) := b.or p.flag cond
  let (loc, b) := muxWires b already (interleave4 p.startLine p.startCol p.endLine p.endCol)
    (interleave4 (usizeWires l0) (usizeWires c0) (usizeWires l1) (usizeWires c1))
  let (sl, sc, el, ec) := deinterleave4 loc
  let (rs, b) := muxWires b already p.reason (usizeWires reason)
  (b, { wires := flag :: (rs ++ sl ++ sc ++ el ++ ec), cache := cond :: p.cache })

/-- `mux_uncached_panic` (flag, reason, start line, start column, end line, end column — the order
of the record) + the merge of the caches in `mux_panic` (conditions known on both paths) -/
def muxPanic (b : Builder) (s : Nat) (t f : PanicSt) : Builder × PanicSt :=
  let (ws, b) := muxWires b s t.wires f.wires
  (b, { wires := ws, cache := t.cache.filter f.cache.contains })

/-! ### Semantics -/

def gateVal (vs : List Bool) : BGate → Bool
  | .xor a b => vs.getD a false ^^ vs.getD b false
  | .and a b => vs.getD a false && vs.getD b false

def stepVals (vs : List Bool) (g : BGate) : List Bool := vs ++ [gateVal vs g]

def valsFrom (init : List Bool) (gs : List BGate) : List Bool := gs.foldl stepVals init

def vals (b : Builder) (inp : List Bool) : List Bool := valsFrom (false :: true :: inp) b.gates

def sem (b : Builder) (inp : List Bool) (w : Nat) : Bool := (b.vals inp).getD w false

end Builder
end GV
