import GarbleVerif.Model.Ssa
/-!
# L2 — register circuits

Transliteration of `register_circuit.rs:117-209`: `Circuit::{validate, eval}`.

Two evaluators:
* `evalRaw?` follows the Rust code exactly (registers are `bool`s initialised to `false`);
  it is `none` exactly where the Rust code panics (index out of range).
* `eval?` is the *strict* evaluator: registers are `Option Bool`, initially undefined, and
  reading an undefined register is an error. `eval? = some o` is the statement "evaluation
  never panics, reads only registers that exist **and have been written**, and returns `o`".
  `eval?_raw` (Proofs/RegEval) shows the two agree whenever the strict one succeeds.
-/
namespace GV
namespace Reg

inductive Op where
  | xor (a b : Nat)
  | and (a b : Nat)
  | not (a : Nat)
  | input (party idx : Nat)
deriving DecidableEq, Repr, Inhabited

structure Inst where
  out : Nat
  op : Op
deriving DecidableEq, Repr, Inhabited

structure RCircuit where
  inputRegs : List Nat
  insts : List Inst
  maxRegCount : Nat
  outputRegs : List Nat
  andOps : Nat
deriving DecidableEq, Repr, Inhabited

inductive RError where
  | emptyInputs
  | invalidInst (i : Nat)
  | emptyOutputs
  | invalidOutput (r : Nat)
  | maxCircuitSizeExceeded
  | invalidRegAccess (i : Nat) (r : Nat)
  | invalidInput (i : Nat)
deriving DecidableEq, Repr

namespace RCircuit

def totalInputs (c : RCircuit) : Nat := c.inputRegs.sum

def validateOutputs (n : Nat) : List Nat → Except RError Unit
  | [] => .ok ()
  | o :: os => if o < n then validateOutputs n os else .error (.invalidOutput o)

/-- every output register has been written by some instruction -/
def validateOutputsSet (set : List Bool) : List Nat → Except RError Unit
  | [] => .ok ()
  | o :: os => if set.getD o false then validateOutputsSet set os else .error (.invalidOutput o)

/-- is register `r` marked in `register_set`? (`register_set[r]`, in range by the caller) -/
def isSet (set : List Bool) (r : Nat) : Bool := set.getD r false

/-- one iteration of the instruction loop of `validate`; returns the new `register_set` -/
def validateInst (inputRegs : List Nat) (n : Nat) (set : List Bool) (i : Nat) (inst : Inst) :
    Except RError (List Bool) :=
  if !(inst.out < n) then .error (.invalidInst i) else
  let ok : Except RError Unit :=
    match inst.op with
    | .input party idx =>
      if i != inst.out then .error (.invalidInput i) else
      match inputRegs[party]? with
      | none => .error (.invalidInput i)
      | some sz => if idx < sz then .ok () else .error (.invalidInput i)
    | .xor x y | .and x y =>
      if !(x < n) || !(y < n) then .error (.invalidInst i)
      else if !isSet set x then .error (.invalidRegAccess i x)
      else if !isSet set y then .error (.invalidRegAccess i x)  -- sic: the Rust reports `x`
      else .ok ()
    | .not x =>
      if !(x < n) then .error (.invalidInst i)
      else if !isSet set x then .error (.invalidRegAccess i x)
      else .ok ()
  match ok with
  | .error e => .error e
  | .ok () => .ok (set.set inst.out true)

def validateInsts (inputRegs : List Nat) (n : Nat) : List Inst → Nat → List Bool → Except RError (List Bool)
  | [], _, set => .ok set
  | inst :: rest, i, set =>
    match validateInst inputRegs n set i inst with
    | .error e => .error e
    | .ok set' => validateInsts inputRegs n rest (i + 1) set'

/-- `register_circuit::Circuit::validate` -/
def validate (c : RCircuit) : Except RError Unit :=
  if c.inputRegs.all (· == 0) then .error .emptyInputs else
  if c.outputRegs.isEmpty then .error .emptyOutputs else
  match validateOutputs c.maxRegCount c.outputRegs with
  | .error e => .error e
  | .ok () =>
    if c.insts.length > MAX_GATES then .error .maxCircuitSizeExceeded else
    match validateInsts c.inputRegs c.maxRegCount c.insts 0 (List.replicate c.maxRegCount false) with
    | .error e => .error e
    | .ok set => validateOutputsSet set c.outputRegs

/-! ### raw evaluator (exactly the Rust code) -/

def rawOp (ins : List (List Bool)) (regs : List Bool) : Op → Option Bool
  | .xor a b => do let x ← regs[a]?; let y ← regs[b]?; pure (x ^^ y)
  | .and a b => do let x ← regs[a]?; let y ← regs[b]?; pure (x && y)
  | .not a => do let x ← regs[a]?; pure (!x)
  | .input p i => do let party ← ins[p]?; party[i]?

def rawInsts (ins : List (List Bool)) : List Inst → List Bool → Option (List Bool)
  | [], regs => some regs
  | inst :: rest, regs =>
    match rawOp ins regs inst.op with
    | none => none
    | some v => if inst.out < regs.length then rawInsts ins rest (regs.set inst.out v) else none

def evalRaw? (c : RCircuit) (ins : List (List Bool)) : Option (List Bool) :=
  if !Circuit.shapeOk c.inputRegs ins then none else
  match rawInsts ins c.insts (List.replicate c.maxRegCount false) with
  | none => none
  | some regs => c.outputRegs.mapM (fun r => regs[r]?)

/-! ### strict evaluator (undefined registers tracked) -/

def readReg (regs : List (Option Bool)) (r : Nat) : Option Bool :=
  match regs[r]? with
  | some (some v) => some v
  | _ => none

def strictOp (ins : List (List Bool)) (regs : List (Option Bool)) : Op → Option Bool
  | .xor a b => do let x ← readReg regs a; let y ← readReg regs b; pure (x ^^ y)
  | .and a b => do let x ← readReg regs a; let y ← readReg regs b; pure (x && y)
  | .not a => do let x ← readReg regs a; pure (!x)
  | .input p i => do let party ← ins[p]?; party[i]?

def strictInsts (ins : List (List Bool)) : List Inst → List (Option Bool) → Option (List (Option Bool))
  | [], regs => some regs
  | inst :: rest, regs =>
    match strictOp ins regs inst.op with
    | none => none
    | some v =>
      if inst.out < regs.length then strictInsts ins rest (regs.set inst.out (some v)) else none

def eval? (c : RCircuit) (ins : List (List Bool)) : Option (List Bool) :=
  if !Circuit.shapeOk c.inputRegs ins then none else
  match strictInsts ins c.insts (List.replicate c.maxRegCount none) with
  | none => none
  | some regs => c.outputRegs.mapM (fun r => readReg regs r)

end RCircuit
end Reg
end GV
