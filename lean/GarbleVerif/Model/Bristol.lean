import GarbleVerif.Model.Ssa
/-!
# L9 — Bristol fashion export / import (`convert.rs`), at token level

A file is a list of lines, a line a list of whitespace-separated tokens; a token is `num n`
if it parses as a `usize`, `word s` otherwise (decimal printing / parsing is trusted glue,
done by the harness). `Outcome.crash` marks every place where the Rust code would panic
(index out of range, arithmetic overflow); `C11_import_total` shows it is unreachable.
-/
namespace GV
namespace Bristol

inductive Tok where
  | num (n : Nat)
  | word (s : String)
deriving DecidableEq, Repr, Inhabited

abbrev Line := List Tok

inductive ImportError where
  | otherParseError | parseIntError | unknownGate | missingGateType
  | inputPartiesMismatch | outputCountMismatch | missingLine | malformedLine
  | invalidWireIndex (w : Nat)
  | crash (what : String)
deriving DecidableEq, Repr, Inhabited

/-! ### export (`format_as_bristol`) -/

/-- de-aliasing of repeated outputs: each repeated output wire gets two extra XOR gates -/
def dealias : List Nat → List Nat → Nat → List Gate → List Nat × List Gate
  | [], _, _, extra => ([], extra)
  | o :: rest, seen, wireMax, extra =>
    if seen.contains o then
      let (outs, extra') := dealias rest seen (wireMax + 2) (extra ++ [.xor o o, .xor o wireMax])
      ((wireMax + 1) :: outs, extra')
    else
      let (outs, extra') := dealias rest (o :: seen) wireMax extra
      (o :: outs, extra')

/-- position of `w` in the output list (the `HashMap` built from `enumerate()` keeps the last one,
but after de-aliasing all outputs are distinct) -/
def outPos (outs : List Nat) (w : Nat) : Option Nat :=
  let rec go : List Nat → Nat → Option Nat → Option Nat
    | [], _, acc => acc
    | o :: rest, i, acc => go rest (i + 1) (if o == w then some i else acc)
  go outs 0 none

/-- the wire renumbering: inputs keep their numbers, outputs become the last wires in output
order, every other wire moves down by the number of outputs before it -/
def wiresMap (totalInputs totalWires : Nat) (outs : List Nat) : List Nat :=
  let rec go : List Nat → Nat → List Nat
    | [], _ => []
    | i :: rest, outCount =>
      if i < totalInputs then i :: go rest outCount
      else match outPos outs i with
        | some idx => (totalWires - outs.length + idx) :: go rest (outCount + 1)
        | none => (i - outCount) :: go rest outCount
  go (List.range totalWires) 0

inductive ExportError where
  | outputWireIsInput
  | crash (what : String)
deriving DecidableEq, Repr

def gateLine (wm : List Nat) (g : Gate) (out : Nat) : Option Line :=
  match g with
  | .xor x y => do pure [.num 2, .num 1, .num (← wm[x]?), .num (← wm[y]?), .num out, .word "XOR"]
  | .and x y => do pure [.num 2, .num 1, .num (← wm[x]?), .num (← wm[y]?), .num out, .word "AND"]
  | .not x => do pure [.num 1, .num 1, .num (← wm[x]?), .num out, .word "INV"]

/-- `Circuit::format_as_bristol`: the lines written to the file -/
def exportLines (c : Circuit) : Except ExportError (List Line) :=
  if c.outputGates.length < 161 then .error (.crash "slice 161.. out of range") else
  let totalInputs := c.totalInputs
  let outs0 := c.outputGates.drop 161
  if outs0.any (· < totalInputs) then .error .outputWireIsInput else
  let (outs, extra) := dealias outs0 [] (c.gates.length + totalInputs) []
  let gates := c.gates ++ extra
  let totalGates := gates.length
  let totalWires := totalGates + totalInputs
  let wm := wiresMap totalInputs totalWires outs
  let header : List Line :=
    [[.num totalGates, .num totalWires],
     .num c.inputGates.length :: c.inputGates.map .num,
     [.num 1, .num outs.length],
     []]
  let rec lines : List Gate → Nat → Except ExportError (List Line)
    | [], _ => .ok []
    | g :: rest, i =>
      match wm[i + totalInputs]? with
      | none => .error (.crash "wires_map index")
      | some out =>
        match gateLine wm g out with
        | none => .error (.crash "wires_map index")
        | some l =>
          match lines rest (i + 1) with
          | .ok ls => .ok (l :: ls)
          | .error e => .error e
  match lines gates 0 with
  | .ok ls => .ok (header ++ ls)
  | .error e => .error e

/-! ### import (`bristol_to_garble`) -/

/-- `parse_line`: every token must be a number -/
def parseLine : Option Line → Except ImportError (List Nat)
  | none => .error .missingLine
  | some l => l.mapM fun t => match t with
    | .num n => .ok n
    | .word _ => .error .otherParseError

def tokNum : Tok → Except ImportError Nat
  | .num n => .ok n
  | .word _ => .error .parseIntError

/-- `usize::MAX + 1`: sums of declared sizes are computed with `checked_add` -/
def USIZE_LIMIT : Nat := 2 ^ 64

/-- `iter().try_fold(0, checked_add)` -/
def checkedSum (ns : List Nat) : Option Nat :=
  ns.foldl (fun acc n => match acc with
    | some a => if a + n < USIZE_LIMIT then some (a + n) else none
    | none => none) (some 0)

structure ImportSt where
  wiresMap : List Nat        -- non-input wires only: entry `w - inputWiresNum`
  nextWire : Nat
  gates : List Gate
  outputGates : List Nat

/-- `map_wire`: input wires keep their index -/
def mapWire (inputWiresNum : Nat) (wm : List Nat) (w : Nat) : Except ImportError Nat :=
  if w < inputWiresNum then .ok w else
  match wm[w - inputWiresNum]? with
  | some v => .ok v
  | none => .error (.crash "wires_map index")

/-- syntactic part of a gate line: arity fields, operand wires, output wire (all `< wiresNum`),
gate type -/
def parseGateLine (wiresNum : Nat) (parts : Line) : Except ImportError (List Nat × Nat × Tok) :=
  if parts.length < 5 then .error .malformedLine else
  match tokNum (parts.getD 0 (.num 0)) with
  | .error e => .error e
  | .ok numInputs =>
  match tokNum (parts.getD 1 (.num 0)) with
  | .error e => .error e
  | .ok numOutputs =>
  if numOutputs != 1 || parts.length - 4 != numInputs then .error .malformedLine else
  match ((parts.drop 2).take numInputs).mapM tokNum with
  | .error e => .error e
  | .ok inputWires =>
  match tokNum (parts.getD (2 + numInputs) (.num 0)) with
  | .error e => .error e
  | .ok outputWire =>
  match inputWires.find? (· ≥ wiresNum) with
  | some w => .error (.invalidWireIndex w)
  | none =>
  if outputWire ≥ wiresNum then .error (.invalidWireIndex outputWire) else
  match parts.getLast? with
  | none => .error .missingGateType
  | some gateType => .ok (inputWires, outputWire, gateType)

/-- the effect of a parsed gate line on the importer state -/
def applyGate (wiresNum inputWiresNum numOutputWires : Nat) (st : ImportSt)
    (inputWires : List Nat) (outputWire : Nat) (gateType : Tok) : Except ImportError ImportSt :=
  -- (the caller has checked `numOutputWires ≤ wiresNum` and `inputWiresNum ≤ wiresNum`)
  let firstOut := wiresNum - numOutputWires
  if outputWire ≥ firstOut ∧ ¬ (outputWire - firstOut < st.outputGates.length) then
    .error (.crash "output_gates index") else
  let outs :=
    if outputWire ≥ firstOut then st.outputGates.set (outputWire - firstOut) st.nextWire else st.outputGates
  if outputWire ≥ inputWiresNum ∧ ¬ (outputWire - inputWiresNum < st.wiresMap.length) then
    .error (.crash "wires_map index") else
  let wm := if outputWire ≥ inputWiresNum then st.wiresMap.set (outputWire - inputWiresNum) st.nextWire
    else st.wiresMap
  let rd := mapWire inputWiresNum wm
  let mk (g : Gate) : ImportSt :=
    { wiresMap := wm, nextWire := st.nextWire + 1, gates := st.gates ++ [g], outputGates := outs }
  match gateType with
  | .word "XOR" =>
    match inputWires with
    | [a, b] =>
      match rd a, rd b with
      | .ok x, .ok y => .ok (mk (.xor x y))
      | .error e, _ => .error e
      | _, .error e => .error e
    | _ => .error .malformedLine
  | .word "AND" =>
    match inputWires with
    | [a, b] =>
      match rd a, rd b with
      | .ok x, .ok y => .ok (mk (.and x y))
      | .error e, _ => .error e
      | _, .error e => .error e
    | _ => .error .malformedLine
  | .word "INV" =>
    match inputWires with
    | [a] =>
      match rd a with
      | .ok x => .ok (mk (.not x))
      | .error e => .error e
    | _ => .error .malformedLine
  | _ => .error .unknownGate

/-- one gate line (a line without tokens is skipped) -/
def importGate (wiresNum inputWiresNum numOutputWires : Nat) (st : ImportSt) (parts : Line) :
    Except ImportError ImportSt :=
  if parts.isEmpty then .ok st else
  match parseGateLine wiresNum parts with
  | .error e => .error e
  | .ok (inputWires, outputWire, gateType) =>
    applyGate wiresNum inputWiresNum numOutputWires st inputWires outputWire gateType

def importGates (wiresNum inputWiresNum numOutputWires : Nat) : List Line → ImportSt → Except ImportError ImportSt
  | [], st => .ok st
  | l :: rest, st =>
    match importGate wiresNum inputWiresNum numOutputWires st l with
    | .ok st' => importGates wiresNum inputWiresNum numOutputWires rest st'
    | .error e => .error e

/-- the three header lines: (wiresNum, inputGates, inputWiresNum, numOutputWires) -/
def parseHeader (lines : List Line) : Except ImportError (Nat × List Nat × Nat × Nat) :=
  match parseLine lines[0]? with
  | .error e => .error e
  | .ok first =>
  match first with
  | [_, wiresNum] =>
    match parseLine lines[1]? with
    | .error e => .error e
    | .ok second =>
    if second.length < 2 then .error .malformedLine else
    if (second.drop 1).length != second.getD 0 0 then .error .inputPartiesMismatch else
    match checkedSum (second.drop 1) with
    | none => .error .malformedLine
    | some inputWiresNum =>
    match parseLine lines[2]? with
    | .error e => .error e
    | .ok third =>
    if third.length < 2 then .error .malformedLine else
    if (third.drop 1).length != third.getD 0 0 then .error .outputCountMismatch else
    match checkedSum (third.drop 1) with
    | none => .error .malformedLine
    | some numOutputWires =>
    -- sanity of the declared counts: every non-input wire needs a gate line, outputs are wires
    if inputWiresNum > wiresNum || wiresNum - inputWiresNum > (lines.drop 3).length
        || numOutputWires > wiresNum || wiresNum > MAX_GATES then .error .malformedLine
    else .ok (wiresNum, second.drop 1, inputWiresNum, numOutputWires)
  | _ => .error .malformedLine

/-- `Circuit::bristol_to_garble` on the lines of the file -/
def importLines (lines : List Line) : Except ImportError Circuit :=
  match parseHeader lines with
  | .error e => .error e
  | .ok (wiresNum, inputGates, inputWiresNum, numOutputWires) =>
    let st0 : ImportSt :=
      { wiresMap := List.replicate (wiresNum - inputWiresNum) 0
        nextWire := inputWiresNum, gates := [], outputGates := List.replicate numOutputWires 0 }
    match importGates wiresNum inputWiresNum numOutputWires (lines.drop 3) st0 with
    | .error e => .error e
    | .ok st => .ok { inputGates := inputGates, gates := st.gates, outputGates := st.outputGates }

end Bristol
end GV
