import GarbleVerif.Model.Types
/-!
# L5 — the documented bit layout (specification)

`encode` / `decode` / `HasType` are written from the documentation (big-endian two's
complement integers; array elements, tuple fields and struct fields concatenated in
order; enums as a tag of `⌈log2 #variants⌉` bits followed by the payload, zero-padded to
the largest variant). They are the *specification* the transliterations of `literal.rs`
(`Model/Literal.lean`) and of `compile.rs` are compared against.
-/
namespace GV

namespace Variants
/-- index, unit flag and field types of a variant (`enum_tag_number` / `get_variant`) -/
def find? : Variants → String → Option (Nat × Bool × TyList)
  | .nil, _ => none
  | .cons n u fs r, name =>
    if n == name then some (0, u, fs)
    else match r.find? name with
      | some (i, u', fs') => some (i + 1, u', fs')
      | none => none

def get? : Variants → Nat → Option (String × Bool × TyList)
  | .nil, _ => none
  | .cons n u fs _, 0 => some (n, u, fs)
  | .cons _ _ _ r, i + 1 => r.get? i
end Variants

/-! ### well-typed values -/

mutual
def Val.hasType : Val → Ty → Bool
  | .bool _, .bool => true
  | .int i, .int k => k.inRange i
  | .array vs, .array t n => vs.length == n && vs.allHaveType t
  | .tuple vs, .tuple ts => vs.haveTypes ts
  | .struct name fvs, .struct name' fs => name == name' && fvs.haveTypes fs
  | .enum name variant isUnit vs, .enum name' variants =>
    name == name' &&
    match variants.find? variant with
    | some (_, u, fts) => u == isUnit && vs.haveTypes fts
    | none => false
  | _, _ => false
def ValList.allHaveType : ValList → Ty → Bool
  | .nil, _ => true
  | .cons v r, t => v.hasType t && r.allHaveType t
def ValList.haveTypes : ValList → TyList → Bool
  | .nil, .nil => true
  | .cons v r, .cons t ts => v.hasType t && r.haveTypes ts
  | _, _ => false
def FieldVals.haveTypes : FieldVals → Fields → Bool
  | .nil, .nil => true
  | .cons n v r, .cons n' t ts => n == n' && v.hasType t && r.haveTypes ts
  | _, _ => false
end

/-! ### encoding -/

mutual
def Val.encode : Val → Ty → List Bool
  | .bool b, _ => [b]
  | .int i, .int k => intToBits i k.bits
  | .array vs, .array t _ => vs.encodeAll t
  | .tuple vs, .tuple ts => vs.encodeEach ts
  | .struct _ fvs, .struct _ fs => fvs.encodeEach fs
  | .enum _ variant _ vs, .enum _ variants =>
    match variants.find? variant with
    | some (i, _, fts) =>
      let payload := vs.encodeEach fts
      natToBits i variants.tagSize ++ payload ++ List.replicate (variants.maxPayload - payload.length) false
    | none => []
  | _, _ => []
def ValList.encodeAll : ValList → Ty → List Bool
  | .nil, _ => []
  | .cons v r, t => v.encode t ++ r.encodeAll t
def ValList.encodeEach : ValList → TyList → List Bool
  | .cons v r, .cons t ts => v.encode t ++ r.encodeEach ts
  | _, _ => []
def FieldVals.encodeEach : FieldVals → Fields → List Bool
  | .cons _ v r, .cons _ t ts => v.encode t ++ r.encodeEach ts
  | _, _ => []
end

/-! ### decoding -/

/-- `n` consecutive elements of `size` bits each -/
def decodeN (f : List Bool → Option Val) (size : Nat) : Nat → List Bool → Option ValList
  | 0, _ => some .nil
  | n + 1, bits =>
    match f (bits.take size), decodeN f size n (bits.drop size) with
    | some v, some r => some (.cons v r)
    | _, _ => none

mutual
def Ty.decode : Ty → List Bool → Option Val
  | .bool, [b] => some (.bool b)
  | .bool, _ => none
  | .int k, bits => if bits.length == k.bits then some (.int (bitsToInt k.signed bits)) else none
  | .array t n, bits =>
    match decodeN t.decode t.size n bits with
    | some vs => some (.array vs)
    | none => none
  | .tuple ts, bits =>
    match ts.decodeEach bits with
    | some vs => some (.tuple vs)
    | none => none
  | .struct name fs, bits =>
    match fs.decodeEach bits with
    | some fvs => some (.struct name fvs)
    | none => none
  | .enum name variants, bits =>
    match variants.decodeAt (bitsToNat (bits.take variants.tagSize)) (bits.drop variants.tagSize) with
    | some (vname, u, vs) => some (.enum name vname u vs)
    | none => none
def TyList.decodeEach : TyList → List Bool → Option ValList
  | .nil, _ => some .nil
  | .cons t ts, bits =>
    match t.decode (bits.take t.size), ts.decodeEach (bits.drop t.size) with
    | some v, some r => some (.cons v r)
    | _, _ => none
def Fields.decodeEach : Fields → List Bool → Option FieldVals
  | .nil, _ => some .nil
  | .cons n t ts, bits =>
    match t.decode (bits.take t.size), ts.decodeEach (bits.drop t.size) with
    | some v, some r => some (.cons n v r)
    | _, _ => none
/-- decode the payload of the variant with index `i` -/
def Variants.decodeAt : Variants → Nat → List Bool → Option (String × Bool × ValList)
  | .nil, _, _ => none
  | .cons n u fs _, 0, bits =>
    match fs.decodeEach bits with
    | some vs => some (n, u, vs)
    | none => none
  | .cons _ _ _ r, i + 1, bits => r.decodeAt i bits
end

end GV
