/-!
# L0 — the scanner (`scan.rs`) and the error renderer (`lib.rs: prettify_meta`)

The input is the list of the program's characters (`str::chars`). The scanner is written with
well-founded recursion on the length of the remaining input: Lean accepts the definitions only
together with the proof that every iteration of the main loop and of the block-comment loop
consumes input (or stops), which is the termination half of C07 for `scan.rs`.

A token is represented by the text of its `Debug` form (`UnsignedNum(5, U8)`), which is what the
correspondence check compares; locations are `(line, column)` pairs exactly as in `MetaInfo`.
-/
namespace GV
namespace Scan

structure Pos where
  line : Nat
  col : Nat
deriving DecidableEq, Repr, Inhabited

/-- lexicographic order on `(line, column)`, the order of `MetaInfo` positions -/
def Pos.le (a b : Pos) : Prop := a.line < b.line ∨ (a.line = b.line ∧ a.col ≤ b.col)

instance (a b : Pos) : Decidable (Pos.le a b) := by unfold Pos.le; exact inferInstance

structure Meta where
  start : Pos
  stop : Pos
deriving DecidableEq, Repr, Inhabited

inductive ErrKind where
  | unexpectedCharacter | invalidUnsignedNum | invalidSignedNum
deriving DecidableEq, Repr

def ErrKind.name : ErrKind → String
  | .unexpectedCharacter => "UnexpectedCharacter"
  | .invalidUnsignedNum => "InvalidUnsignedNum"
  | .invalidSignedNum => "InvalidSignedNum"

/-- the mutable fields of `Scanner` (tokens and errors newest first) -/
structure St where
  tokens : List (String × Meta)
  errors : List (ErrKind × Meta)
  line : Nat
  col : Nat
  start : Pos

def St.init : St := { tokens := [], errors := [], line := 0, col := 0, start := ⟨0, 0⟩ }

/-- the column increments of `n` calls of `advance()` -/
def advN (s : St) (n : Nat) : St := { s with col := s.col + n }

/-- `push_token` -/
def pushToken (s : St) (t : String) : St :=
  let col := if s.start = ⟨s.line, s.col⟩ then s.col + 1 else s.col
  let e : Pos := ⟨s.line, col⟩
  { s with col := col, start := e, tokens := (t, ⟨s.start, e⟩) :: s.tokens }

/-- `push_error` -/
def pushError (s : St) (k : ErrKind) : St :=
  let p : Pos := ⟨s.line, s.col⟩
  { s with errors := (k, ⟨p, p⟩) :: s.errors }

def isDigit (c : Char) : Bool := c.isDigit
def isAlnum (c : Char) : Bool := c.isLower || c.isUpper || c == '_' || c.isDigit

/-- the longest prefix whose characters satisfy `p`, and the rest -/
def spanP (p : Char → Bool) : List Char → List Char × List Char
  | [] => ([], [])
  | c :: cs => if p c then ((c :: (spanP p cs).1), (spanP p cs).2) else ([], c :: cs)

/-- operator characters: the continuations the scanner tries, in order, and the token each gives -/
def opList : List (Char × List (List Char × String)) :=
  [('(', [([], "LeftParen")]), (')', [([], "RightParen")]),
   ('{', [([], "LeftBrace")]), ('}', [([], "RightBrace")]),
   ('[', [([], "LeftBracket")]), (']', [([], "RightBracket")]),
   (',', [([], "Comma")]), (';', [([], "Semicolon")]),
   ('.', [(['.', '='], "DoubleDotEquals"), (['.'], "DoubleDot"), ([], "Dot")]),
   ('^', [(['='], "BitXorAssign"), ([], "Caret")]),
   ('&', [(['&'], "DoubleAmpersand"), (['='], "BitAndAssign"), ([], "Ampersand")]),
   ('|', [(['|'], "DoubleBar"), (['='], "BitOrAssign"), ([], "Bar")]),
   ('!', [(['='], "BangEq"), ([], "Bang")]),
   ('=', [(['='], "DoubleEq"), (['>'], "FatArrow"), ([], "Eq")]),
   (':', [([':'], "DoubleColon"), ([], "Colon")]),
   ('>', [(['>', '='], "ShrAssign"), (['>'], "DoubleGreaterThan"), (['='], "GreaterThanEquals"), ([], "GreaterThan")]),
   ('<', [(['<', '='], "ShlAssign"), (['<'], "DoubleLessThan"), (['='], "LessThanEquals"), ([], "LessThan")]),
   ('%', [(['='], "RemAssign"), ([], "Percent")]),
   ('*', [(['='], "MulAssign"), ([], "Star")]),
   ('+', [(['='], "AddAssign"), ([], "Plus")])]

def opTable (c : Char) : Option (List (List Char × String)) :=
  (opList.find? (fun e => e.1 == c)).map (·.2)

/-- the nested `next_matches` tests of one operator character -/
def matchOp : List (List Char × String) → List Char → St → List Char × St
  | [], rest, s => (rest, s)
  | (suf, name) :: more, rest, s =>
    if suf.isPrefixOf rest then (rest.drop suf.length, pushToken (advN s suf.length) name)
    else matchOp more rest s

/-! ### block comments -/

/-- third and fourth test of the block-comment loop: a newline, or any character except `*` and `/`
(at the end of the input `advance()` still increments the column) -/
def blockIter3 : List Char → Nat → Nat → Nat → List Char × Nat × Nat × Nat
  | [], level, line, col => ([], level, line, col + 1)
  | c :: r, level, line, col =>
    if c = '\n' then (r, level, line + 1, 0)
    else if c = '*' ∨ c = '/' then (c :: r, level, line, col)
    else (r, level, line, col + 1)

/-- second test: `*` then `/` closes a level; a lone `*` is consumed and the later tests run -/
def blockIter2 : List Char → Nat → Nat → Nat → List Char × Nat × Nat × Nat
  | [], level, line, col => blockIter3 [] level line col
  | c :: r, level, line, col =>
    if c = '*' then
      match r with
      | [] => blockIter3 [] level line (col + 1)
      | d :: r2 => if d = '/' then (r2, level - 1, line, col + 2) else blockIter3 (d :: r2) level line (col + 1)
    else blockIter3 (c :: r) level line col

/-- one iteration of the block-comment loop: the four tests run in sequence on the input as the
earlier ones left it (a lone `/` or `*` is consumed by its test even when the test then fails) -/
def blockIter : List Char → Nat → Nat → Nat → List Char × Nat × Nat × Nat
  | [], level, line, col => blockIter2 [] level line col
  | c :: r, level, line, col =>
    if c = '/' then
      match r with
      | [] => blockIter2 [] level line (col + 1)
      | d :: r2 => if d = '*' then (r2, level + 1, line, col + 2) else blockIter2 (d :: r2) level line (col + 1)
    else blockIter2 (c :: r) level line col

theorem blockIter3_length (cs : List Char) (level line col : Nat) :
    (blockIter3 cs level line col).1.length ≤ cs.length ∧
    (∀ c r, cs = c :: r → c ≠ '*' → c ≠ '/' → (blockIter3 cs level line col).1.length < cs.length) := by
  cases cs with
  | nil => simp [blockIter3]
  | cons c r =>
    simp only [blockIter3]
    split
    · simp
    · split
      · rename_i h
        refine ⟨by simp, ?_⟩
        intro c' r' heq h1 h2
        simp at heq
        obtain ⟨rfl, rfl⟩ := heq
        rcases h with h | h
        · exact absurd h h1
        · exact absurd h h2
      · simp

theorem blockIter2_length (cs : List Char) (level line col : Nat) :
    (blockIter2 cs level line col).1.length ≤ cs.length ∧
    (∀ c r, cs = c :: r → c ≠ '/' → (blockIter2 cs level line col).1.length < cs.length) := by
  cases cs with
  | nil => simp [blockIter2, blockIter3]
  | cons c r =>
    simp only [blockIter2]
    split
    · -- a `*` was consumed
      cases r with
      | nil => simp [blockIter3]
      | cons d r2 =>
        dsimp only
        split
        · simp; omega
        · have := (blockIter3_length (d :: r2) level line (col + 1)).1
          simp only [List.length_cons] at this ⊢
          refine ⟨by omega, ?_⟩
          intros; omega
    · rename_i hc
      have h3 := blockIter3_length (c :: r) level line col
      refine ⟨h3.1, ?_⟩
      intro c' r' heq hne
      simp at heq
      obtain ⟨rfl, rfl⟩ := heq
      exact h3.2 c r rfl hc hne

theorem blockIter_length (cs : List Char) (level line col : Nat) :
    (blockIter cs level line col).1.length ≤ cs.length ∧
    (cs ≠ [] → (blockIter cs level line col).1.length < cs.length) := by
  cases cs with
  | nil => simp [blockIter, blockIter2, blockIter3]
  | cons c r =>
    simp only [blockIter]
    split
    · cases r with
      | nil => simp [blockIter2, blockIter3]
      | cons d r2 =>
        dsimp only
        split
        · simp; omega
        · have := (blockIter2_length (d :: r2) level line (col + 1)).1
          simp only [List.length_cons] at this ⊢
          refine ⟨by omega, ?_⟩
          intros; omega
    · rename_i hc
      have h2 := blockIter2_length (c :: r) level line col
      exact ⟨h2.1, fun _ => h2.2 c r rfl hc⟩

/-- the block-comment loop (with the end-of-input exit): remaining input, line, column -/
def blockLoop (cs : List Char) (level line col : Nat) : List Char × Nat × Nat :=
  let r := blockIter cs level line col
  if r.2.1 = 0 ∨ r.1 = [] then (r.1, r.2.2.1, r.2.2.2)
  else blockLoop r.1 r.2.1 r.2.2.1 r.2.2.2
termination_by cs.length
decreasing_by
  rename_i h
  have hl := blockIter_length cs level line col
  have hne : cs ≠ [] := by
    intro hc
    subst hc
    have := hl.1
    simp at this
    exact h (Or.inr this)
  exact hl.2 hne

/-! ### numbers -/

def digitsVal (ds : List Char) : Nat := ds.foldl (fun a d => 10 * a + (d.toNat - 48)) 0

def unsignedToken (n : Nat) (suffix : String) : Option String :=
  if suffix = "i8" ∧ n ≤ 127 then some s!"SignedNum({n}, I8)"
  else if suffix = "i16" ∧ n ≤ 32767 then some s!"SignedNum({n}, I16)"
  else if suffix = "i32" ∧ n ≤ 2147483647 then some s!"SignedNum({n}, I32)"
  else if suffix = "i64" ∧ n ≤ 9223372036854775807 then some s!"SignedNum({n}, I64)"
  else if suffix = "usize" ∧ n ≤ 4294967295 then some s!"UnsignedNum({n}, Usize)"
  else if suffix = "u8" ∧ n ≤ 255 then some s!"UnsignedNum({n}, U8)"
  else if suffix = "u16" ∧ n ≤ 65535 then some s!"UnsignedNum({n}, U16)"
  else if suffix = "u32" ∧ n ≤ 4294967295 then some s!"UnsignedNum({n}, U32)"
  else if suffix = "u64" then some s!"UnsignedNum({n}, U64)"
  else if suffix = "" then some s!"UnsignedNum({n}, Unspecified)"
  else none

def signedToken (n : Int) (suffix : String) : Option String :=
  if suffix = "i8" ∧ -128 ≤ n ∧ n ≤ 127 then some s!"SignedNum({n}, I8)"
  else if suffix = "i16" ∧ -32768 ≤ n ∧ n ≤ 32767 then some s!"SignedNum({n}, I16)"
  else if suffix = "i32" ∧ -2147483648 ≤ n ∧ n ≤ 2147483647 then some s!"SignedNum({n}, I32)"
  else if suffix = "i64" then some s!"SignedNum({n}, I64)"
  else if suffix = "" then some s!"SignedNum({n}, Unspecified)"
  else none

/-- a number that starts with the digit `c` -/
def scanUnsigned (c : Char) (rest : List Char) (s : St) : List Char × St :=
  let ds := spanP isDigit rest
  let s1 := advN s ds.1.length
  let n := digitsVal (c :: ds.1)
  if n < 2 ^ 64 then
    let suf := spanP isAlnum ds.2
    let s2 := advN s1 suf.1.length
    match unsignedToken n (String.ofList suf.1) with
    | some t => (suf.2, pushToken s2 t)
    | none => (suf.2, pushToken (pushError s2 .invalidUnsignedNum) s!"UnsignedNum({n}, U64)")
  else (ds.2, pushError s1 .invalidUnsignedNum)

/-- `-` followed by at least one digit -/
def scanSigned (rest : List Char) (s : St) : List Char × St :=
  let ds := spanP isDigit rest
  let s1 := advN s ds.1.length
  let n := digitsVal ds.1
  if n ≤ 2 ^ 63 then
    let suf := spanP isAlnum ds.2
    let s2 := advN s1 suf.1.length
    match signedToken (-(n : Int)) (String.ofList suf.1) with
    | some t => (suf.2, pushToken s2 t)
    | none => (suf.2, pushToken (pushError s2 .invalidUnsignedNum) s!"SignedNum({-(n : Int)}, I64)")
  else (ds.2, pushError s1 .invalidSignedNum)

def keyword (w : String) : String :=
  if w = "const" then "KeywordConst" else if w = "struct" then "KeywordStruct"
  else if w = "enum" then "KeywordEnum" else if w = "fn" then "KeywordFn"
  else if w = "let" then "KeywordLet" else if w = "if" then "KeywordIf"
  else if w = "else" then "KeywordElse" else if w = "mut" then "KeywordMut"
  else if w = "match" then "KeywordMatch" else if w = "as" then "KeywordAs"
  else if w = "pub" then "KeywordPub" else if w = "for" then "KeywordFor"
  else if w = "in" then "KeywordIn" else "Identifier(\"" ++ w ++ "\")"

/-! ### the main loop -/

/-- the body of the main loop for the character `c` (before the final `column += 1`) -/
def scanOne (c : Char) (rest : List Char) (s : St) : List Char × St :=
  if c = ' ' ∨ c = '\r' ∨ c = '\t' then (rest, { s with start := ⟨s.line, s.col⟩ })
  else if c = '\n' then (rest, { s with line := s.line + 1, col := 0 })
  else match opTable c with
  | some opts => matchOp opts rest s
  | none =>
    if c = '/' then
      match rest with
      | '=' :: r => (r, pushToken (advN s 1) "DivAssign")
      | '/' :: r =>
        let sp := spanP (fun c => c != '\n') r
        (sp.2, advN s (1 + sp.1.length))
      | '*' :: r =>
        let b := blockLoop r 1 s.line (s.col + 1)
        (b.1, { s with line := b.2.1, col := b.2.2 })
      | _ => (rest, pushToken s "Slash")
    else if c = '-' then
      match rest with
      | '=' :: r => (r, pushToken (advN s 1) "SubAssign")
      | '>' :: r => (r, pushToken (advN s 1) "Arrow")
      | d :: _ => if isDigit d then scanSigned rest s else (rest, pushToken s "Minus")
      | [] => (rest, pushToken s "Minus")
    else if isDigit c then scanUnsigned c rest s
    else if isAlnum c then
      let sp := spanP isAlnum rest
      (sp.2, pushToken (advN s sp.1.length) (keyword (String.ofList (c :: sp.1))))
    else (rest, pushError s .unexpectedCharacter)

theorem spanP_length (p : Char → Bool) (cs : List Char) : (spanP p cs).2.length ≤ cs.length := by
  induction cs with
  | nil => simp [spanP]
  | cons c cs ih =>
    simp only [spanP]
    split
    · simp only [List.length_cons]; omega
    · simp

theorem matchOp_length (opts : List (List Char × String)) (rest : List Char) (s : St) :
    (matchOp opts rest s).1.length ≤ rest.length := by
  induction opts with
  | nil => simp [matchOp]
  | cons o more ih =>
    obtain ⟨suf, name⟩ := o
    simp only [matchOp]
    split
    · simp
    · exact ih

theorem blockLoop_length (cs : List Char) (level line col : Nat) :
    (blockLoop cs level line col).1.length ≤ cs.length := by
  fun_induction blockLoop cs level line col with
  | case1 cs level line col r h =>
    exact (blockIter_length cs level line col).1
  | case2 cs level line col r h ih =>
    exact Nat.le_trans ih (blockIter_length cs level line col).1

theorem scanUnsigned_length (c : Char) (rest : List Char) (s : St) :
    (scanUnsigned c rest s).1.length ≤ rest.length := by
  unfold scanUnsigned
  have h1 := spanP_length isDigit rest
  have h2 := spanP_length isAlnum (spanP isDigit rest).2
  dsimp only
  split
  · split <;> (dsimp only; omega)
  · dsimp only; omega

theorem scanSigned_length (rest : List Char) (s : St) :
    (scanSigned rest s).1.length ≤ rest.length := by
  unfold scanSigned
  have h1 := spanP_length isDigit rest
  have h2 := spanP_length isAlnum (spanP isDigit rest).2
  dsimp only
  split
  · split <;> (dsimp only; omega)
  · dsimp only; omega

/-- the body of the main loop never gives input back -/
theorem scanOne_length (c : Char) (rest : List Char) (s : St) :
    (scanOne c rest s).1.length ≤ rest.length := by
  unfold scanOne
  split
  · simp
  · split
    · simp
    · split
      · exact matchOp_length _ _ _
      · split
        · split
          · simp
          · rename_i r
            have := spanP_length (fun c => c != '\n') r
            simp only [List.length_cons]; omega
          · rename_i r
            have := blockLoop_length r 1 s.line (s.col + 1)
            simp only [List.length_cons]; omega
          · simp
        · split
          · split
            · simp
            · simp
            · split
              · exact scanSigned_length _ _
              · simp
            · simp
          · split
            · exact scanUnsigned_length _ _ _
            · split
              · exact spanP_length _ _
              · simp

/-- `Scanner::scan`'s main loop -/
def scanLoop (cs : List Char) (s : St) : St :=
  match cs with
  | [] => s
  | c :: rest =>
    let r := scanOne c rest s
    scanLoop r.1 { r.2 with col := r.2.col + 1 }
termination_by cs.length
decreasing_by
  have := scanOne_length c rest s
  simp only [List.length_cons]; omega

inductive Result where
  | ok (tokens : List (String × Meta))
  | error (errors : List (ErrKind × Meta))

/-- `scan(prg)` -/
def scan (cs : List Char) : Result :=
  let s := scanLoop cs St.init
  if s.errors.isEmpty then .ok s.tokens.reverse else .error s.errors.reverse

/-! ### `prettify_meta` -/

/-- pieces of the text between `\n`s (never empty) -/
def splitNL : List Char → List (List Char)
  | [] => [[]]
  | c :: cs =>
    if c = '\n' then [] :: splitNL cs
    else match splitNL cs with
      | p :: ps => (c :: p) :: ps
      | [] => [[c]]

def stripCR (l : List Char) : List Char :=
  match l.getLast? with
  | some '\r' => l.dropLast
  | _ => l

/-- `str::lines()`: a final empty piece is not a line; a `\r` directly before the `\n` is not part of
the line (the last piece, which no `\n` follows, keeps a trailing `\r`) -/
def rustLines (cs : List Char) : List (List Char) :=
  let ps := splitNL cs
  ps.dropLast.map stripCR ++ (match ps.getLast? with
    | some [] => []
    | some p => [p]
    | none => [])

def utf8Len (l : List Char) : Nat := (l.map (fun c => c.utf8Size)).sum

def padLeft4 (s : String) : String := String.ofList (List.replicate (4 - s.length) ' ') ++ s

/-- the body of the `for l in ..` loop for line `l`; `none` = `lines[l]` out of range (a panic) -/
def renderLine (lines : List (List Char)) (m : Meta) (l : Int) : Option String :=
  let lineStart : Int := m.start.line
  let lineEnd : Int := m.stop.line
  let hl : Bool := l ≥ lineStart ∧ (l < lineEnd ∨ (l = lineEnd ∧ m.stop.col > 0))
  let shown : String :=
    if l ≥ 0 ∧ l.toNat < lines.length then
      let text := String.ofList (lines.getD l.toNat [])
      if hl then padLeft4 (toString (l + 1)) ++ " > | " ++ text ++ "\n"
      else "       | " ++ text ++ "\n"
    else ""
  if hl then
    let colStart := if l = lineStart then m.start.col else 0
    let colEnd : Option Nat :=
      if l = lineEnd then some m.stop.col
      else if l ≥ 0 ∧ l.toNat < lines.length then some (utf8Len (lines.getD l.toNat []))
      else none
    match colEnd with
    | none => none
    | some colEnd =>
      some (shown ++ "     > | " ++ String.ofList (List.replicate colStart ' ')
        ++ String.ofList (List.replicate (colEnd - colStart) '^') ++ "\n")
  else some shown

def renderLines (lines : List (List Char)) (m : Meta) : List Int → Option String
  | [] => some ""
  | l :: ls =>
    match renderLine lines m l, renderLines lines m ls with
    | some a, some b => some (a ++ b)
    | _, _ => none

/-- the integers `lo, lo+1, …` (`n` of them) -/
def intRange (lo : Int) : Nat → List Int
  | 0 => []
  | n + 1 => lo :: intRange (lo + 1) n

/-- `prettify_meta(prg, meta)` -/
def prettifyMeta (prg : List Char) (m : Meta) : Option String :=
  if prg.isEmpty then some "" else
  let lo : Int := (m.start.line : Int) - 2
  let hi : Int := (m.stop.line : Int) + 2
  renderLines (rustLines prg) m (intRange lo (hi - lo).toNat)

end Scan
end GV
