import GarbleVerif.Model.SrcSem
/-!
# L6 — what a `match` means, independent of `check.rs`

`firstMatch` is the specification of arm selection. `uncovered` is a reference decision procedure
for exhaustiveness: patterns can only compare integers with the constants they mention, so a
value of every "shape" with every integer leaf taken from the representatives `{min, max} ∪
{c-1, c, c+1 | c a constant of some pattern}` is tried; it returns a value no pattern matches.
-/
namespace GV
namespace Src

/-- index of the first pattern that matches -/
def firstMatch (v : Val) : List Pat → Option Nat
  | [] => none
  | p :: rest =>
    match matchPat p v with
    | some _ => some 0
    | none => (firstMatch v rest).map (· + 1)

mutual
/-- the integer constants a pattern mentions -/
def patConsts : Pat → List Int
  | .int n => [n]
  | .range lo hi => [lo, hi]
  | .tuple ps => patListConsts ps
  | .struct _ fs => fieldPatsConsts fs
  | .enumTuple _ _ ps => patListConsts ps
  | _ => []
def patListConsts : PatList → List Int
  | .nil => []
  | .cons p r => patConsts p ++ patListConsts r
def fieldPatsConsts : FieldPats → List Int
  | .nil => []
  | .cons _ p r => patConsts p ++ fieldPatsConsts r
end

/-- representatives of the integer type `k` for the constants `cs` -/
def intReps (k : IntTy) (cs : List Int) : List Int :=
  let cands := k.lo :: k.hi :: cs.flatMap (fun c => [c - 1, c, c + 1])
  (cands.filter (fun n => k.inRange n)).eraseDups

/-- all ways to pick one element from each list -/
def product : List (List Val) → List (List Val)
  | [] => [[]]
  | xs :: rest => xs.flatMap fun x => (product rest).map (x :: ·)

def fieldNames : Fields → List String
  | .nil => []
  | .cons n _ r => n :: fieldNames r

mutual
/-- representative values of a type -/
def tyReps (cs : List Int) : Ty → List Val
  | .bool => [.bool false, .bool true]
  | .int k => (intReps k cs).map .int
  /- arrays can only be matched by identifier patterns: one representative is enough -/
  | .array t n => [.array (ValList.replicate n (((tyReps cs t).head?).getD (.bool false)))]
  | .tuple ts => (product (tyListReps cs ts)).map fun vs => .tuple (ValList.ofList vs)
  | .struct name fs =>
    (product (fieldsReps cs fs)).map fun vs => .struct name (FieldVals.ofList ((fieldNames fs).zip vs))
  | .enum name variants => variantsReps cs name variants
def tyListReps (cs : List Int) : TyList → List (List Val)
  | .nil => []
  | .cons t r => tyReps cs t :: tyListReps cs r
def fieldsReps (cs : List Int) : Fields → List (List Val)
  | .nil => []
  | .cons _ t r => tyReps cs t :: fieldsReps cs r
def variantsReps (cs : List Int) (ename : String) : Variants → List Val
  | .nil => []
  | .cons v isUnit fts r =>
    ((product (tyListReps cs fts)).map fun vs => Val.enum ename v isUnit (ValList.ofList vs))
    ++ variantsReps cs ename r
end

/-- a representative value of the type that none of the patterns matches -/
def uncovered (ty : Ty) (pats : List Pat) : Option Val :=
  let cs := pats.flatMap patConsts
  (tyReps cs ty).find? fun v => (firstMatch v pats).isNone

end Src
end GV
