/-!
# L5 — types and values

Types are *self-contained*: struct and enum types carry their definition (field and variant
types, in the order of the program's definition), array sizes are resolved numbers. The JSON
codec expands names and constants when it decodes a program, so no definition environment is
needed and every function over types is structurally recursive. (Garble has no recursive types;
see DESIGN.md §11 for what the implementation does with them.)

The lists inside types and values are hand-rolled mutual inductives (`TyList`, `Fields`,
`Variants`, `ValList`, `FieldVals`) so that Lean derives structural recursion and
`….mutual_induct` directly.
-/
namespace GV

/-- primitive integer types (`UnsignedNumType` / `SignedNumType`); the two `Unspec` entries are
the "unspecified literal" types, which occupy 32 wires -/
inductive IntTy where
  | u8 | u16 | u32 | u64 | usize | i8 | i16 | i32 | i64 | uUnspec | iUnspec
deriving DecidableEq, Repr, Inhabited

namespace IntTy
def bits : IntTy → Nat
  | u8 | i8 => 8
  | u16 | i16 => 16
  | u32 | i32 | usize | uUnspec | iUnspec => 32
  | u64 | i64 => 64

def signed : IntTy → Bool
  | i8 | i16 | i32 | i64 | iUnspec => true
  | _ => false

/-- smallest value -/
def lo (t : IntTy) : Int := if t.signed then -((2 : Int) ^ (t.bits - 1)) else 0
/-- largest value -/
def hi (t : IntTy) : Int := if t.signed then (2 : Int) ^ (t.bits - 1) - 1 else (2 : Int) ^ t.bits - 1

def inRange (t : IntTy) (i : Int) : Bool := decide (t.lo ≤ i) && decide (i ≤ t.hi)
end IntTy

mutual
inductive Ty where
  | bool
  | int (k : IntTy)
  | array (elem : Ty) (n : Nat)
  | tuple (ts : TyList)
  | struct (name : String) (fields : Fields)
  | enum (name : String) (variants : Variants)
inductive TyList where
  | nil
  | cons (t : Ty) (rest : TyList)
inductive Fields where
  | nil
  | cons (name : String) (t : Ty) (rest : Fields)
inductive Variants where
  | nil
  /-- `isUnit`: `Variant::Unit(name)` (no field list at all) vs. `Variant::Tuple(name, fields)` -/
  | cons (name : String) (isUnit : Bool) (fields : TyList) (rest : Variants)
end

deriving instance DecidableEq for Ty, TyList, Fields, Variants
deriving instance Repr for Ty, TyList, Fields, Variants

mutual
inductive Val where
  | bool (b : Bool)
  | int (i : Int)
  | array (vs : ValList)
  | tuple (vs : ValList)
  | struct (name : String) (fields : FieldVals)
  | enum (name : String) (variant : String) (isUnit : Bool) (fields : ValList)
inductive ValList where
  | nil
  | cons (v : Val) (rest : ValList)
inductive FieldVals where
  | nil
  | cons (name : String) (v : Val) (rest : FieldVals)
end

instance : Inhabited Ty := ⟨.bool⟩
instance : Inhabited TyList := ⟨.nil⟩
instance : Inhabited Fields := ⟨.nil⟩
instance : Inhabited Variants := ⟨.nil⟩
instance : Inhabited Val := ⟨.bool false⟩
instance : Inhabited ValList := ⟨.nil⟩
instance : Inhabited FieldVals := ⟨.nil⟩

namespace TyList
def toList : TyList → List Ty
  | nil => []
  | cons t r => t :: r.toList
def ofList : List Ty → TyList
  | [] => nil
  | t :: r => cons t (ofList r)
def length : TyList → Nat
  | nil => 0
  | cons _ r => r.length + 1
end TyList

namespace ValList
def toList : ValList → List Val
  | nil => []
  | cons v r => v :: r.toList
def ofList : List Val → ValList
  | [] => nil
  | v :: r => cons v (ofList r)
def length : ValList → Nat
  | nil => 0
  | cons _ r => r.length + 1
def replicate : Nat → Val → ValList
  | 0, _ => nil
  | n + 1, v => cons v (replicate n v)
end ValList

namespace Fields
def ofList : List (String × Ty) → Fields
  | [] => nil
  | (n, t) :: r => cons n t (ofList r)
def length : Fields → Nat
  | nil => 0
  | cons _ _ r => r.length + 1
end Fields

namespace FieldVals
def ofList : List (String × Val) → FieldVals
  | [] => nil
  | (n, v) :: r => cons n v (ofList r)
end FieldVals

namespace Variants
def length : Variants → Nat
  | nil => 0
  | cons _ _ _ r => r.length + 1

/-- `enum_tag_size`: least `b` with `2^b ≥ #variants` -/
def tagSize (vs : Variants) : Nat :=
  let n := vs.length
  let rec go (fuel b : Nat) : Nat :=
    match fuel with
    | 0 => b
    | fuel + 1 => if 2 ^ b < n then go fuel (b + 1) else b
  go n 0
end Variants

/-! ### sizes (`Type::size_in_bits_for_defs`, `struct_size`, `enum_max_size`) -/

mutual
def Ty.size : Ty → Nat
  | .bool => 1
  | .int k => k.bits
  | .array t n => t.size * n
  | .tuple ts => ts.size
  | .struct _ fs => fs.size
  | .enum _ vs => vs.maxPayload + vs.tagSize
def TyList.size : TyList → Nat
  | .nil => 0
  | .cons t r => t.size + r.size
def Fields.size : Fields → Nat
  | .nil => 0
  | .cons _ t r => t.size + r.size
/-- size of the largest variant payload -/
def Variants.maxPayload : Variants → Nat
  | .nil => 0
  | .cons _ _ fs r => max fs.size r.maxPayload
end

/-! ### bit encodings of numbers (`unsigned_to_bits` / `signed_to_bits`, big-endian) -/

/-- the low `size` bits of `n`, most significant first -/
def natToBits (n : Nat) : Nat → List Bool
  | 0 => []
  | size + 1 => (n / 2 ^ size % 2 == 1) :: natToBits n size

/-- two's complement encoding of an integer in `size` bits -/
def intToBits (i : Int) (size : Nat) : List Bool := natToBits (i % (2 : Int) ^ size).toNat size

def bitsToNat (bs : List Bool) : Nat := bs.foldl (fun acc b => 2 * acc + b.toNat) 0

def bitsToInt (signed : Bool) (bs : List Bool) : Int :=
  if signed && bs.headD false then (bitsToNat bs : Int) - (2 : Int) ^ bs.length else bitsToNat bs

end GV
