import GarbleVerif.Model.Ast
/-!
# L6 — source-level semantics (the specification side of C01, C08, C13, C14)

A big-step interpreter over `Val`: Rust-like, by-value, checked fixed-width integer arithmetic.
It knows nothing about wires, circuits or the compiler. `fuel` bounds the nesting depth of the
evaluation (Garble has no recursion and only bounded loops, so every program has a sufficient
fuel; running out is reported as `Err.fuel`, never as a value).
-/
namespace GV
namespace Src

inductive PanicKind where
  | overflow | divByZero | outOfBounds
deriving DecidableEq, Repr, Inhabited

inductive Err where
  | panic (k : PanicKind)
  /-- the program is not well-typed / not well-formed for this semantics -/
  | stuck (why : String)
  | fuel
deriving Repr, Inhabited

abbrev M := Except Err

abbrev Env := List (String × Val)

def Env.get? : Env → String → Option Val
  | [], _ => none
  | (n, v) :: r, x => if n == x then some v else Env.get? r x

/-- replaces the innermost binding of `x` -/
def Env.set : Env → String → Val → Env
  | [], _, _ => []
  | (n, v) :: r, x, w => if n == x then (n, w) :: r else (n, v) :: Env.set r x w

/-! ### integers -/

/-- the value of the low `bits` bits of `n`, read in the type `k` -/
def wrapTo (k : IntTy) (n : Int) : Int :=
  let m := n % (2 : Int) ^ k.bits
  if k.signed && decide (m ≥ (2 : Int) ^ (k.bits - 1)) then m - (2 : Int) ^ k.bits else m

/-- the two's complement bit pattern of `n` as a natural number -/
def toUnsigned (k : IntTy) (n : Int) : Nat := (n % (2 : Int) ^ k.bits).toNat

def checked (k : IntTy) (n : Int) : M Val :=
  if k.inRange n then .ok (.int n) else .error (.panic .overflow)

def bitwise (f : Nat → Nat → Nat) (k : IntTy) (a b : Int) : Int :=
  wrapTo k (f (toUnsigned k a) (toUnsigned k b))

/-! ### structural equality -/

mutual
def Val.beq : Val → Val → Bool
  | .bool a, .bool b => a == b
  | .int a, .int b => a == b
  | .array a, .array b => ValList.beq a b
  | .tuple a, .tuple b => ValList.beq a b
  | .struct _ a, .struct _ b => FieldVals.beq a b
  | .enum _ v1 _ a, .enum _ v2 _ b => v1 == v2 && ValList.beq a b
  | _, _ => false
def ValList.beq : ValList → ValList → Bool
  | .nil, .nil => true
  | .cons a r, .cons b s => Val.beq a b && ValList.beq r s
  | _, _ => false
def FieldVals.beq : FieldVals → FieldVals → Bool
  | .nil, .nil => true
  | .cons n a r, .cons m b s => n == m && Val.beq a b && FieldVals.beq r s
  | _, _ => false
end

namespace ValList'
def get? : ValList → Nat → Option Val
  | .nil, _ => none
  | .cons v _, 0 => some v
  | .cons _ r, i + 1 => get? r i
def set : ValList → Nat → Val → ValList
  | .nil, _, _ => .nil
  | .cons _ r, 0, w => .cons w r
  | .cons v r, i + 1, w => .cons v (set r i w)
end ValList'

namespace FieldVals'
def get? : FieldVals → String → Option Val
  | .nil, _ => none
  | .cons n v r, x => if n == x then some v else get? r x
def set : FieldVals → String → Val → FieldVals
  | .nil, _, _ => .nil
  | .cons n v r, x, w => if n == x then .cons n w r else .cons n v (set r x w)
end FieldVals'

/-! ### operators -/

def unop (op : UnOp) (ty : Ty) (v : Val) : M Val :=
  match op, ty, v with
  | .not, .bool, .bool b => .ok (.bool (!b))
  | .not, .int k, .int n => .ok (.int (wrapTo k (-n - 1)))
  | .neg, .int k, .int n => checked k (-n)
  | _, _, _ => .error (.stuck "unop")

def intOp (op : BinOp) (k : IntTy) (a b : Int) : M Val :=
  match op with
  | .add => checked k (a + b)
  | .sub => checked k (a - b)
  | .mul => checked k (a * b)
  | .div => if b = 0 then .error (.panic .divByZero) else checked k (Int.tdiv a b)
  | .rem =>
    /- `MIN % -1`: the exact value 0 is representable; Garble returns it (Rust rejects the operation),
       C03 allows either -/
    if b = 0 then .error (.panic .divByZero) else .ok (.int (Int.tmod a b))
  | .band => .ok (.int (bitwise Nat.land k a b))
  | .bor => .ok (.int (bitwise Nat.lor k a b))
  | .bxor => .ok (.int (bitwise Nat.xor k a b))
  | .lt => .ok (.bool (decide (a < b)))
  | .le => .ok (.bool (decide (a ≤ b)))
  | .gt => .ok (.bool (decide (a > b)))
  | .ge => .ok (.bool (decide (a ≥ b)))
  | _ => .error (.stuck "intOp")

/-- a strict binary operator on evaluated operands; `ty` is the type of the left operand -/
def binop (op : BinOp) (ty : Ty) (x y : Val) : M Val :=
  match op with
  | .eq => .ok (.bool (Val.beq x y))
  | .ne => .ok (.bool (!Val.beq x y))
  | .shl =>
    match ty, x, y with
    | .int k, .int a, .int s =>
      if s < 0 ∨ s ≥ k.bits then .error (.panic .overflow) else .ok (.int (wrapTo k (a * (2 : Int) ^ s.toNat)))
    | _, _, _ => .error (.stuck "shl")
  | .shr =>
    match ty, x, y with
    | .int k, .int a, .int s =>
      if s < 0 ∨ s ≥ k.bits then .error (.panic .overflow) else .ok (.int (a / (2 : Int) ^ s.toNat))
    | _, _, _ => .error (.stuck "shr")
  | _ =>
    match ty, x, y with
    | .int k, .int a, .int b => intOp op k a b
    | .bool, .bool a, .bool b =>
      match op with
      | .band => .ok (.bool (a && b))
      | .bor => .ok (.bool (a || b))
      | .bxor => .ok (.bool (a != b))
      | _ => .error (.stuck "boolOp")
    | _, _, _ => .error (.stuck "binop")

/-- `e as dst` -/
def cast (src dst : Ty) (v : Val) : M Val :=
  match src, dst, v with
  | .bool, .bool, .bool b => .ok (.bool b)
  | .bool, .int _, .bool b => .ok (.int (if b then 1 else 0))
  | .int _, .int k, .int n => .ok (.int (wrapTo k n))
  /- Garble: the lowest bit (Rust has no such cast) -/
  | .int _, .bool, .int n => .ok (.bool (n % 2 == 1))
  | _, _, _ => .error (.stuck "cast")

/-! ### patterns -/

mutual
/-- the bindings a pattern makes when it matches the value (later ones first) -/
def matchPat : Pat → Val → Option Env
  | .ident x, v => some [(x, v)]
  | .bool b, .bool b' => if b == b' then some [] else none
  | .int n, .int m => if n == m then some [] else none
  | .range lo hi, .int m => if lo ≤ m ∧ m ≤ hi then some [] else none
  | .tuple ps, .tuple vs => matchPats ps vs
  | .struct _ fps, .struct _ fvs => matchFields fps fvs
  | .enumUnit _ v, .enum _ v' _ _ => if v == v' then some [] else none
  | .enumTuple _ v ps, .enum _ v' _ vs => if v == v' then matchPats ps vs else none
  | _, _ => none
def matchPats : PatList → ValList → Option Env
  | .nil, .nil => some []
  | .cons p ps, .cons v vs =>
    match matchPat p v, matchPats ps vs with
    | some b1, some b2 => some (b2 ++ b1)
    | _, _ => none
  | _, _ => none
def matchFields : FieldPats → FieldVals → Option Env
  | .nil, _ => some []
  | .cons n p r, fvs =>
    match FieldVals'.get? fvs n with
    | some v =>
      match matchPat p v, matchFields r fvs with
      | some b1, some b2 => some (b2 ++ b1)
      | _, _ => none
    | none => none
end

/-! ### assignment targets -/

inductive Step where
  | index (i : Nat)
  | tup (i : Nat)
  | fld (name : String)

/-- `old` with the component at `path` replaced by `new` -/
def updateAt : Val → List Step → Val → M Val
  | _, [], new => .ok new
  | .array vs, .index i :: rest, new =>
    match ValList'.get? vs i with
    | some v =>
      match updateAt v rest new with
      | .ok w => .ok (.array (ValList'.set vs i w))
      | .error e => .error e
    | none => .error (.panic .outOfBounds)
  | .tuple vs, .tup i :: rest, new =>
    match ValList'.get? vs i with
    | some v =>
      match updateAt v rest new with
      | .ok w => .ok (.tuple (ValList'.set vs i w))
      | .error e => .error e
    | none => .error (.stuck "tuple index")
  | .struct name fvs, .fld f :: rest, new =>
    match FieldVals'.get? fvs f with
    | some v =>
      match updateAt v rest new with
      | .ok w => .ok (.struct name (FieldVals'.set fvs f w))
      | .error e => .error e
    | none => .error (.stuck "struct field")
  | _, _, _ => .error (.stuck "assignment target")

def rangeVals' (lo : Nat) : Nat → ValList
  | 0 => .nil
  | n + 1 => .cons (.int lo) (rangeVals' (lo + 1) n)

/-- the join key of an element: its first field if it is a tuple, the element itself otherwise -/
def joinKey : Val → Val
  | .tuple (.cons k _) => k
  | v => v

def findByKey (k : Val) : ValList → Option Val
  | .nil => none
  | .cons v r => if Val.beq (joinKey v) k then some v else findByKey k r

/-- the pairs a for-join loop visits, in the order of the first array -/
def joinPairs : ValList → ValList → ValList
  | .nil, _ => .nil
  | .cons x r, ys =>
    match findByKey (joinKey x) ys with
    | some y => .cons (.tuple (.cons x (.cons y .nil))) (joinPairs r ys)
    | none => joinPairs r ys

def unit : Val := .tuple .nil

def restore (outer : Env) (inner : Env) : Env := inner.drop (inner.length - outer.length)

/-! ### evaluation -/

mutual
def evalExpr (fuel : Nat) (prog : Prog) (env : Env) (e : Expr) : M (Val × Env) :=
  match fuel with
  | 0 => .error .fuel
  | fuel + 1 =>
  match e with
  | .bool b => .ok (.bool b, env)
  | .int n _ => .ok (.int n, env)
  | .var x =>
    match env.get? x with
    | some v => .ok (v, env)
    | none => .error (.stuck s!"unbound {x}")
  | .un op ty a =>
    match evalExpr fuel prog env a with
    | .error e => .error e
    | .ok (v, env1) =>
      match unop op ty v with
      | .ok r => .ok (r, env1)
      | .error e => .error e
  | .bin .land _ a b =>
    match evalExpr fuel prog env a with
    | .error e => .error e
    | .ok (.bool false, env1) => .ok (.bool false, env1)
    | .ok (.bool true, env1) => evalExpr fuel prog env1 b
    | .ok _ => .error (.stuck "&&")
  | .bin .lor _ a b =>
    match evalExpr fuel prog env a with
    | .error e => .error e
    | .ok (.bool true, env1) => .ok (.bool true, env1)
    | .ok (.bool false, env1) => evalExpr fuel prog env1 b
    | .ok _ => .error (.stuck "||")
  | .bin op ty a b =>
    match evalExpr fuel prog env a with
    | .error e => .error e
    | .ok (x, env1) =>
      match evalExpr fuel prog env1 b with
      | .error e => .error e
      | .ok (y, env2) =>
        match binop op ty x y with
        | .ok r => .ok (r, env2)
        | .error e => .error e
  | .cast src dst a =>
    match evalExpr fuel prog env a with
    | .error e => .error e
    | .ok (v, env1) =>
      match cast src dst v with
      | .ok r => .ok (r, env1)
      | .error e => .error e
  | .ite c t f =>
    match evalExpr fuel prog env c with
    | .error e => .error e
    | .ok (.bool true, env1) => evalExpr fuel prog env1 t
    | .ok (.bool false, env1) => evalExpr fuel prog env1 f
    | .ok _ => .error (.stuck "if")
  | .block ss =>
    match evalStmts fuel prog env ss with
    | .error e => .error e
    | .ok (v, env1) => .ok (v, restore env env1)
  | .tuple es =>
    match evalList fuel prog env es with
    | .error e => .error e
    | .ok (vs, env1) => .ok (.tuple vs, env1)
  | .tupleGet a i =>
    match evalExpr fuel prog env a with
    | .error e => .error e
    | .ok (.tuple vs, env1) =>
      match ValList'.get? vs i with
      | some v => .ok (v, env1)
      | none => .error (.stuck "tuple index")
    | .ok _ => .error (.stuck "tuple access")
  | .array es =>
    match evalList fuel prog env es with
    | .error e => .error e
    | .ok (vs, env1) => .ok (.array vs, env1)
  | .repeat_ a n =>
    match evalExpr fuel prog env a with
    | .error e => .error e
    | .ok (v, env1) => .ok (.array (ValList.replicate n v), env1)
  | .index a i =>
    match evalExpr fuel prog env a with
    | .error e => .error e
    | .ok (.array vs, env1) =>
      match evalExpr fuel prog env1 i with
      | .error e => .error e
      | .ok (.int n, env2) =>
        if n < 0 then .error (.stuck "negative index") else
        match ValList'.get? vs n.toNat with
        | some v => .ok (v, env2)
        | none => .error (.panic .outOfBounds)
      | .ok _ => .error (.stuck "index")
    | .ok _ => .error (.stuck "array access")
  | .range lo hi _ => .ok (.array (rangeVals' lo (hi - lo)), env)
  | .struct name fs =>
    match evalFields fuel prog env fs with
    | .error e => .error e
    | .ok (fvs, env1) => .ok (.struct name fvs, env1)
  | .field a name =>
    match evalExpr fuel prog env a with
    | .error e => .error e
    | .ok (.struct _ fvs, env1) =>
      match FieldVals'.get? fvs name with
      | some v => .ok (v, env1)
      | none => .error (.stuck "field")
    | .ok _ => .error (.stuck "struct access")
  | .enumLit ename variant isUnit es =>
    match evalList fuel prog env es with
    | .error e => .error e
    | .ok (vs, env1) => .ok (.enum ename variant isUnit vs, env1)
  | .match_ scrut arms =>
    match evalExpr fuel prog env scrut with
    | .error e => .error e
    | .ok (v, env1) => evalArms fuel prog env1 v arms
  | .call fn args =>
    match evalList fuel prog env args with
    | .error e => .error e
    | .ok (vs, env1) =>
      match prog.fn? fn with
      | none => .error (.stuck s!"unknown function {fn}")
      | some d =>
        if d.params.length != vs.length then .error (.stuck "arity") else
        let callee : Env := (d.params.map (·.1)).zip vs.toList |>.reverse
        match evalStmts fuel prog (callee ++ prog.consts) d.body with
        | .error e => .error e
        | .ok (r, _) => .ok (r, env1)

def evalList (fuel : Nat) (prog : Prog) (env : Env) (es : ExprList) : M (ValList × Env) :=
  match fuel with
  | 0 => .error .fuel
  | fuel + 1 =>
  match es with
  | .nil => .ok (.nil, env)
  | .cons e rest =>
    match evalExpr fuel prog env e with
    | .error e => .error e
    | .ok (v, env1) =>
      match evalList fuel prog env1 rest with
      | .error e => .error e
      | .ok (vs, env2) => .ok (.cons v vs, env2)

def evalFields (fuel : Nat) (prog : Prog) (env : Env) (fs : FieldExprs) : M (FieldVals × Env) :=
  match fuel with
  | 0 => .error .fuel
  | fuel + 1 =>
  match fs with
  | .nil => .ok (.nil, env)
  | .cons n e rest =>
    match evalExpr fuel prog env e with
    | .error e => .error e
    | .ok (v, env1) =>
      match evalFields fuel prog env1 rest with
      | .error e => .error e
      | .ok (vs, env2) => .ok (.cons n v vs, env2)

/-- the first arm whose pattern matches decides -/
def evalArms (fuel : Nat) (prog : Prog) (env : Env) (v : Val) (arms : Arms) : M (Val × Env) :=
  match fuel with
  | 0 => .error .fuel
  | fuel + 1 =>
  match arms with
  | .nil => .error (.stuck "no arm matches")
  | .cons p e rest =>
    match matchPat p v with
    | some binds =>
      match evalExpr fuel prog (binds ++ env) e with
      | .error e => .error e
      | .ok (r, env1) => .ok (r, restore env env1)
    | none => evalArms fuel prog env v rest

/-- evaluates the accessors of an assignment target against the current value `cur` of the place, left to right as
Rust builds a place: an index expression is evaluated, its bounds are checked, then the next accessor is looked at
(in `a[i][j + 1] = v` an out-of-bounds `i` is reported before `j + 1` can overflow) -/
def evalPath (fuel : Nat) (prog : Prog) (env : Env) (cur : Val) (p : Path) : M (List Step × Env) :=
  match fuel with
  | 0 => .error .fuel
  | fuel + 1 =>
  match p with
  | .nil => .ok ([], env)
  | .index i rest =>
    match evalExpr fuel prog env i with
    | .error e => .error e
    | .ok (.int n, env1) =>
      if n < 0 then .error (.stuck "negative index") else
      match cur with
      | .array vs =>
        match ValList'.get? vs n.toNat with
        | none => .error (.panic .outOfBounds)
        | some elem =>
          match evalPath fuel prog env1 elem rest with
          | .error e => .error e
          | .ok (steps, env2) => .ok (.index n.toNat :: steps, env2)
      | _ => .error (.stuck "index of a non-array")
    | .ok _ => .error (.stuck "index")
  | .tup i rest =>
    match cur with
    | .tuple vs =>
      match ValList'.get? vs i with
      | none => .error (.stuck "tuple index")
      | some c =>
        match evalPath fuel prog env c rest with
        | .error e => .error e
        | .ok (steps, env1) => .ok (.tup i :: steps, env1)
    | _ => .error (.stuck "tuple access")
  | .fld f rest =>
    match cur with
    | .struct _ fvs =>
      match FieldVals'.get? fvs f with
      | none => .error (.stuck "struct field")
      | some c =>
        match evalPath fuel prog env c rest with
        | .error e => .error e
        | .ok (steps, env1) => .ok (.fld f :: steps, env1)
    | _ => .error (.stuck "field access")

/-- the value of a statement list is that of its last statement if that is an expression -/
def evalStmts (fuel : Nat) (prog : Prog) (env : Env) (ss : StmtList) : M (Val × Env) :=
  match fuel with
  | 0 => .error .fuel
  | fuel + 1 =>
  match ss with
  | .nil => .ok (unit, env)
  | .cons s rest =>
    match evalStmt fuel prog env s with
    | .error e => .error e
    | .ok (v, env1) =>
      match rest with
      | .nil => .ok (v, env1)
      | _ => evalStmts fuel prog env1 rest

def evalStmt (fuel : Nat) (prog : Prog) (env : Env) (s : Stmt) : M (Val × Env) :=
  match fuel with
  | 0 => .error .fuel
  | fuel + 1 =>
  match s with
  | .let_ p e =>
    match evalExpr fuel prog env e with
    | .error e => .error e
    | .ok (v, env1) =>
      match matchPat p v with
      | some binds => .ok (unit, binds ++ env1)
      | none => .error (.stuck "refutable let")
  | .letMut x e =>
    match evalExpr fuel prog env e with
    | .error e => .error e
    | .ok (v, env1) => .ok (unit, (x, v) :: env1)
  | .assign x path e =>
    /- as in Rust: the value first, then the place, accessor by accessor (`evalPath`) -/
    match evalExpr fuel prog env e with
    | .error e => .error e
    | .ok (v, env1) =>
      match env1.get? x with
      | none => .error (.stuck s!"unbound {x}")
      | some old =>
        match evalPath fuel prog env1 old path with
        | .error e => .error e
        | .ok (steps, env2) =>
          match updateAt old steps v with
          | .error e => .error e
          | .ok new => .ok (unit, env2.set x new)
  | .expr e => evalExpr fuel prog env e
  | .for_ p arr body =>
    match evalExpr fuel prog env arr with
    | .error e => .error e
    | .ok (.array vs, env1) =>
      match evalLoop fuel prog env1 p vs body with
      | .error e => .error e
      | .ok env2 => .ok (unit, env2)
    | .ok _ => .error (.stuck "for")
  | .forJoin p a b body =>
    match evalExpr fuel prog env a with
    | .error e => .error e
    | .ok (.array xs, env1) =>
      match evalExpr fuel prog env1 b with
      | .error e => .error e
      | .ok (.array ys, env2) =>
        match evalLoop fuel prog env2 p (joinPairs xs ys) body with
        | .error e => .error e
        | .ok env3 => .ok (unit, env3)
      | .ok _ => .error (.stuck "for-join")
    | .ok _ => .error (.stuck "for-join")

/-- the loop body once per element, in order; the bindings of an iteration end with it -/
def evalLoop (fuel : Nat) (prog : Prog) (env : Env) (p : Pat) (vs : ValList) (body : StmtList) : M Env :=
  match fuel with
  | 0 => .error .fuel
  | fuel + 1 =>
  match vs with
  | .nil => .ok env
  | .cons v rest =>
    match matchPat p v with
    | none => .error (.stuck "refutable loop pattern")
    | some binds =>
      match evalStmts fuel prog (binds ++ env) body with
      | .error e => .error e
      | .ok (_, env1) => evalLoop fuel prog (restore env env1) p rest body
end

/-- runs a function on argument values -/
def runFn (fuel : Nat) (prog : Prog) (fn : String) (args : List Val) : M Val :=
  match prog.fn? fn with
  | none => .error (.stuck s!"unknown function {fn}")
  | some d =>
    if d.params.length != args.length then .error (.stuck "arity") else
    let env : Env := ((d.params.map (·.1)).zip args).reverse ++ prog.consts
    match evalStmts fuel prog env d.body with
    | .error e => .error e
    | .ok (v, _) => .ok v

end Src
end GV
