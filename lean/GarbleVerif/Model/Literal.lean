import GarbleVerif.Model.Value
/-!
# L5 — literals (`literal.rs`)

`Lit` mirrors the Rust `Literal` enum. `isOfType`, `asBits` and `fromBits` are
transliterations of `Literal::{is_of_type, as_bits, from_unwrapped_bits}`; `denote` is the
specification: the canonical value a literal spelling stands for at a given type.
-/
namespace GV

mutual
inductive Lit where
  | true
  | false
  | numU (n : Nat) (k : IntTy)
  | numS (n : Int) (k : IntTy)
  | arrayRepeat (elem : Lit) (n : Nat)
  | array (elems : LitList)
  | tuple (fields : LitList)
  | struct (name : String) (fields : LitFields)
  | enum (name : String) (variant : String) (isUnit : Bool) (fields : LitList)
  | range (min max : Nat) (k : IntTy)
inductive LitList where
  | nil
  | cons (l : Lit) (rest : LitList)
inductive LitFields where
  | nil
  | cons (name : String) (l : Lit) (rest : LitFields)
end

instance : Inhabited Lit := ⟨.true⟩
instance : Inhabited LitList := ⟨.nil⟩
instance : Inhabited LitFields := ⟨.nil⟩

namespace LitList
def length : LitList → Nat
  | nil => 0
  | cons _ r => r.length + 1
def ofList : List Lit → LitList
  | [] => nil
  | l :: r => cons l (ofList r)
end LitList

namespace LitFields
def length : LitFields → Nat
  | nil => 0
  | cons _ _ r => r.length + 1
def ofList : List (String × Lit) → LitFields
  | [] => nil
  | (n, l) :: r => cons n l (ofList r)
def names : LitFields → List String
  | nil => []
  | cons n _ r => n :: r.names
def find? : LitFields → String → Option Lit
  | nil, _ => none
  | cons n l r, name => if n == name then some l else r.find? name
end LitFields

namespace Fields
def find? : Fields → String → Option Ty
  | nil, _ => none
  | cons n t r, name => if n == name then some t else r.find? name
end Fields

/-- the program's struct and enum definitions, by name (`checked.struct_defs` / `enum_defs`) -/
structure Defs where
  structs : List (String × Fields)
  enums : List (String × Variants)

namespace Defs
def struct? (d : Defs) (name : String) : Option Fields := (d.structs.find? (·.1 == name)).map (·.2)
def enum? (d : Defs) (name : String) : Option Variants := (d.enums.find? (·.1 == name)).map (·.2)
end Defs

/-! ### `Literal::is_of_type` -/

mutual
def Lit.isOfType : Lit → Ty → Bool
  | .true, .bool => Bool.true
  | .false, .bool => Bool.true
  | .numU n k1, .int k2 => k1 == k2 && !k2.signed && k2.inRange n
  | .numS n k1, .int k2 => k1 == k2 && k2.signed && k2.inRange n
  | .arrayRepeat elem n1, .array t n2 => n1 == n2 && elem.isOfType t
  | .array elems, .array t n => elems.length == n && elems.allOfType t
  | .struct name lfs, .struct name' fs =>
    name == name' && fs.length == lfs.length && lfs.fieldsOfType fs && lfs.names.Nodup
  | .tuple ls, .tuple ts => ls.eachOfType ts
  | .enum name variant isUnit ls, .enum name' variants =>
    name == name' &&
    match variants.find? variant with
    | some (_, u, fts) => u == isUnit && (u || ls.eachOfType fts)
    | none => Bool.false
  | .range min max k, .array t n =>
    (match t with | .int k' => k == k' && !k.signed | _ => Bool.false) &&
    min ≤ max && max - min == n && (max == min || k.inRange ((max : Int) - 1))
  | _, _ => Bool.false
def LitList.allOfType : LitList → Ty → Bool
  | .nil, _ => Bool.true
  | .cons l r, t => l.isOfType t && r.allOfType t
/-- positional (tuple / enum fields): same length, each of its type -/
def LitList.eachOfType : LitList → TyList → Bool
  | .nil, .nil => Bool.true
  | .cons l r, .cons t ts => l.isOfType t && r.eachOfType ts
  | _, _ => Bool.false
/-- by name (struct fields): every literal field is a field of the definition, with its type -/
def LitFields.fieldsOfType : LitFields → Fields → Bool
  | .nil, _ => Bool.true
  | .cons n l r, fs =>
    (match fs.find? n with
     | some t => l.isOfType t
     | none => Bool.false) && r.fieldsOfType fs
end

/-! ### `Literal::as_bits` -/

/-- `n` copies of a bit string -/
def repeatBits (bs : List Bool) : Nat → List Bool
  | 0 => []
  | n + 1 => bs ++ repeatBits bs n

/-- `min, min+1, …` (`count` numbers) in `size` bits each -/
def rangeBits (size : Nat) (min : Nat) : Nat → List Bool
  | 0 => []
  | count + 1 => natToBits min size ++ rangeBits size (min + 1) count

mutual
def Lit.asBits (d : Defs) : Lit → List Bool
  | .true => [Bool.true]
  | .false => [Bool.false]
  | .numU n k => natToBits n k.bits
  | .numS n k => intToBits n k.bits
  | .arrayRepeat elem n => repeatBits (elem.asBits d) n
  | .array elems => elems.asBits d
  | .tuple fields => fields.asBits d
  | .struct name lfs =>
    -- fields are emitted in the order of the definition
    match d.struct? name with
    | some fs => lfs.asBitsInOrder d fs
    | none => []
  | .enum name variant isUnit fields =>
    match d.enum? name with
    | some variants =>
      match variants.find? variant with
      | some (i, _, _) =>
        -- `VariantLiteral::Unit` has no fields
        let payload := if isUnit then [] else fields.asBits d
        natToBits i variants.tagSize ++ payload ++ List.replicate (variants.maxPayload - payload.length) Bool.false
      | none => []
    | none => []
  | .range min max k => rangeBits k.bits min (max - min)
def LitList.asBits (d : Defs) : LitList → List Bool
  | .nil => []
  | .cons l r => l.asBits d ++ r.asBits d
/-- struct fields in definition order, each looked up by name in the literal -/
def LitFields.asBitsInOrder (d : Defs) (lfs : LitFields) : Fields → List Bool
  | .nil => []
  | .cons n _ rest =>
    (match lfs.findBits d n with
     | some bs => bs
     | none => []) ++ lfs.asBitsInOrder d rest
def LitFields.findBits (d : Defs) : LitFields → String → Option (List Bool)
  | .nil, _ => none
  | .cons n l r, name => if n == name then some (l.asBits d) else r.findBits d name
end

/-! ### `Literal::from_unwrapped_bits` (the Rust decoder) -/

def sliceOk (bits : List Bool) (i size : Nat) : Bool := i + size ≤ bits.length

def litOfInt (k : IntTy) (bits : List Bool) : Lit :=
  if k.signed then .numS (bitsToInt Bool.true bits) k else .numU (bitsToNat bits) k

/-- `n` consecutive elements of `size` bits each, `none` = slice out of range (Rust panics) or the
element decoder reports a length mismatch -/
def litsN (f : List Bool → Option Lit) (size : Nat) : Nat → List Bool → Option LitList
  | 0, _ => some .nil
  | n + 1, bits =>
    if size ≤ bits.length then
      match f (bits.take size), litsN f size n (bits.drop size) with
      | some l, some r => some (.cons l r)
      | _, _ => none
    else none

mutual
def Ty.fromBits : Ty → List Bool → Option Lit
  | .bool, [b] => some (if b then .true else .false)
  | .bool, _ => none
  | .int k, bits => if bits.length == k.bits then some (litOfInt k bits) else none
  | .array t n, bits =>
    match litsN t.fromBits t.size n bits with
    | some ls => some (.array ls)
    | none => none
  | .tuple ts, bits =>
    match ts.fromBitsEach bits with
    | some ls => some (.tuple ls)
    | none => none
  | .struct name fs, bits =>
    match fs.fromBitsEach bits with
    | some lfs => some (.struct name lfs)
    | none => none
  | .enum name variants, bits =>
    match variants.fromBitsAt (bitsToNat (bits.take variants.tagSize)) (bits.drop variants.tagSize) with
    | some (vname, u, ls) => some (.enum name vname u ls)
    | none => none
def TyList.fromBitsEach : TyList → List Bool → Option LitList
  | .nil, _ => some .nil
  | .cons t ts, bits =>
    if t.size ≤ bits.length then
      match t.fromBits (bits.take t.size), ts.fromBitsEach (bits.drop t.size) with
      | some l, some r => some (.cons l r)
      | _, _ => none
    else none
def Fields.fromBitsEach : Fields → List Bool → Option LitFields
  | .nil, _ => some .nil
  | .cons n t ts, bits =>
    if t.size ≤ bits.length then
      match t.fromBits (bits.take t.size), ts.fromBitsEach (bits.drop t.size) with
      | some l, some r => some (.cons n l r)
      | _, _ => none
    else none
def Variants.fromBitsAt : Variants → Nat → List Bool → Option (String × Bool × LitList)
  | .nil, _, _ => none
  | .cons n u fs _, 0, bits =>
    if u then some (n, Bool.true, .nil) else
    match fs.fromBitsEach bits with
    | some ls => some (n, Bool.false, ls)
    | none => none
  | .cons _ _ _ r, i + 1, bits => r.fromBitsAt i bits
end

/-! ### specification: the value a literal denotes -/

def rangeVals (min : Nat) : Nat → ValList
  | 0 => .nil
  | count + 1 => .cons (.int min) (rangeVals (min + 1) count)

mutual
def Lit.denote : Lit → Ty → Option Val
  | .true, .bool => some (.bool Bool.true)
  | .false, .bool => some (.bool Bool.false)
  | .numU n k, .int k' => if k == k' && !k.signed then some (.int n) else none
  | .numS n k, .int k' => if k == k' && k.signed then some (.int n) else none
  | .arrayRepeat elem n, .array t _ =>
    match elem.denote t with
    | some v => some (.array (ValList.replicate n v))
    | none => none
  | .array elems, .array t _ =>
    match elems.denoteAll t with
    | some vs => some (.array vs)
    | none => none
  | .tuple ls, .tuple ts =>
    match ls.denoteEach ts with
    | some vs => some (.tuple vs)
    | none => none
  | .struct name lfs, .struct name' fs =>
    if name != name' || lfs.length != fs.length then none else
    match lfs.denoteInOrder fs with
    | some fvs => some (.struct name fvs)
    | none => none
  | .enum name variant isUnit ls, .enum name' variants =>
    if name != name' then none else
    match variants.find? variant with
    | some (_, _, fts) =>
      if isUnit then some (.enum name variant Bool.true .nil) else
      match ls.denoteEach fts with
      | some vs => some (.enum name variant Bool.false vs)
      | none => none
    | none => none
  | .range min max k, .array (.int k') _ =>
    if k == k' && min ≤ max then some (.array (rangeVals min (max - min))) else none
  | _, _ => none
def LitList.denoteAll : LitList → Ty → Option ValList
  | .nil, _ => some .nil
  | .cons l r, t =>
    match l.denote t, r.denoteAll t with
    | some v, some vs => some (.cons v vs)
    | _, _ => none
def LitList.denoteEach : LitList → TyList → Option ValList
  | .nil, .nil => some .nil
  | .cons l r, .cons t ts =>
    match l.denote t, r.denoteEach ts with
    | some v, some vs => some (.cons v vs)
    | _, _ => none
  | _, _ => none
/-- struct fields in definition order, looked up by name in the literal -/
def LitFields.denoteInOrder (lfs : LitFields) : Fields → Option FieldVals
  | .nil => some .nil
  | .cons n t rest =>
    match lfs.denoteField n t, lfs.denoteInOrder rest with
    | some v, some r => some (.cons n v r)
    | _, _ => none
def LitFields.denoteField : LitFields → String → Ty → Option Val
  | .nil, _, _ => none
  | .cons n l r, name, t => if n == name then l.denote t else r.denoteField name t
end

end GV
