import GarbleVerif.Model.Arith
import GarbleVerif.Model.SrcSem
import GarbleVerif.Model.MatchSpec
/-!
# L7 — what the compiled circuit computes, at the level of bit lists (core fragment)

`bitExpr` / `bitStmts` / `bitStmt` follow `compile.rs` (`TypedExpr::compile`, `TypedStmt::compile`) on the
core fragment of the language — Booleans and integers of every width, literals, variables, `!`, unary
`-`, `+`, `-`, `*`, `/`, `%`, `<<`, `>>`, `<`, `>`, `<=`, `>=`, `==`, `!=`, `&`, `|`, `^`, `&&`, `||`, casts between all of
these types, `if`/`else` (as expression and as statement), `match` on a scalar whose arms cover its type, blocks, `()`, `let`, `let mut`, assignment
to a variable and calls of functions with scalar parameters (`callAt`: the callee's body with its parameters bound to
the argument wires) — but instead of emitting gates they compute the value every wire would carry for given
inputs: operands become big-endian bit lists, operators are the bit-list functions of
`Model/Arith.lean` (the same functions that C03 ties to `CircuitBuilder`), the panic record is its
abstract state "reason of the first failing operation, if any" (C02): every expression reports the
first panic raised inside it, and code that runs one after the other combines them with `seqP` (the
first wins) — the abstract behaviour that C02 proves for `push_panic_if` / `mux_panic` — and the
compiler's `Env` is the list of the variables in scope, innermost first, with the bits on their wires.
Anything outside the fragment is `none`.

`compile.rs` compiles both branches of an `if` and both operands of `&&` / `||` and selects
afterwards — the value, the panic record, and every variable in scope (`mux_envs`); so does `bitExpr`.
-/
namespace GV
namespace Bit
open Src

/-- the scalar types of the fragment -/
inductive STy where
  | bool
  | int (k : IntTy)
deriving DecidableEq, Repr, Inhabited

def STy.toTy : STy → Ty
  | .bool => .bool
  | .int k => .int k

def STy.signed : STy → Bool
  | .bool => false
  | .int k => k.signed

def STy.bits : STy → Nat
  | .bool => 1
  | .int k => k.bits

def STy.ofTy : Ty → Option STy
  | .bool => some .bool
  | .int k => some (.int k)
  | _ => none

/-- abstract panic record: the reason of the first failing operation -/
abbrev P := Option Src.PanicKind

/-- sequencing of two pieces of code: the first panic wins (C02: `push_panic_if` never replaces a
recorded panic) -/
def seqP (a b : P) : P :=
  match a with
  | some q => some q
  | none => b

def kindOf : Arith.PanicKind → Src.PanicKind
  | .overflow => .overflow
  | .divByZero => .divByZero
  | .outOfBounds => .outOfBounds

/-- the panic conditions of one operator, in the order they are pushed -/
def firstOf : List (Bool × Arith.PanicKind) → P
  | [] => none
  | (c, k) :: rest => if c then some (kindOf k) else firstOf rest

abbrev BEnv := List (String × STy × List Bool)

def BEnv.get? : BEnv → String → Option (STy × List Bool)
  | [], _ => none
  | (n, t, bs) :: r, x => if n == x then some (t, bs) else BEnv.get? r x

/-- the strict binary operators of the fragment on operands of scalar type `t`: result type, bits, panics -/
def binBits (op : Src.BinOp) (t : STy) (x y : List Bool) : Option (STy × List Bool × List (Bool × Arith.PanicKind)) :=
  match op, t with
  | .add, .int k => let r := Arith.binop .add k.signed k.signed k.signed x y; some (.int k, r.1, r.2)
  | .sub, .int k => let r := Arith.binop .sub k.signed k.signed k.signed x y; some (.int k, r.1, r.2)
  | .mul, .int k => let r := Arith.binop .mul k.signed k.signed k.signed x y; some (.int k, r.1, r.2)
  | .div, .int k => let r := Arith.binop .div k.signed k.signed k.signed x y; some (.int k, r.1, r.2)
  | .rem, .int k => let r := Arith.binop .mod k.signed k.signed k.signed x y; some (.int k, r.1, r.2)
  | .lt, .int k => let r := Arith.binop .lt k.signed k.signed false x y; some (.bool, r.1, r.2)
  | .gt, .int k => let r := Arith.binop .gt k.signed k.signed false x y; some (.bool, r.1, r.2)
  /- `a <= b` is parsed as `(a < b) | (a == b)` (both copies of the operands give the same wires) -/
  | .le, .int k =>
    let c := Arith.comparator x k.signed y k.signed
    some (.bool, [Arith.bOr c.1 (Arith.eqBits x y)], [])
  | .ge, .int k =>
    let c := Arith.comparator x k.signed y k.signed
    some (.bool, [Arith.bOr c.2 (Arith.eqBits x y)], [])
  | .eq, _ => let r := Arith.binop .eq false false false x y; some (.bool, r.1, r.2)
  | .ne, _ => let r := Arith.binop .ne false false false x y; some (.bool, r.1, r.2)
  | .band, .bool => let r := Arith.binop .bitAnd false false false x y; some (.bool, r.1, r.2)
  | .bor, .bool => let r := Arith.binop .bitOr false false false x y; some (.bool, r.1, r.2)
  | .bxor, .bool => let r := Arith.binop .bitXor false false false x y; some (.bool, r.1, r.2)
  | .band, .int k => let r := Arith.binop .bitAnd k.signed k.signed k.signed x y; some (.int k, r.1, r.2)
  | .bor, .int k => let r := Arith.binop .bitOr k.signed k.signed k.signed x y; some (.int k, r.1, r.2)
  | .bxor, .int k => let r := Arith.binop .bitXor k.signed k.signed k.signed x y; some (.int k, r.1, r.2)
  | _, _ => none

/-- the type of a value of the fragment: a scalar, or `()` (the value of an assignment, of a block that
ends in a statement, of an `if` used as a statement) -/
inductive VTy where
  | s (t : STy)
  | unit
deriving DecidableEq, Repr, Inhabited

/-- `assign_mut`: replaces the bits of the innermost binding of `x` -/
def BEnv.set : BEnv → String → List Bool → BEnv
  | [], _, _ => []
  | (n, t, bs) :: r, x, w => if n == x then (n, t, w) :: r else (n, t, bs) :: BEnv.set r x w

/-- `mux_envs`: every variable in scope gets the bits of the first environment if `c`, of the second
otherwise (variable by variable; both environments come from the same scope stack) -/
def muxEnv (c : Bool) : BEnv → BEnv → BEnv
  | (n, t, x) :: a, (_, _, y) :: b => (n, t, if c then x else y) :: muxEnv c a b
  | _, _ => []

/-- leaving a block: the bindings made inside are dropped -/
def restoreB (outer inner : BEnv) : BEnv := inner.drop (inner.length - outer.length)

/-- a number literal that the compiler multiplies by repeated addition: `n ≠ 0` and `|n|` below the width of its
type. `(is negative, |n|, type)` -/
def litFactor : Expr → Option (Bool × Nat × IntTy)
  | .int n k => if n ≠ 0 ∧ n.natAbs < k.bits then some (decide (n < 0), n.natAbs, k) else none
  | _ => none

/-- `x * n` for such a literal: the other operand (bits `y`, panic `p`, variables `env`) is compiled once and added
`n` times, every addition checked. A negative literal (the sum is negated afterwards) is outside this model. -/
def litMul (neg : Bool) (n : Nat) (k : IntTy) (ty : Ty) (other : Option (VTy × List Bool × P × BEnv)) :
    Option (VTy × List Bool × P × BEnv) :=
  if neg then none else
  match other with
  | some (.s (.int k'), y, p, env) =>
    if k' = k ∧ STy.ofTy ty = some (.int k) then
      let r := Arith.constMul y k.signed n false
      some (.s (.int k), r.1, seqP p (if r.2 then some .overflow else none), env)
    else none
  | _ => none

/-- `TypedPattern::compile` on a scalar: the match bit and the variable the pattern binds. A number pattern
compares all bits, a range pattern uses the comparator twice (`!(x < lo) && !(x > hi)`). -/
def patBits (p : Pat) (t : STy) (bs : List Bool) : Option (Bool × Option String) :=
  match p, t, bs with
  | .ident x, _, _ => some (true, some x)
  | .bool true, .bool, [b] => some (b, none)
  | .bool false, .bool, [b] => some (!b, none)
  | .int n, .int k, _ =>
    if k.inRange n then some (Arith.eqBits (intToBits n k.bits) bs, none) else none
  | .range lo hi, .int k, _ =>
    if k.inRange lo ∧ k.inRange hi then
      let c1 := Arith.comparator bs k.signed (intToBits lo k.bits) k.signed
      let c2 := Arith.comparator bs k.signed (intToBits hi k.bits) k.signed
      some (!c1.1 && !c2.2, none)
    else none
  | _, _, _ => none

/-- the last arm binds or ignores the value: the match is exhaustive whatever the other arms are -/
def lastIsCatchAll : Arms → Bool
  | .nil => false
  | .cons (.ident _) _ .nil => true
  | .cons _ _ rest => lastIsCatchAll rest

/-- the patterns of the arms, in order -/
def armPats : Arms → List Pat
  | .nil => []
  | .cons p _ rest => p :: armPats rest

/-- the arms cover every value of the scrutinee's type: the last one binds or ignores the value, or the reference
procedure of C08 (`Src.uncovered`, proved exact) finds no uncovered value. The type checker accepts nothing else. -/
def matchCovers (ts : STy) (arms : Arms) : Bool :=
  lastIsCatchAll arms || (Src.uncovered ts.toTy (armPats arms)).isNone

/-- the variables an arm is compiled with: the state after the scrutinee plus the pattern's binding -/
def armEnv (bind : Option String) (ts : STy) (sb : List Bool) (benv1 : BEnv) : BEnv :=
  match bind with
  | some x => (x, ts, sb) :: benv1
  | none => benv1

/-- `env.pop()` after an arm: the pattern's binding goes out of scope -/
def armOut (bind : Option String) (enve : BEnv) : BEnv :=
  match bind with
  | some _ => enve.drop 1
  | none => enve

/-- state of the arm loop of `ExprEnum::Match`: `has_prev_match`, the muxed value (`none`: still the initial
zeros), the muxed panic (relative to the state after the scrutinee) and the muxed variables -/
abbrev ArmSt := Bool × Option (VTy × List Bool) × P × BEnv

/-- what a call returns for given argument bits: type, bits and the first panic raised in the callee (`none`: the
function is not part of the fragment) -/
abbrev CallFn := String → List (STy × List Bool) → Option (VTy × List Bool × P)

mutual
/-- type, bits, panic (the first one raised inside `e`, if any) and variables after an expression -/
def bitExpr (call : CallFn) (benv : BEnv) : Expr → Option (VTy × List Bool × P × BEnv)
  | .bool b => some (.s .bool, [b], none, benv)
  | .int n k => if k.inRange n then some (.s (.int k), intToBits n k.bits, none, benv) else none
  | .var x =>
    match benv.get? x with
    | some (t, bs) => some (.s t, bs, none, benv)
    | none => none
  | .un .not .bool a =>
    match bitExpr call benv a with
    | some (.s .bool, [b], p1, env1) => some (.s .bool, [!b], p1, env1)
    | _ => none
  | .un .neg (.int k) a =>
    if k.signed then
      match bitExpr call benv a with
      | some (.s (.int k'), bs, p1, env1) =>
        if k' = k then
          let r := Arith.negChecked bs
          some (.s (.int k), r.1, seqP p1 (if r.2 then some .overflow else none), env1)
        else none
      | _ => none
    else none
  /- `mux_panic(x, panic after y, panic before y)`, `mux_envs(x, env after y, env before y)`: the panics
  and the assignments of `y` count only if it runs -/
  | .bin .land _ a b =>
    match bitExpr call benv a with
    | some (.s .bool, [x], p1, env1) =>
      match bitExpr call env1 b with
      | some (.s .bool, [y], p2, env2) =>
        some (.s .bool, [x && y], seqP p1 (if x then p2 else none), muxEnv x env2 env1)
      | _ => none
    | _ => none
  | .bin .lor _ a b =>
    match bitExpr call benv a with
    | some (.s .bool, [x], p1, env1) =>
      match bitExpr call env1 b with
      | some (.s .bool, [y], p2, env2) =>
        some (.s .bool, [x || y], seqP p1 (if x then none else p2), muxEnv x env1 env2)
      | _ => none
    | _ => none
  /- `<<`, `>>`: the amount is a `u8`; overflow when it is not smaller than the width -/
  | .bin .shl ty a b =>
    match STy.ofTy ty with
    | some (.int k) =>
      match bitExpr call benv a with
      | some (.s (.int k'), x, p1, env1) =>
        match bitExpr call env1 b with
        | some (.s (.int .u8), y, p2, env2) =>
          if k' = k then
            let r := Arith.binop .shl k.signed false k.signed x y
            some (.s (.int k), r.1, seqP p1 (seqP p2 (firstOf r.2)), env2)
          else none
        | _ => none
      | _ => none
    | _ => none
  | .bin .shr ty a b =>
    match STy.ofTy ty with
    | some (.int k) =>
      match bitExpr call benv a with
      | some (.s (.int k'), x, p1, env1) =>
        match bitExpr call env1 b with
        | some (.s (.int .u8), y, p2, env2) =>
          if k' = k then
            let r := Arith.binop .shr k.signed false k.signed x y
            some (.s (.int k), r.1, seqP p1 (seqP p2 (firstOf r.2)), env2)
          else none
        | _ => none
      | _ => none
    | _ => none
  /- the strict operators. A multiplication with a small number literal as operand is compiled as repeated
  addition of the other operand (the left operand is looked at first) -/
  | .bin op ty a b =>
    match (if op = .mul then litFactor a else none), (if op = .mul then litFactor b else none) with
    | some (neg, n, k), _ => litMul neg n k ty (bitExpr call benv b)
    | none, some (neg, n, k) => litMul neg n k ty (bitExpr call benv a)
    | none, none =>
    match STy.ofTy ty with
    | none => none
    | some t =>
      match bitExpr call benv a with
      | some (.s ta, x, p1, env1) =>
        match bitExpr call env1 b with
        | some (.s tb, y, p2, env2) =>
          if ta = t ∧ tb = t then
            match binBits op t x y with
            | some (tr, r, panics) => some (.s tr, r, seqP p1 (seqP p2 (firstOf panics)), env2)
            | none => none
          else none
        | _ => none
      | _ => none
  /- `as`: same width, truncation, or extension by the sign / zero of the source type; never a panic -/
  | .cast src dst a =>
    match STy.ofTy src, STy.ofTy dst with
    | some ts, some td =>
      match bitExpr call benv a with
      | some (.s ta, x, p1, env1) =>
        if ta = ts then some (.s td, Arith.cast x ts.signed td.bits, p1, env1) else none
      | _ => none
    | _, _ => none
  /- both branches are compiled from the environment the condition left; bits, panic and every
  variable are selected by the condition afterwards -/
  | .ite c t f =>
    match bitExpr call benv c with
    | some (.s .bool, [cb], pc, env1) =>
      match bitExpr call env1 t, bitExpr call env1 f with
      | some (tt, tb, pt, envT), some (tf, fb, pf, envF) =>
        if tt = tf then
          some (tt, (if cb then tb else fb), seqP pc (if cb then pt else pf), muxEnv cb envT envF)
        else none
      | _, _ => none
    | _ => none
  | .block ss =>
    match bitStmts call benv ss with
    | some (t, bs, p, env1) => some (t, bs, p, restoreB benv env1)
    | none => none
  /- `()` -/
  | .tuple .nil => some (.unit, [], none, benv)
  /- `match` on a scalar whose arms cover the type: every arm is compiled from the state after the scrutinee; value,
  panic and variables of the first arm whose pattern matches are selected -/
  | .match_ scrut arms =>
    match bitExpr call benv scrut with
    | some (.s ts, sb, ps, env1) =>
      if matchCovers ts arms then
        match bitArms call env1 ts sb arms (false, none, none, env1) with
        | some (_, some (t, bs), pa, envF) => some (t, bs, seqP ps pa, envF)
        | _ => none
      else none
    | _ => none
  /- a call: the arguments are compiled left to right in the caller's scope, the callee's body sees its parameters
  only; the caller goes on with the variables the arguments left -/
  | .call fn args =>
    match bitList call benv args with
    | some (vs, pargs, env1) =>
      match call fn vs with
      | some (t, bs, pb) => some (t, bs, seqP pargs pb, env1)
      | none => none
    | none => none
  | _ => none
/-- argument lists: left to right, the first panic wins -/
def bitList (call : CallFn) (benv : BEnv) : ExprList → Option (List (STy × List Bool) × P × BEnv)
  | .nil => some ([], none, benv)
  | .cons e rest =>
    match bitExpr call benv e with
    | some (.s t, bs, p1, env1) =>
      match bitList call env1 rest with
      | some (vs, p2, env2) => some ((t, bs) :: vs, seqP p1 p2, env2)
      | none => none
    | _ => none
/-- the arm loop: `s = !has_prev_match && is_match` selects the arm -/
def bitArms (call : CallFn) (benv1 : BEnv) (ts : STy) (scrut : List Bool) : Arms → ArmSt → Option ArmSt
  | .nil, st => some st
  | .cons p e rest, (hasPrev, ret, pacc, envAcc) =>
    match patBits p ts scrut with
    | none => none
    | some (m, bind) =>
      match bitExpr call (armEnv bind ts scrut benv1) e with
      | none => none
      | some (te, be, pe, enve) =>
        let envOut := armOut bind enve
        let s := !hasPrev && m
        match ret with
        | some (tr, rbits) =>
          if tr = te then
            bitArms call benv1 ts scrut rest
              (hasPrev || m, some (tr, if s then be else rbits), if s then pe else pacc, muxEnv s envOut envAcc)
          else none
        | none =>
          bitArms call benv1 ts scrut rest
            (hasPrev || m, some (te, if s then be else List.replicate be.length false), if s then pe else pacc,
              muxEnv s envOut envAcc)
/-- the value of a statement list is that of its last statement -/
def bitStmts (call : CallFn) (benv : BEnv) : StmtList → Option (VTy × List Bool × P × BEnv)
  | .nil => some (.unit, [], none, benv)
  | .cons s .nil => bitStmt call benv s
  | .cons s rest =>
    match bitStmt call benv s with
    | some (_, _, p1, env1) =>
      match bitStmts call env1 rest with
      | some (t2, bs2, p2, env2) => some (t2, bs2, seqP p1 p2, env2)
      | none => none
    | none => none
def bitStmt (call : CallFn) (benv : BEnv) : Stmt → Option (VTy × List Bool × P × BEnv)
  | .let_ (.ident x) e =>
    match bitExpr call benv e with
    | some (.s t, bs, p1, env1) => some (.unit, [], p1, (x, t, bs) :: env1)
    | _ => none
  | .letMut x e =>
    match bitExpr call benv e with
    | some (.s t, bs, p1, env1) => some (.unit, [], p1, (x, t, bs) :: env1)
    | _ => none
  /- `x = e`: the value is compiled first, then the innermost binding of `x` is replaced -/
  | .assign x .nil e =>
    match bitExpr call benv e with
    | some (.s t, bs, p1, env1) =>
      match env1.get? x with
      | some (t', _) => if t' = t then some (.unit, [], p1, env1.set x bs) else none
      | none => none
    | _ => none
  | .expr e => bitExpr call benv e
  | _ => none
end

/-- the callee's scope: its parameters bound to the argument bits (types must agree), last parameter innermost -/
def bindParams : List (String × Ty) → List (STy × List Bool) → Option BEnv
  | [], [] => some []
  | (x, ty) :: ps, (t, bs) :: as =>
    if STy.ofTy ty = some t then
      match bindParams ps as with
      | some env => some (env ++ [(x, t, bs)])
      | none => none
    else none
  | _, _ => none

/-- calls, inlined to depth `n` (Garble has no recursion: the call depth of a checked program is below the number of
its functions). Programs with constants are outside the fragment. -/
def callAt (prog : Prog) : Nat → CallFn
  | 0, _, _ => none
  | n + 1, fn, vs =>
    match prog.fn? fn with
    | none => none
    | some d =>
      if prog.consts.isEmpty then
        match bindParams d.params vs with
        | some callee =>
          match bitStmts (callAt prog n) callee d.body with
          | some (t, bs, p, _) => some (t, bs, p)
          | none => none
        | none => none
      else none

/-- a function body with calls inlined as deep as the program can nest them -/
def bitBody (prog : Prog) (benv : BEnv) (body : StmtList) : Option (VTy × List Bool × P × BEnv) :=
  bitStmts (callAt prog (prog.fns.length + 1)) benv body

end Bit
end GV
