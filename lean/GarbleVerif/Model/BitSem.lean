import GarbleVerif.Model.Arith
import GarbleVerif.Model.SrcSem
/-!
# L7 — what the compiled circuit computes, at the level of bit lists (core fragment)

`bitExpr` follows `compile.rs` (`TypedExpr::compile`) on the core fragment of the language —
Booleans and integers of every width, literals, variables, `!`, unary `-`, `+`, `-`, `<`, `>`,
`<=`, `>=`, `==`, `!=`, `&`, `|`, `^` on Booleans, `&&`, `||`, casts between all of these types,
`if`/`else`, blocks with immutable `let` — but
instead of emitting gates it computes the value every wire would carry for given inputs:
operands become big-endian bit lists, operators are the bit-list functions of `Model/Arith.lean`
(the same functions that C03 ties to `CircuitBuilder`), and the panic record is its abstract
state "reason of the first failing operation, if any" (C02): every expression reports the first
panic raised inside it, and code that runs one after the other combines them with `seqP` (the
first wins) — the abstract behaviour that C02 proves for `push_panic_if` / `mux_panic`. Anything
outside the fragment is `none`.

`compile.rs` evaluates both branches of an `if` and both operands of `&&` / `||` and selects
afterwards; so does `bitExpr`.
-/
namespace GV
namespace Bit
open Src

/-- the scalar types of the fragment -/
inductive STy where
  | bool
  | int (k : IntTy)
deriving DecidableEq, Repr, Inhabited

def STy.toTy : STy → Ty
  | .bool => .bool
  | .int k => .int k

def STy.signed : STy → Bool
  | .bool => false
  | .int k => k.signed

def STy.bits : STy → Nat
  | .bool => 1
  | .int k => k.bits

def STy.ofTy : Ty → Option STy
  | .bool => some .bool
  | .int k => some (.int k)
  | _ => none

/-- abstract panic record: the reason of the first failing operation -/
abbrev P := Option Src.PanicKind

/-- sequencing of two pieces of code: the first panic wins (C02: `push_panic_if` never replaces a
recorded panic) -/
def seqP (a b : P) : P :=
  match a with
  | some q => some q
  | none => b

def kindOf : Arith.PanicKind → Src.PanicKind
  | .overflow => .overflow
  | .divByZero => .divByZero
  | .outOfBounds => .outOfBounds

/-- the panic conditions of one operator, in the order they are pushed -/
def firstOf : List (Bool × Arith.PanicKind) → P
  | [] => none
  | (c, k) :: rest => if c then some (kindOf k) else firstOf rest

abbrev BEnv := List (String × STy × List Bool)

def BEnv.get? : BEnv → String → Option (STy × List Bool)
  | [], _ => none
  | (n, t, bs) :: r, x => if n == x then some (t, bs) else BEnv.get? r x

/-- the strict binary operators of the fragment on operands of scalar type `t`: result type, bits, panics -/
def binBits (op : Src.BinOp) (t : STy) (x y : List Bool) : Option (STy × List Bool × List (Bool × Arith.PanicKind)) :=
  match op, t with
  | .add, .int k => let r := Arith.binop .add k.signed k.signed k.signed x y; some (.int k, r.1, r.2)
  | .sub, .int k => let r := Arith.binop .sub k.signed k.signed k.signed x y; some (.int k, r.1, r.2)
  | .lt, .int k => let r := Arith.binop .lt k.signed k.signed false x y; some (.bool, r.1, r.2)
  | .gt, .int k => let r := Arith.binop .gt k.signed k.signed false x y; some (.bool, r.1, r.2)
  /- `a <= b` is parsed as `(a < b) | (a == b)` (both copies of the operands give the same wires) -/
  | .le, .int k =>
    let c := Arith.comparator x k.signed y k.signed
    some (.bool, [Arith.bOr c.1 (Arith.eqBits x y)], [])
  | .ge, .int k =>
    let c := Arith.comparator x k.signed y k.signed
    some (.bool, [Arith.bOr c.2 (Arith.eqBits x y)], [])
  | .eq, _ => let r := Arith.binop .eq false false false x y; some (.bool, r.1, r.2)
  | .ne, _ => let r := Arith.binop .ne false false false x y; some (.bool, r.1, r.2)
  | .band, .bool => let r := Arith.binop .bitAnd false false false x y; some (.bool, r.1, r.2)
  | .bor, .bool => let r := Arith.binop .bitOr false false false x y; some (.bool, r.1, r.2)
  | .bxor, .bool => let r := Arith.binop .bitXor false false false x y; some (.bool, r.1, r.2)
  | _, _ => none

mutual
/-- type, bits and panic (the first one raised inside `e`, if any) of an expression -/
def bitExpr (benv : BEnv) : Expr → Option (STy × List Bool × P)
  | .bool b => some (.bool, [b], none)
  | .int n k => if k.inRange n then some (.int k, intToBits n k.bits, none) else none
  | .var x =>
    match benv.get? x with
    | some (t, bs) => some (t, bs, none)
    | none => none
  | .un .not .bool a =>
    match bitExpr benv a with
    | some (.bool, [b], p1) => some (.bool, [!b], p1)
    | _ => none
  | .un .neg (.int k) a =>
    if k.signed then
      match bitExpr benv a with
      | some (.int k', bs, p1) =>
        if k' = k then
          let r := Arith.negChecked bs
          some (.int k, r.1, seqP p1 (if r.2 then some .overflow else none))
        else none
      | _ => none
    else none
  /- `mux_panic(x, panic after y, panic before y)`: the panics of `y` count only if it runs -/
  | .bin .land _ a b =>
    match bitExpr benv a with
    | some (.bool, [x], p1) =>
      match bitExpr benv b with
      | some (.bool, [y], p2) => some (.bool, [x && y], seqP p1 (if x then p2 else none))
      | _ => none
    | _ => none
  | .bin .lor _ a b =>
    match bitExpr benv a with
    | some (.bool, [x], p1) =>
      match bitExpr benv b with
      | some (.bool, [y], p2) => some (.bool, [x || y], seqP p1 (if x then none else p2))
      | _ => none
    | _ => none
  | .bin op ty a b =>
    match STy.ofTy ty with
    | none => none
    | some t =>
      match bitExpr benv a with
      | none => none
      | some (ta, x, p1) =>
        match bitExpr benv b with
        | none => none
        | some (tb, y, p2) =>
          if ta = t ∧ tb = t then
            match binBits op t x y with
            | some (tr, r, panics) => some (tr, r, seqP p1 (seqP p2 (firstOf panics)))
            | none => none
          else none
  /- `as`: same width, truncation, or extension by the sign / zero of the source type; never a panic -/
  | .cast src dst a =>
    match STy.ofTy src, STy.ofTy dst with
    | some ts, some td =>
      match bitExpr benv a with
      | some (ta, x, p1) => if ta = ts then some (td, Arith.cast x ts.signed td.bits, p1) else none
      | none => none
    | _, _ => none
  /- both branches are compiled, bits and panic are selected by the condition afterwards -/
  | .ite c t f =>
    match bitExpr benv c with
    | some (.bool, [cb], pc) =>
      match bitExpr benv t, bitExpr benv f with
      | some (tt, tb, pt), some (tf, fb, pf) =>
        if tt = tf then some (tt, (if cb then tb else fb), seqP pc (if cb then pt else pf)) else none
      | _, _ => none
    | _ => none
  | .block ss => bitStmts benv ss
  | _ => none
/-- `let x = e; …; e'` (a `let mut` without assignments is a `let`) -/
def bitStmts (benv : BEnv) : StmtList → Option (STy × List Bool × P)
  | .cons (.expr e) .nil => bitExpr benv e
  | .cons (.let_ (.ident x) e) rest =>
    match bitExpr benv e with
    | some (t, bs, p1) =>
      match bitStmts ((x, t, bs) :: benv) rest with
      | some (t2, bs2, p2) => some (t2, bs2, seqP p1 p2)
      | none => none
    | none => none
  | .cons (.letMut x e) rest =>
    match bitExpr benv e with
    | some (t, bs, p1) =>
      match bitStmts ((x, t, bs) :: benv) rest with
      | some (t2, bs2, p2) => some (t2, bs2, seqP p1 p2)
      | none => none
    | none => none
  | _ => none
end

end Bit
end GV
