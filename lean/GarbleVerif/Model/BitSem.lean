import GarbleVerif.Model.Arith
import GarbleVerif.Model.SrcSem
import GarbleVerif.Model.MatchSpec
/-!
# L7 — what the compiled circuit computes, at the level of bit lists (core fragment)

`bitExpr` / `bitStmts` / `bitStmt` follow `compile.rs` (`TypedExpr::compile`, `TypedStmt::compile`) on the
core fragment of the language — Booleans and integers of every width with all their operators and casts, tuples,
structs, enums and arrays (literals, `t.i`, `s.f`, `[e; n]`, `lo..hi`, `a[i]`), `if`/`else`, `match` with literal, range,
binding, tuple, struct and enum patterns whose arms cover the type, blocks, `()`, `let` with irrefutable patterns, `let mut`,
assignment to a variable and through `.i` / `.f` / `[i]` accessors, `for pattern in array`, and
calls (`callAt`: the callee's body with its parameters bound to the argument wires)
— but instead of emitting gates they compute the value every wire would carry for given
inputs: operands become big-endian bit lists, operators are the bit-list functions of
`Model/Arith.lean` (the same functions that C03 ties to `CircuitBuilder`), the panic record is its
abstract state "reason of the first failing operation, if any" (C02): every expression reports the
first panic raised inside it, and code that runs one after the other combines them with `seqP` (the
first wins) — the abstract behaviour that C02 proves for `push_panic_if` / `mux_panic` — and the
compiler's `Env` is the list of the variables in scope, innermost first, with the bits on their wires.
Anything outside the fragment is `none`.

`compile.rs` compiles both branches of an `if` and both operands of `&&` / `||` and selects
afterwards — the value, the panic record, and every variable in scope (`mux_envs`); so does `bitExpr`.
-/
namespace GV
namespace Bit
open Src

/-- the scalar types of the fragment -/
inductive STy where
  | bool
  | int (k : IntTy)
deriving DecidableEq, Repr, Inhabited

def STy.toTy : STy → Ty
  | .bool => .bool
  | .int k => .int k

def STy.signed : STy → Bool
  | .bool => false
  | .int k => k.signed

def STy.bits : STy → Nat
  | .bool => 1
  | .int k => k.bits

def STy.ofTy : Ty → Option STy
  | .bool => some .bool
  | .int k => some (.int k)
  | _ => none

/-- abstract panic record: the reason of the first failing operation -/
abbrev P := Option Src.PanicKind

/-- sequencing of two pieces of code: the first panic wins (C02: `push_panic_if` never replaces a
recorded panic) -/
def seqP (a b : P) : P :=
  match a with
  | some q => some q
  | none => b

def kindOf : Arith.PanicKind → Src.PanicKind
  | .overflow => .overflow
  | .divByZero => .divByZero
  | .outOfBounds => .outOfBounds

/-- the panic conditions of one operator, in the order they are pushed -/
def firstOf : List (Bool × Arith.PanicKind) → P
  | [] => none
  | (c, k) :: rest => if c then some (kindOf k) else firstOf rest

/-- the type of a value of the fragment: a scalar, or `()` (the value of an assignment, of a block that
ends in a statement, of an `if` used as a statement) -/
inductive VTy where
  | s (t : STy)
  | unit
  /-- a tuple with at least one component, or an array (never a scalar or `()`: see `VTy.ofTy`) -/
  | agg (t : Ty)
deriving DecidableEq, Repr, Inhabited

/-- the one representation of a type -/
def VTy.ofTy : Ty → VTy
  | .bool => .s .bool
  | .int k => .s (.int k)
  | .tuple .nil => .unit
  | t => .agg t

def VTy.toTy : VTy → Ty
  | .s t => t.toTy
  | .unit => .tuple .nil
  | .agg t => t

/-- the `i`-th component of a tuple type and the number of bits in front of it -/
def TyList.nth? : TyList → Nat → Option (Nat × Ty)
  | .nil, _ => none
  | .cons t _, 0 => some (0, t)
  | .cons t r, i + 1 =>
    match TyList.nth? r i with
    | some (off, ti) => some (t.size + off, ti)
    | none => none

/-- the field `x` of a struct type and the number of bits in front of it -/
def Fields.nth? : Fields → String → Option (Nat × Ty)
  | .nil, _ => none
  | .cons n t r, x =>
    if n == x then some (0, t) else
    match Fields.nth? r x with
    | some (off, ti) => some (t.size + off, ti)
    | none => none

abbrev BEnv := List (String × VTy × List Bool)

def BEnv.get? : BEnv → String → Option (VTy × List Bool)
  | [], _ => none
  | (n, t, bs) :: r, x => if n == x then some (t, bs) else BEnv.get? r x

/-- the strict binary operators of the fragment on operands of scalar type `t`: result type, bits, panics -/
def binBits (op : Src.BinOp) (t : STy) (x y : List Bool) : Option (STy × List Bool × List (Bool × Arith.PanicKind)) :=
  match op, t with
  | .add, .int k => let r := Arith.binop .add k.signed k.signed k.signed x y; some (.int k, r.1, r.2)
  | .sub, .int k => let r := Arith.binop .sub k.signed k.signed k.signed x y; some (.int k, r.1, r.2)
  | .mul, .int k => let r := Arith.binop .mul k.signed k.signed k.signed x y; some (.int k, r.1, r.2)
  | .div, .int k => let r := Arith.binop .div k.signed k.signed k.signed x y; some (.int k, r.1, r.2)
  | .rem, .int k => let r := Arith.binop .mod k.signed k.signed k.signed x y; some (.int k, r.1, r.2)
  | .lt, .int k => let r := Arith.binop .lt k.signed k.signed false x y; some (.bool, r.1, r.2)
  | .gt, .int k => let r := Arith.binop .gt k.signed k.signed false x y; some (.bool, r.1, r.2)
  /- `a <= b` is parsed as `(a < b) | (a == b)` (both copies of the operands give the same wires) -/
  | .le, .int k =>
    let c := Arith.comparator x k.signed y k.signed
    some (.bool, [Arith.bOr c.1 (Arith.eqBits x y)], [])
  | .ge, .int k =>
    let c := Arith.comparator x k.signed y k.signed
    some (.bool, [Arith.bOr c.2 (Arith.eqBits x y)], [])
  | .eq, _ => let r := Arith.binop .eq false false false x y; some (.bool, r.1, r.2)
  | .ne, _ => let r := Arith.binop .ne false false false x y; some (.bool, r.1, r.2)
  | .band, .bool => let r := Arith.binop .bitAnd false false false x y; some (.bool, r.1, r.2)
  | .bor, .bool => let r := Arith.binop .bitOr false false false x y; some (.bool, r.1, r.2)
  | .bxor, .bool => let r := Arith.binop .bitXor false false false x y; some (.bool, r.1, r.2)
  | .band, .int k => let r := Arith.binop .bitAnd k.signed k.signed k.signed x y; some (.int k, r.1, r.2)
  | .bor, .int k => let r := Arith.binop .bitOr k.signed k.signed k.signed x y; some (.int k, r.1, r.2)
  | .bxor, .int k => let r := Arith.binop .bitXor k.signed k.signed k.signed x y; some (.int k, r.1, r.2)
  | _, _ => none

/-- `assign_mut`: replaces the bits of the innermost binding of `x` -/
def BEnv.set : BEnv → String → List Bool → BEnv
  | [], _, _ => []
  | (n, t, bs) :: r, x, w => if n == x then (n, t, w) :: r else (n, t, bs) :: BEnv.set r x w

/-- `mux_envs`: every variable in scope gets the bits of the first environment if `c`, of the second
otherwise (variable by variable; both environments come from the same scope stack) -/
def muxEnv (c : Bool) : BEnv → BEnv → BEnv
  | (n, t, x) :: a, (_, _, y) :: b => (n, t, if c then x else y) :: muxEnv c a b
  | _, _ => []

/-- leaving a block: the bindings made inside are dropped -/
def restoreB (outer inner : BEnv) : BEnv := inner.drop (inner.length - outer.length)

/-- a number literal that the compiler multiplies by repeated addition: `n ≠ 0` and `|n|` below the width of its
type. `(is negative, |n|, type)` -/
def litFactor : Expr → Option (Bool × Nat × IntTy)
  | .int n k => if n ≠ 0 ∧ n.natAbs < k.bits then some (decide (n < 0), n.natAbs, k) else none
  | _ => none

/-- `x * n` for such a literal: the other operand (bits `y`, panic `p`, variables `env`) is compiled once and added
`n` times, every addition checked. A negative literal (the sum is negated afterwards) is outside this model. -/
def litMul (neg : Bool) (n : Nat) (k : IntTy) (ty : Ty) (other : Option (VTy × List Bool × P × BEnv)) :
    Option (VTy × List Bool × P × BEnv) :=
  if neg then none else
  match other with
  | some (.s (.int k'), y, p, env) =>
    if k' = k ∧ STy.ofTy ty = some (.int k) then
      let r := Arith.constMul y k.signed n false
      some (.s (.int k), r.1, seqP p (if r.2 then some .overflow else none), env)
    else none
  | _ => none

/-- `TypedPattern::compile` on a scalar: the match bit and the variable the pattern binds. A number pattern
compares all bits, a range pattern uses the comparator twice (`!(x < lo) && !(x > hi)`). -/
def patBits (p : Pat) (t : STy) (bs : List Bool) : Option (Bool × Option String) :=
  match p, t, bs with
  | .ident x, _, _ => some (true, some x)
  | .bool true, .bool, [b] => some (b, none)
  | .bool false, .bool, [b] => some (!b, none)
  | .int n, .int k, _ =>
    if k.inRange n then some (Arith.eqBits (intToBits n k.bits) bs, none) else none
  | .range lo hi, .int k, _ =>
    if k.inRange lo ∧ k.inRange hi then
      let c1 := Arith.comparator bs k.signed (intToBits lo k.bits) k.signed
      let c2 := Arith.comparator bs k.signed (intToBits hi k.bits) k.signed
      some (!c1.1 && !c2.2, none)
    else none
  | _, _, _ => none

mutual
/-- `TypedPattern::compile` on a value of type `t` with wires `bs`: the match bit and the variables the pattern
binds (later ones first). A tuple pattern looks at the wires of each component and ANDs the bits. -/
def patG : Pat → Ty → List Bool → Option (Bool × BEnv)
  | .ident x, t, bs => some (true, [(x, VTy.ofTy t, bs)])
  | .tuple ps, .tuple ts, bs => patsG ps ts bs
  | .bool b, .bool, bs =>
    match patBits (.bool b) .bool bs with
    | some (m, _) => some (m, [])
    | none => none
  | .int n, .int k, bs =>
    match patBits (.int n) (.int k) bs with
    | some (m, _) => some (m, [])
    | none => none
  | .range lo hi, .int k, bs =>
    match patBits (.range lo hi) (.int k) bs with
    | some (m, _) => some (m, [])
    | none => none
  | .struct _ fps, .struct _ fs, bs => fieldsG fps fs bs
  /- an enum pattern compares the tag; a tuple variant then looks at the payload -/
  | .enumUnit _ v, .enum _ variants, bs =>
    match variants.find? v with
    | some (i, _, _) => some (Arith.eqBits (natToBits i variants.tagSize) (bs.take variants.tagSize), [])
    | none => none
  | .enumTuple _ v ps, .enum _ variants, bs =>
    match variants.find? v with
    | some (i, _, fts) =>
      match patsG ps fts (bs.drop variants.tagSize) with
      | some (m2, bb) => some (Arith.eqBits (natToBits i variants.tagSize) (bs.take variants.tagSize) && m2, bb)
      | none => none
    | none => none
  | _, _, _ => none
def fieldsG : FieldPats → Fields → List Bool → Option (Bool × BEnv)
  | .nil, _, _ => some (true, [])
  | .cons n p r, fs, bs =>
    match Fields.nth? fs n with
    | some (off, ti) =>
      match patG p ti ((bs.drop off).take ti.size), fieldsG r fs bs with
      | some (m1, b1), some (m2, b2) => some (m1 && m2, b2 ++ b1)
      | _, _ => none
    | none => none
def patsG : PatList → TyList → List Bool → Option (Bool × BEnv)
  | .nil, .nil, _ => some (true, [])
  | .cons p ps, .cons t ts, bs =>
    match patG p t (bs.take t.size), patsG ps ts (bs.drop t.size) with
    | some (m1, b1), some (m2, b2) => some (m1 && m2, b2 ++ b1)
    | _, _ => none
  | _, _, _ => none
end

mutual
/-- bindings and tuples of them: patterns that match whatever the value is -/
def Pat.total : Pat → Bool
  | .ident _ => true
  | .tuple ps => PatList.total ps
  | .struct _ fps => FieldPats.total fps
  | _ => false
def PatList.total : PatList → Bool
  | .nil => true
  | .cons p ps => Pat.total p && PatList.total ps
def FieldPats.total : FieldPats → Bool
  | .nil => true
  | .cons _ p ps => Pat.total p && FieldPats.total ps
end

/-- the pattern matches every value of the type (a binding, a tuple of bindings, or the reference procedure of C08
finds nothing uncovered): what `let` and `for` require of their patterns -/
def irrefutable (t : Ty) (p : Pat) : Bool := Pat.total p || (Src.uncovered t [p]).isNone

/-- the last arm binds or ignores the value: the match is exhaustive whatever the other arms are -/
def lastIsCatchAll : Arms → Bool
  | .nil => false
  | .cons (.ident _) _ .nil => true
  | .cons _ _ rest => lastIsCatchAll rest

/-- the patterns of the arms, in order -/
def armPats : Arms → List Pat
  | .nil => []
  | .cons p _ rest => p :: armPats rest

/-- the arms cover every value of the scrutinee's type: the last one binds or ignores the value, or the reference
procedure of C08 (`Src.uncovered`, proved exact) finds no uncovered value. The type checker accepts nothing else. -/
def matchCovers (ts : Ty) (arms : Arms) : Bool :=
  lastIsCatchAll arms || (Src.uncovered ts (armPats arms)).isNone

/-- the wires of `n` consecutive elements of `sz` bits -/
def chunks (sz : Nat) : Nat → List Bool → List (List Bool)
  | 0, _ => []
  | n + 1, bs => bs.take sz :: chunks sz n (bs.drop sz)

/-- `==` / `!=` on operands of an aggregate type: all wires are compared (`ra`: the compiled left operand, `rb`: the
right operand compiled from the variables the left one left) -/
def aggEq (op : Src.BinOp) (ty : Ty) (ra : Option (VTy × List Bool × P × BEnv))
    (rb : BEnv → Option (VTy × List Bool × P × BEnv)) : Option (VTy × List Bool × P × BEnv) :=
  if op = .eq ∨ op = .ne then
    match ra with
    | some (.agg ta, x, p1, env1) =>
      match rb env1 with
      | some (.agg tb, y, p2, env2) =>
        if ta = ty ∧ tb = ty then
          some (.s .bool, [if op = .eq then Arith.eqBits x y else !Arith.eqBits x y], seqP p1 p2, env2)
        else none
      | _ => none
    | _ => none
  else none

/-- an unrolled loop: `f` compiles the body for one element from the variables the previous iteration left; the
first panic wins, the bindings of an iteration end with it -/
def foldLoop (f : List Bool → BEnv → Option (P × BEnv)) : List (List Bool) → P × BEnv → Option (P × BEnv)
  | [], st => some st
  | el :: rest, (p, env) =>
    match f el env with
    | some (pb, envb) => foldLoop f rest (seqP p pb, restoreB env envb)
    | none => none

/-- the variables an arm is compiled with: the state after the scrutinee plus the pattern's bindings -/
def armEnv (bb : BEnv) (benv1 : BEnv) : BEnv := bb ++ benv1

/-- `env.pop()` after an arm: the pattern's bindings go out of scope -/
def armOut (bb : BEnv) (enve : BEnv) : BEnv := enve.drop bb.length

/-- state of the arm loop of `ExprEnum::Match`: `has_prev_match`, the muxed value (`none`: still the initial
zeros), the muxed panic (relative to the state after the scrutinee) and the muxed variables -/
abbrev ArmSt := Bool × Option (VTy × List Bool) × P × BEnv

/-- what a call returns for given argument bits: type, bits and the first panic raised in the callee (`none`: the
function is not part of the fragment) -/
abbrev CallFn := String → List (VTy × List Bool) → Option (VTy × List Bool × P)

/-- what the compilation of a function body needs to know about the rest of the program: how calls behave and
how the enums are defined (an enum literal names its type only) -/
structure Ctx where
  fn : CallFn
  enums : String → Option Variants

mutual
/-- type, bits, panic (the first one raised inside `e`, if any) and variables after an expression -/
def bitExpr (call : Ctx) (benv : BEnv) : Expr → Option (VTy × List Bool × P × BEnv)
  | .bool b => some (.s .bool, [b], none, benv)
  | .int n k => if k.inRange n then some (.s (.int k), intToBits n k.bits, none, benv) else none
  | .var x =>
    match benv.get? x with
    | some (t, bs) => some (t, bs, none, benv)
    | none => none
  | .un .not .bool a =>
    match bitExpr call benv a with
    | some (.s .bool, [b], p1, env1) => some (.s .bool, [!b], p1, env1)
    | _ => none
  /- `!` on an integer: one NOT gate per wire -/
  | .un .not (.int k) a =>
    match bitExpr call benv a with
    | some (.s (.int k'), bs, p1, env1) => if k' = k then some (.s (.int k), bs.map (!·), p1, env1) else none
    | _ => none
  | .un .neg (.int k) a =>
    if k.signed then
      match bitExpr call benv a with
      | some (.s (.int k'), bs, p1, env1) =>
        if k' = k then
          let r := Arith.negChecked bs
          some (.s (.int k), r.1, seqP p1 (if r.2 then some .overflow else none), env1)
        else none
      | _ => none
    else none
  /- `mux_panic(x, panic after y, panic before y)`, `mux_envs(x, env after y, env before y)`: the panics
  and the assignments of `y` count only if it runs -/
  | .bin .land _ a b =>
    match bitExpr call benv a with
    | some (.s .bool, [x], p1, env1) =>
      match bitExpr call env1 b with
      | some (.s .bool, [y], p2, env2) =>
        some (.s .bool, [x && y], seqP p1 (if x then p2 else none), muxEnv x env2 env1)
      | _ => none
    | _ => none
  | .bin .lor _ a b =>
    match bitExpr call benv a with
    | some (.s .bool, [x], p1, env1) =>
      match bitExpr call env1 b with
      | some (.s .bool, [y], p2, env2) =>
        some (.s .bool, [x || y], seqP p1 (if x then none else p2), muxEnv x env1 env2)
      | _ => none
    | _ => none
  /- `<<`, `>>`: the amount is a `u8`; overflow when it is not smaller than the width -/
  | .bin .shl ty a b =>
    match STy.ofTy ty with
    | some (.int k) =>
      match bitExpr call benv a with
      | some (.s (.int k'), x, p1, env1) =>
        match bitExpr call env1 b with
        | some (.s (.int .u8), y, p2, env2) =>
          if k' = k then
            let r := Arith.binop .shl k.signed false k.signed x y
            some (.s (.int k), r.1, seqP p1 (seqP p2 (firstOf r.2)), env2)
          else none
        | _ => none
      | _ => none
    | _ => none
  | .bin .shr ty a b =>
    match STy.ofTy ty with
    | some (.int k) =>
      match bitExpr call benv a with
      | some (.s (.int k'), x, p1, env1) =>
        match bitExpr call env1 b with
        | some (.s (.int .u8), y, p2, env2) =>
          if k' = k then
            let r := Arith.binop .shr k.signed false k.signed x y
            some (.s (.int k), r.1, seqP p1 (seqP p2 (firstOf r.2)), env2)
          else none
        | _ => none
      | _ => none
    | _ => none
  /- the strict operators. A multiplication with a small number literal as operand is compiled as repeated
  addition of the other operand (the left operand is looked at first) -/
  | .bin op ty a b =>
    match (if op = .mul then litFactor a else none), (if op = .mul then litFactor b else none) with
    | some (neg, n, k), _ => litMul neg n k ty (bitExpr call benv b)
    | none, some (neg, n, k) => litMul neg n k ty (bitExpr call benv a)
    | none, none =>
    match STy.ofTy ty with
    | none => aggEq op ty (bitExpr call benv a) (fun env1 => bitExpr call env1 b)
    | some t =>
      match bitExpr call benv a with
      | some (.s ta, x, p1, env1) =>
        match bitExpr call env1 b with
        | some (.s tb, y, p2, env2) =>
          if ta = t ∧ tb = t then
            match binBits op t x y with
            | some (tr, r, panics) => some (.s tr, r, seqP p1 (seqP p2 (firstOf panics)), env2)
            | none => none
          else none
        | _ => none
      | _ => none
  /- `as`: same width, truncation, or extension by the sign / zero of the source type; never a panic -/
  | .cast src dst a =>
    match STy.ofTy src, STy.ofTy dst with
    | some ts, some td =>
      match bitExpr call benv a with
      | some (.s ta, x, p1, env1) =>
        if ta = ts then some (.s td, Arith.cast x ts.signed td.bits, p1, env1) else none
      | _ => none
    | _, _ => none
  /- both branches are compiled from the environment the condition left; bits, panic and every
  variable are selected by the condition afterwards -/
  | .ite c t f =>
    match bitExpr call benv c with
    | some (.s .bool, [cb], pc, env1) =>
      match bitExpr call env1 t, bitExpr call env1 f with
      | some (tt, tb, pt, envT), some (tf, fb, pf, envF) =>
        if tt = tf then
          some (tt, (if cb then tb else fb), seqP pc (if cb then pt else pf), muxEnv cb envT envF)
        else none
      | _, _ => none
    | _ => none
  | .block ss =>
    match bitStmts call benv ss with
    | some (t, bs, p, env1) => some (t, bs, p, restoreB benv env1)
    | none => none
  /- `()` -/
  | .tuple .nil => some (.unit, [], none, benv)
  /- a tuple: the wires of its components one after the other -/
  | .tuple (.cons e es) =>
    match bitList call benv (.cons e es) with
    | some (vs, p, env1) =>
      some (.agg (.tuple (TyList.ofList (vs.map (·.1.toTy)))), vs.flatMap (·.2), p, env1)
    | none => none
  /- `t.i`: the wires of component `i` -/
  | .tupleGet a i =>
    match bitExpr call benv a with
    | some (.agg (.tuple ts), bs, p, env1) =>
      match TyList.nth? ts i with
      | some (off, ti) => some (VTy.ofTy ti, (bs.drop off).take ti.size, p, env1)
      | none => none
    | _ => none
  /- a struct literal: the wires of its fields in the order of the literal (the parser sorts them by name, as it
  sorts the definition) -/
  | .struct name fs =>
    match bitFields call benv fs with
    | some (vs, p, env1) =>
      some (.agg (.struct name (Fields.ofList (vs.map fun x => (x.1, x.2.1.toTy)))), vs.flatMap (·.2.2), p, env1)
    | none => none
  /- an enum literal: the tag of the variant, the wires of its fields, zeros up to the largest variant -/
  | .enumLit ename variant isUnit es =>
    match call.enums ename with
    | some variants =>
      match variants.find? variant with
      | some (i, u, fts) =>
        match bitList call benv es with
        | some (vs, p, env1) =>
          if u = isUnit ∧ vs.map (·.1) = fts.toList.map VTy.ofTy then
            let payload := vs.flatMap (·.2)
            some (.agg (.enum ename variants),
              natToBits i variants.tagSize ++ payload ++ List.replicate (variants.maxPayload - payload.length) false, p, env1)
          else none
        | none => none
      | none => none
    | none => none
  /- `s.f`: the wires of the field -/
  | .field a fname =>
    match bitExpr call benv a with
    | some (.agg (.struct _ fs), bs, p, env1) =>
      match Fields.nth? fs fname with
      | some (off, ti) => some (VTy.ofTy ti, (bs.drop off).take ti.size, p, env1)
      | none => none
    | _ => none
  /- an array literal: the wires of its elements (all of one type) one after the other -/
  | .array (.cons e es) =>
    match bitList call benv (.cons e es) with
    | some ((t, b) :: vs, p, env1) =>
      if vs.all (fun x => x.1 = t) then
        some (.agg (.array t.toTy (vs.length + 1)), b ++ vs.flatMap (·.2), p, env1)
      else none
    | _ => none
  /- `[e; n]`: the element is compiled once, its wires are repeated -/
  | .repeat_ a n =>
    match bitExpr call benv a with
    | some (t, bs, p, env1) => some (.agg (.array t.toTy n), (List.replicate n bs).flatten, p, env1)
    | none => none
  /- `lo..hi`: constants -/
  | .range lo hi k =>
    if hi ≤ lo ∨ (k.inRange (lo : Int) ∧ k.inRange ((hi : Int) - 1)) then
      some (.agg (.array (.int k) (hi - lo)),
        ((List.range (hi - lo)).map fun j => intToBits ((lo + j : Nat) : Int) k.bits).flatten, none, benv)
    else none
  /- `a[i]`: array, then index (a `usize`), then the mux tree over the elements (`Arith.indexMux`: one layer per index
  bit, what is left is one element) and the bounds check: an unsigned comparator of the index against the length.
  (Arrays of 2^32 elements or more are outside the model.) -/
  | .index a i =>
    match bitExpr call benv a with
    | some (.agg (.array te n), abits, pa, env1) =>
      match bitExpr call env1 i with
      | some (.s (.int .usize), ibits, pi, env2) =>
        if n < 2 ^ ibits.length then
          let sel := Arith.selected te.size (Arith.indexMux ibits (chunks te.size n abits))
          let inBounds := (Arith.comparator ibits false (natToBits n ibits.length) false).1
          some (VTy.ofTy te, sel, seqP pa (seqP pi (if inBounds then none else some .outOfBounds)), env2)
        else none
      | _ => none
    | _ => none
  /- `match` with arms that cover the type of the scrutinee: every arm is compiled from the state after the scrutinee; value,
  panic and variables of the first arm whose pattern matches are selected -/
  | .match_ scrut arms =>
    match bitExpr call benv scrut with
    | some (ts, sb, ps, env1) =>
      if matchCovers ts.toTy arms then
        match bitArms call env1 ts.toTy sb arms (false, none, none, env1) with
        | some (_, some (t, bs), pa, envF) => some (t, bs, seqP ps pa, envF)
        | _ => none
      else none
    | none => none
  /- a call: the arguments are compiled left to right in the caller's scope, the callee's body sees its parameters
  only; the caller goes on with the variables the arguments left -/
  | .call fn args =>
    match bitList call benv args with
    | some (vs, pargs, env1) =>
      match call.fn fn vs with
      | some (t, bs, pb) => some (t, bs, seqP pargs pb, env1)
      | none => none
    | none => none
  | _ => none
/-- argument lists: left to right, the first panic wins -/
def bitList (call : Ctx) (benv : BEnv) : ExprList → Option (List (VTy × List Bool) × P × BEnv)
  | .nil => some ([], none, benv)
  | .cons e rest =>
    match bitExpr call benv e with
    | some (t, bs, p1, env1) =>
      match bitList call env1 rest with
      | some (vs, p2, env2) => some ((t, bs) :: vs, seqP p1 p2, env2)
      | none => none
    | none => none
/-- the fields of a struct literal: left to right, the first panic wins -/
def bitFields (call : Ctx) (benv : BEnv) : FieldExprs → Option (List (String × VTy × List Bool) × P × BEnv)
  | .nil => some ([], none, benv)
  | .cons n e rest =>
    match bitExpr call benv e with
    | some (t, bs, p1, env1) =>
      match bitFields call env1 rest with
      | some (vs, p2, env2) => some ((n, t, bs) :: vs, seqP p1 p2, env2)
      | none => none
    | none => none
/-- the arm loop: `s = !has_prev_match && is_match` selects the arm -/
def bitArms (call : Ctx) (benv1 : BEnv) (ts : Ty) (scrut : List Bool) : Arms → ArmSt → Option ArmSt
  | .nil, st => some st
  | .cons p e rest, (hasPrev, ret, pacc, envAcc) =>
    match patG p ts scrut with
    | none => none
    | some (m, bb) =>
      match bitExpr call (armEnv bb benv1) e with
      | none => none
      | some (te, be, pe, enve) =>
        let envOut := armOut bb enve
        let s := !hasPrev && m
        match ret with
        | some (tr, rbits) =>
          if tr = te then
            bitArms call benv1 ts scrut rest
              (hasPrev || m, some (tr, if s then be else rbits), if s then pe else pacc, muxEnv s envOut envAcc)
          else none
        | none =>
          bitArms call benv1 ts scrut rest
            (hasPrev || m, some (te, if s then be else List.replicate be.length false), if s then pe else pacc,
              muxEnv s envOut envAcc)
/-- the value of a statement list is that of its last statement -/
def bitStmts (call : Ctx) (benv : BEnv) : StmtList → Option (VTy × List Bool × P × BEnv)
  | .nil => some (.unit, [], none, benv)
  | .cons s .nil => bitStmt call benv s
  | .cons s rest =>
    match bitStmt call benv s with
    | some (_, _, p1, env1) =>
      match bitStmts call env1 rest with
      | some (t2, bs2, p2, env2) => some (t2, bs2, seqP p1 p2, env2)
      | none => none
    | none => none
def bitStmt (call : Ctx) (benv : BEnv) : Stmt → Option (VTy × List Bool × P × BEnv)
  | .let_ (.ident x) e =>
    match bitExpr call benv e with
    | some (t, bs, p1, env1) => some (.unit, [], p1, (x, t, bs) :: env1)
    | none => none
  /- `let (a, (b, _)) = e;`: an irrefutable pattern binds the wires of the components (its match bit is not used) -/
  | .let_ (.tuple ps) e =>
    match bitExpr call benv e with
    | some (t, bs, p1, env1) =>
      if irrefutable t.toTy (.tuple ps) then
        match patG (.tuple ps) t.toTy bs with
        | some (_, bb) => some (.unit, [], p1, bb ++ env1)
        | none => none
      else none
    | none => none
  | .let_ (.struct sn fps) e =>
    match bitExpr call benv e with
    | some (t, bs, p1, env1) =>
      if irrefutable t.toTy (.struct sn fps) then
        match patG (.struct sn fps) t.toTy bs with
        | some (_, bb) => some (.unit, [], p1, bb ++ env1)
        | none => none
      else none
    | none => none
  | .let_ (.enumTuple en vn ps) e =>
    match bitExpr call benv e with
    | some (t, bs, p1, env1) =>
      if irrefutable t.toTy (.enumTuple en vn ps) then
        match patG (.enumTuple en vn ps) t.toTy bs with
        | some (_, bb) => some (.unit, [], p1, bb ++ env1)
        | none => none
      else none
    | none => none
  | .letMut x e =>
    match bitExpr call benv e with
    | some (t, bs, p1, env1) => some (.unit, [], p1, (x, t, bs) :: env1)
    | none => none
  /- `x = e`: the value is compiled first, then the innermost binding of `x` is replaced -/
  | .assign x .nil e =>
    match bitExpr call benv e with
    | some (t, bs, p1, env1) =>
      match env1.get? x with
      | some (t', _) => if t' = t then some (.unit, [], p1, env1.set x bs) else none
      | none => none
    | none => none
  /- `x.0[i] = e`: the value, then the wires of `x` as they are now, then the accessors from the outside in — each
  index expression followed by its bounds check — and the wires of the component replaced -/
  | .assign x (.index i rest) e =>
    match bitExpr call benv e with
    | some (t, bs, p1, env1) =>
      match env1.get? x with
      | some (tx, xbits) =>
        match bitUpd call env1 tx.toTy xbits t bs (.index i rest) with
        | some (xbits', p2, env2) => some (.unit, [], seqP p1 p2, env2.set x xbits')
        | none => none
      | none => none
    | none => none
  | .assign x (.tup i rest) e =>
    match bitExpr call benv e with
    | some (t, bs, p1, env1) =>
      match env1.get? x with
      | some (tx, xbits) =>
        match bitUpd call env1 tx.toTy xbits t bs (.tup i rest) with
        | some (xbits', p2, env2) => some (.unit, [], seqP p1 p2, env2.set x xbits')
        | none => none
      | none => none
    | none => none
  | .assign x (.fld f rest) e =>
    match bitExpr call benv e with
    | some (t, bs, p1, env1) =>
      match env1.get? x with
      | some (tx, xbits) =>
        match bitUpd call env1 tx.toTy xbits t bs (.fld f rest) with
        | some (xbits', p2, env2) => some (.unit, [], seqP p1 p2, env2.set x xbits')
        | none => none
      | none => none
    | none => none
  | .expr e => bitExpr call benv e
  /- `for x in arr { body }`: unrolled; every iteration is compiled from the variables the previous one left, with
  `x` bound to the element's wires for the duration of the body -/
  | .for_ pat arr body =>
    match bitExpr call benv arr with
    | some (.agg (.array te n), abits, pa, env1) =>
      if irrefutable te pat then
        match foldLoop (fun el env =>
            match patG pat te el with
            | some (_, bb) =>
              match bitStmts call (bb ++ env) body with
              | some (_, _, pb, envb) => some (pb, envb)
              | none => none
            | none => none) (chunks te.size n abits) (pa, env1) with
        | some (p, env2) => some (.unit, [], p, env2)
        | none => none
      else none
    | _ => none
  | _ => none
/-- the wires `cur` of a value of type `t` with the component at the end of the path replaced by `vb` (of type `vt`);
an index out of bounds panics (and no mux chain takes the new wires) -/
def bitUpd (call : Ctx) (benv : BEnv) (t : Ty) (cur : List Bool) (vt : VTy) (vb : List Bool) :
    Path → Option (List Bool × P × BEnv)
  | .nil => if VTy.ofTy t = vt then some (vb, none, benv) else none
  | .tup i rest =>
    match t with
    | .tuple ts =>
      match TyList.nth? ts i with
      | some (off, ti) =>
        match bitUpd call benv ti ((cur.drop off).take ti.size) vt vb rest with
        | some (sub, p, env1) => some (cur.take off ++ sub ++ cur.drop (off + ti.size), p, env1)
        | none => none
      | none => none
    | _ => none
  | .index ie rest =>
    match t with
    | .array te n =>
      match bitExpr call benv ie with
      | some (.s (.int .usize), ibits, pi, env1) =>
        if n < 2 ^ ibits.length then
          /- the element is read through the mux tree, updated, and every element is rewritten through its mux
          chain (`Arith.writeAll`: only the element whose number the index spells takes the new wires) -/
          let elems := chunks te.size n cur
          let sel := Arith.selected te.size (Arith.indexMux ibits elems)
          let inBounds := (Arith.comparator ibits false (natToBits n ibits.length) false).1
          match bitUpd call env1 te sel vt vb rest with
          | some (sub, p, env2) =>
            some ((Arith.writeAll ibits sub 0 elems).flatten,
              seqP pi (seqP (if inBounds then none else some .outOfBounds) p), env2)
          | none => none
        else none
      | _ => none
    | _ => none
  | .fld f rest =>
    match t with
    | .struct _ fs =>
      match Fields.nth? fs f with
      | some (off, ti) =>
        match bitUpd call benv ti ((cur.drop off).take ti.size) vt vb rest with
        | some (sub, p, env1) => some (cur.take off ++ sub ++ cur.drop (off + ti.size), p, env1)
        | none => none
      | none => none
    | _ => none
end

/-- the callee's scope: its parameters bound to the argument bits (types must agree), last parameter innermost -/
def bindParams : List (String × Ty) → List (VTy × List Bool) → Option BEnv
  | [], [] => some []
  | (x, ty) :: ps, (t, bs) :: as =>
    if VTy.ofTy ty = t then
      match bindParams ps as with
      | some env => some (env ++ [(x, t, bs)])
      | none => none
    else none
  | _, _ => none

/-- the constants of the program as variables of the outermost scope: bound to the encoding of their value in their
declared type (`none` if a value does not have its type or a type is missing) -/
def constEnvOf (tys : List (String × Ty)) : List (String × Val) → Option BEnv
  | [] => some []
  | (x, v) :: rest =>
    match tys.find? (·.1 == x), constEnvOf tys rest with
    | some (_, ty), some cb => if v.hasType ty then some ((x, VTy.ofTy ty, v.encode ty) :: cb) else none
    | _, _ => none

def constEnv (prog : Prog) : Option BEnv := constEnvOf prog.constTys prog.consts

/-- calls, inlined to depth `n` (Garble has no recursion: the call depth of a checked program is below the number of
its functions). The callee sees its parameters and the constants. -/
def callAt (prog : Prog) : Nat → CallFn
  | 0, _, _ => none
  | n + 1, fn, vs =>
    match prog.fn? fn with
    | none => none
    | some d =>
      match constEnv prog, bindParams d.params vs with
      | some cb, some callee =>
        match bitStmts ⟨callAt prog n, prog.enum?⟩ (callee ++ cb) d.body with
        | some (t, bs, p, _) => some (t, bs, p)
        | none => none
      | _, _ => none

/-- a function body with calls inlined as deep as the program can nest them -/
def bitBody (prog : Prog) (benv : BEnv) (body : StmtList) : Option (VTy × List Bool × P × BEnv) :=
  bitStmts ⟨callAt prog (prog.fns.length + 1), prog.enum?⟩ benv body

/-- the typing judgement the model of the compiler induces: the body of the function, compiled on all-zero wires
for its parameters (and the wires of the constants), is inside the model and yields wires of the declared return type -/
def fnTyped (prog : Prog) (d : FnDef) : Bool :=
  match constEnv prog with
  | none => false
  | some cb =>
    match bitBody prog ((d.params.map fun xt => (xt.1, VTy.ofTy xt.2, List.replicate xt.2.size false)).reverse ++ cb) d.body with
    | some (t, _, _, _) => t == VTy.ofTy d.ret
    | none => false

/-- every function of the program is typed -/
def progTyped (prog : Prog) : Bool := prog.fns.all (fnTyped prog)

end Bit
end GV
