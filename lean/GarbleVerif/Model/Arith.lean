/-!
# L4 — arithmetic circuits at the level of bit values

What the wiring of `circuit.rs:1047-1248` (adder, negation, subtraction, restoring division,
comparators) and `compile.rs:838-1103, 1180-1193, 1696-1710` (shifts, the array multiplier,
casts, `extend_to_bits`) computes, as functions on bit lists. Values are **big-endian**
lists (`x[0]` = most significant bit) exactly as in the Rust code; ripple computations run
from the last element to the first, so the helpers work on the reversed (LSB-first) list.
-/
namespace GV
namespace Arith

/-- `push_or` : `(x ^ y) ^ (x & y)` -/
def bOr (x y : Bool) : Bool := (x ^^ y) ^^ (x && y)

/-- `push_mux(s, x0, x1)` = if `s` then `x0` else `x1` -/
def mux (s x0 x1 : Bool) : Bool := x0 ^^ ((x0 ^^ x1) && !s)

/-- `push_adder` → (sum, carry) -/
def fullAdder (x y c : Bool) : Bool × Bool :=
  let u := x ^^ y
  let v := x && y
  let s := u ^^ c
  let w := u && c
  (s, bOr v w)

/-! ### LSB-first helpers -/

/-- ripple adder, LSB first: (sum bits, carry out) -/
def addLE : List Bool → List Bool → Bool → (List Bool × Bool)
  | x :: xs, y :: ys, c =>
    let r := fullAdder x y c
    let rest := addLE xs ys r.2
    (r.1 :: rest.1, rest.2)
  | _, _, c => ([], c)

/-- flip the bits and add one (`push_negation_circuit`), LSB first; `carry` starts at `true` -/
def negLE : List Bool → Bool → List Bool
  | [], _ => []
  | x :: xs, carry =>
    let nx := !x
    (carry ^^ nx) :: negLE xs (carry && nx)

/-! ### big-endian API (the Rust functions) -/

/-- `push_addition_circuit` → (sum, carry, carry_prev); `carry_prev` is the carry into the
most significant position -/
def add (x y : List Bool) : List Bool × Bool × Bool :=
  let xr := x.reverse
  let yr := y.reverse
  let r := addLE xr yr false
  let prev := (addLE xr.dropLast yr.dropLast false).2
  (r.1.reverse, if x.isEmpty then false else r.2, if x.isEmpty then false else prev)

/-- `push_negation_circuit` -/
def neg (x : List Bool) : List Bool := (negLE x.reverse true).reverse

/-- `push_subtraction_circuit(x, y, is_signed)` → (difference, overflow) -/
def sub (x y : List Bool) (signed : Bool) : List Bool × Bool :=
  let xe := (if signed then x.headD false else false) :: x
  let ye := (if signed then y.headD false else false) :: y
  let sumE := (add xe (neg ye)).1
  let sign := sumE.headD false
  let sum := sumE.tail
  (sum, if signed then sign ^^ sum.headD false else sign)

/-- one step of the restoring divider (`push_unsigned_division_circuit`), `s` = shift amount -/
def udivStep (y : List Bool) (st : List Bool × List Bool) (s : Nat) : List Bool × List Bool :=
  let (quotient, remainder) := st
  let bits := y.length
  let overflow := (y.take s).foldl bOr false
  let yShifted := y.drop s ++ List.replicate s false
  let (xSub, carry) := sub remainder yShifted false
  let keep := bOr carry overflow
  let remainder' := (remainder.zip xSub).map fun (r, d) => mux keep r d
  let qbit := mux overflow false (!carry)
  (quotient.set (bits - s - 1) qbit, remainder')

/-- `push_unsigned_division_circuit` → (quotient, remainder) -/
def udiv (x y : List Bool) : List Bool × List Bool :=
  let bits := x.length
  (List.range bits).reverse.foldl (udivStep y) (List.replicate bits false, x)

/-- `push_signed_division_circuit` → (quotient, remainder) -/
def sdiv (x y : List Bool) : List Bool × List Bool :=
  let isResultNeg := x.headD false ^^ y.headD false
  let xs := x.headD false
  let ys := y.headD false
  let xa := (neg x).zip x |>.map fun (n, v) => mux xs n v
  let ya := (neg y).zip y |>.map fun (n, v) => mux ys n v
  let (q, r) := udiv xa ya
  let q' := (neg q).zip q |>.map fun (n, v) => mux isResultNeg n v
  let r' := (neg r).zip r |>.map fun (n, v) => mux xs n v
  (q', r')

/-- `push_comparator_circuit` → (lt, gt) -/
def comparator (x : List Bool) (xSigned : Bool) (y : List Bool) (ySigned : Bool) : Bool × Bool :=
  let rec go (i : Nat) (xs ys : List Bool) (accGt accLt : Bool) : Bool × Bool :=
    match xs, ys with
    | a :: xs, b :: ys =>
      let xo := a ^^ b
      let xa := xo && a
      let ya := xo && b
      let (gt, lt) := if i == 0 && (xSigned || ySigned) then (ya, xa) else (xa, ya)
      let gt := bOr gt accGt
      let lt := bOr lt accLt
      go (i + 1) xs ys (gt && !accLt) (lt && !accGt)
    | _, _ => (accLt, accGt)
  go 0 x y false false

/-- `push_gt_circuit(bits, x, y)` (unsigned `x > y`), scanning from the last bit -/
def gt (x y : List Bool) : Bool :=
  ((x.zip y).reverse).foldl (fun carry (a, b) =>
    let xc := a ^^ carry
    let yc := b ^^ carry
    ((xc && !yc) ^^ carry)) false

/-- `extend_to_bits(v, ty, bits)` -/
def extendToBits (v : List Bool) (signed : Bool) (bits : Nat) : List Bool :=
  if v.isEmpty then List.replicate bits false
  else if v.length == bits then v
  else List.replicate (bits - v.length) (if signed then v.headD false else false) ++ v

/-- `ExprEnum::Cast` -/
def cast (v : List Bool) (fromSigned : Bool) (toBits : Nat) : List Bool :=
  if toBits == v.length then v
  else if toBits < v.length then v.drop (v.length - toBits)
  else extendToBits v fromSigned toBits

/-- one layer of the barrel shifter: shift by `shift` positions if `s` -/
def shiftLayer (left : Bool) (fill : Bool) (bits : List Bool) (shift : Nat) (s : Bool) : List Bool :=
  let n := bits.length
  (List.range n).map fun i =>
    let unshifted := bits.getD i false
    let shifted :=
      if left then (if i + shift ≥ n then false else bits.getD (i + shift) false)
      else if i < shift then fill else bits.getD (i - shift) false
    mux s shifted unshifted

/-- `Op::ShiftLeft | Op::ShiftRight`: `y` are the 8 bits of the amount → (result, overflow) -/
def shift (left : Bool) (xSigned : Bool) (x y : List Bool) : List Bool × Bool :=
  let fill := if xSigned && !left then x.headD false else false
  let res := (List.range 8).reverse.foldl
    (fun (acc : List Bool × Nat) layer =>
      (shiftLayer left fill acc.1 acc.2 (y.getD layer false), acc.2 * 2)) (x, 1)
  let maxFilled := match x.length with | 8 => 3 | 16 => 4 | 32 => 5 | 64 => 6 | _ => 0
  let overflow := (y.take (8 - maxFilled)).foldl bOr false
  (res.1, overflow)

/-- state between rows of the array multiplier (compile.rs:991-1018): `s ++ [c]` is the current
row (LSB first), `lo` the result bits that are already final (LSB first) -/
structure MulSt where
  s : List Bool
  c : Bool
  lo : List Bool

/-- one row: partial product `xb·Y` plus the previous row shifted right by one -/
def mulRow (ys : List Bool) (st : MulSt) (xb : Bool) : MulSt :=
  let z := st.s.tail ++ [st.c]
  let r := addLE (ys.map (xb && ·)) z false
  { s := r.1, c := r.2, lo := st.lo ++ [st.s.headD false] }

/-- the first row has `z = 0` and nothing to emit -/
def mulRow0 (ys : List Bool) (xb : Bool) : MulSt :=
  let r := addLE (ys.map (xb && ·)) (ys.map (fun _ => false)) false
  { s := r.1, c := r.2, lo := [] }

def mulRows (ys : List Bool) : List Bool → MulSt → MulSt
  | [], st => st
  | xb :: xs, st => mulRows ys xs (mulRow ys st xb)

/-- all `2n` bits the multiplier array computes, LSB first -/
def mulFull (xs ys : List Bool) : List Bool :=
  match xs with
  | [] => []
  | x0 :: xr =>
    let st := mulRows ys xr (mulRow0 ys x0)
    st.lo ++ st.s ++ [st.c]

/-- unsigned multiplier, LSB first: the low `n` bits are the result, the OR of the high `n`
bits (`carries[0][0]` and `sums[0][j]`, `j ≠ lsb`) is the overflow flag -/
def mulLE (xs ys : List Bool) : List Bool × Bool :=
  let full := mulFull xs ys
  (full.take xs.length, (full.drop xs.length).foldl bOr false)

/-- `Op::Mul` → (result, overflow) -/
def mul (x y : List Bool) (signed : Bool) : List Bool × Bool :=
  if signed then
    let xn := x.headD false
    let yn := y.headD false
    let xa := (neg x).zip x |>.map fun (n, v) => mux xn n v
    let ya := (neg y).zip y |>.map fun (n, v) => mux yn n v
    let isNeg := xn ^^ yn
    let (lo, ovf) := mulLE xa.reverse ya.reverse
    let result := lo.reverse
    let allZeroExceptMsb := result.tail.foldl (fun acc w => acc && !w) true
    -- a magnitude of exactly 2^(bits-1) is representable only as the (negative) minimum value
    let tooLarge := result.headD false && !(allZeroExceptMsb && isNeg)
    let ovf := bOr ovf tooLarge
    ((neg result).zip result |>.map fun (n, v) => mux isNeg n v, ovf)
  else
    let (lo, ovf) := mulLE x.reverse y.reverse
    (lo.reverse, ovf)

/-- `Op::Eq` on two equally long encodings -/
def eqBits (x y : List Bool) : Bool :=
  (x.zip y).foldl (fun acc (a, b) => acc && ((a ^^ b) ^^ true)) true

/-- `x` is the minimum value: sign bit set, all others clear -/
def isMin (x : List Bool) : Bool := x.tail.foldl (fun acc w => acc && !w) (x.headD false)

def allOnes (y : List Bool) : Bool := y.foldl (fun acc w => acc && w) true

def allZero (y : List Bool) : Bool :=
  y.foldl (fun acc b => acc && ((b ^^ false) ^^ true)) true

/-- `UnaryOp::Neg` with its overflow check (negating the minimum value) -/
def negChecked (x : List Bool) : List Bool × Bool :=
  let n := neg x
  (n, x.headD false && n.headD false)

/-- `Op::Mul` with a literal operand `0 < |n| < width`: the other operand is added `n` times
(each addition checked), negated first when the literal is negative -/
def constMul (y : List Bool) (signed : Bool) (n : Nat) (isNeg : Bool) : List Bool × Bool :=
  let r := (List.range (n - 1)).foldl (fun (acc : List Bool × Bool) _ =>
    let (sum, carry, prev) := add acc.1 y
    (sum, acc.2 || (if signed then carry ^^ prev else carry))) (y, false)
  if isNeg then
    let nr := negChecked r.1
    (nr.1, r.2 || nr.2)
  else r

inductive BinOp where
  | add | sub | mul | div | mod | bitAnd | bitXor | bitOr | gt | lt | eq | ne | shl | shr
deriving DecidableEq, Repr, Inhabited

inductive PanicKind where
  | overflow | divByZero | outOfBounds
deriving DecidableEq, Repr, Inhabited

/-! ### array access (`ExprEnum::ArrayAccess`, `StmtEnum::VarAssign`) -/

/-- one layer of the mux tree of an array read: neighbouring elements are paired and the index bit `s` selects one
of each pair; an element without a partner is paired with constant ones -/
def muxLayer (s : Bool) : List (List Bool) → List (List Bool)
  | [] => []
  | [a0] => [a0.map fun b => mux s true b]
  | a0 :: a1 :: rest => List.zipWith (fun x0 x1 => mux s x1 x0) a0 a1 :: muxLayer s rest

/-- the whole tree: one layer per index bit, from the least significant bit upward; what is left is one element -/
def indexMux (idx : List Bool) (elems : List (List Bool)) : List (List Bool) :=
  idx.reverse.foldl (fun arr s => muxLayer s arr) elems

/-- what is left after the last layer (zeros for an array without elements) -/
def selected (sz : Nat) : List (List Bool) → List Bool
  | el :: _ => el
  | [] => List.replicate sz false

/-- the low `size` bits of `n`, most significant first (the compile-time number of an array element) -/
def bitsOf (n : Nat) : Nat → List Bool
  | 0 => []
  | size + 1 => (n / 2 ^ size % 2 == 1) :: bitsOf n size

/-- one wire of element `i` after an array write: a chain of muxes over the index bits keeps the new wire `v` only
if every bit of the index equals the corresponding bit of `i` -/
def writeBit (idx : List Bool) (i : Nat) (old v : Bool) : Bool :=
  (idx.zip (bitsOf i idx.length)).foldl (fun x1 ab => mux (if ab.2 then !ab.1 else ab.1) old x1) v

/-- all elements after a write of `sub` at the index: element `i`, `i + 1`, … -/
def writeAll (idx : List Bool) (sub : List Bool) : Nat → List (List Bool) → List (List Bool)
  | _, [] => []
  | i, old :: rest => List.zipWith (writeBit idx i) old sub :: writeAll idx sub (i + 1) rest

/-- `ExprEnum::Op(op, x, y)` on the operand bits (after compiling both operands): result bits and
the condition/kind of the panic the operator may raise. `sx`/`sy`/`sr`: signedness of the operand
types and of the result type. -/
def binop (op : BinOp) (sx sy sr : Bool) (x y : List Bool) : List Bool × List (Bool × PanicKind) :=
  match op with
  | .shl => let r := shift true sx x y; (r.1, [(r.2, .overflow)])
  | .shr => let r := shift false sx x y; (r.1, [(r.2, .overflow)])
  | _ =>
    let bits := max x.length y.length
    let x := extendToBits x sx bits
    let y := extendToBits y sy bits
    match op with
    | .bitAnd => ((x.zip y).map fun (a, b) => a && b, [])
    | .bitXor => ((x.zip y).map fun (a, b) => a ^^ b, [])
    | .bitOr => ((x.zip y).map fun (a, b) => bOr a b, [])
    | .sub => let r := sub x y sr; (r.1, [(r.2, .overflow)])
    | .add =>
      let (sum, carry, prev) := add x y
      (sum, [(if sx || sy then carry ^^ prev else carry, .overflow)])
    | .mul => let r := mul x y sr; (r.1, [(r.2, .overflow)])
    | .div =>
      if sr then ((sdiv x y).1, [(allZero y, .divByZero), (isMin x && allOnes y, .overflow)])
      else ((udiv x y).1, [(allZero y, .divByZero)])
    | .mod => ((if sr then sdiv x y else udiv x y).2, [(allZero y, .divByZero)])
    | .gt => ([(comparator x sx y sy).2], [])
    | .lt => ([(comparator x sx y sy).1], [])
    | .eq => ([eqBits x y], [])
    | .ne => ([!eqBits x y], [])
    | .shl | .shr => (x, [])

end Arith
end GV
