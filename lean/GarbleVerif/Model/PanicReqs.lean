import GarbleVerif.Model.Requests
/-!
# Panic-record request sequences (C02, builder level)

Gate requests (as in `Model/Requests`) interleaved with the operations `compile.rs` performs on
the panic record: `push_panic_if`, cloning the record (`snapshot`), `replace_panic_with`
(`restore`), `mux_panic`.
-/
namespace GV
open Builder (PanicSt)

inductive PReq where
  | gate (r : Req)
  | panicIf (cond reason l0 c0 l1 c1 : Nat)     -- `cond` is a handle
  | snapshot                                     -- snaps.push(current)
  | restore (k : Nat)                            -- old := replace_panic_with(snaps[k]); snaps.push(old)
  | mux (cond kt kf : Nat)                       -- snaps.push(mux_panic(cond, snaps[kt], snaps[kf]))
  | installMux (cond kt kf : Nat)                -- replace_panic_with(mux_panic(cond, snaps[kt], snaps[kf]))
deriving Inhabited

structure PState where
  b : Builder
  rs : List Nat
  cur : PanicSt
  snaps : List PanicSt

namespace PReq

def step (st : PState) : PReq → PState
  | .gate r => let (b, rs) := Req.step (st.b, st.rs) r; { st with b := b, rs := rs }
  | .panicIf cond reason l0 c0 l1 c1 =>
    match st.rs[cond]? with
    | some c => let (b, p) := st.b.pushPanicIf st.cur c reason l0 c0 l1 c1; { st with b := b, cur := p }
    | none => st
  | .snapshot => { st with snaps := st.snaps ++ [st.cur] }
  | .restore k =>
    match st.snaps[k]? with
    | some p => { st with cur := p, snaps := st.snaps ++ [st.cur] }
    | none => st
  | .mux cond kt kf =>
    match st.rs[cond]?, st.snaps[kt]?, st.snaps[kf]? with
    | some c, some t, some f => let (b, p) := st.b.muxPanic c t f; { st with b := b, snaps := st.snaps ++ [p] }
    | _, _, _ => st
  | .installMux cond kt kf =>
    match st.rs[cond]?, st.snaps[kt]?, st.snaps[kf]? with
    | some c, some t, some f => let (b, p) := st.b.muxPanic c t f; { st with b := b, cur := p }
    | _, _, _ => st

def run (inputGates : List Nat) (cacheOn : Bool) (reqs : List PReq) : PState :=
  reqs.foldl step { b := Builder.new inputGates cacheOn, rs := Req.initResults inputGates,
                    cur := PanicSt.ok, snaps := [] }

def compile (inputGates : List Nat) (cacheOn : Bool) (reqs : List PReq) (outs : List Nat) : Circuit :=
  let st := run inputGates cacheOn reqs
  st.b.build inputGates st.cur.wires (outs.filterMap (st.rs[·]?))

end PReq
end GV
