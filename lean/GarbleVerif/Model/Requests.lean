import GarbleVerif.Model.Builder
/-!
# Builder request sequences (C04)

A request names its operands by *handle*: an index into the list of results so far, which
starts as `[const false, const true, input 0, input 1, …]`; every request appends its
result wire(s) (`adder` appends sum and carry). A request with a handle that does not exist
is skipped. `run` executes the requests on the model of the real builder, `literal` executes
the same requests on Boolean values with no simplification at all.
-/
namespace GV

inductive Req where
  | xor (x y : Nat)
  | and (x y : Nat)
  | not (x : Nat)
  | or (x y : Nat)
  | eq (x y : Nat)
  | mux (s x0 x1 : Nat)
  | adder (x y c : Nat)
deriving DecidableEq, Repr, Inhabited

namespace Req

/-- one request on the builder; `rs` = result wires so far -/
def step (st : Builder × List Nat) (r : Req) : Builder × List Nat :=
  let (b, rs) := st
  match r with
  | .xor x y => match rs[x]?, rs[y]? with
    | some x, some y => let (w, b) := b.xor x y; (b, rs ++ [w])
    | _, _ => st
  | .and x y => match rs[x]?, rs[y]? with
    | some x, some y => let (w, b) := b.and x y; (b, rs ++ [w])
    | _, _ => st
  | .not x => match rs[x]? with
    | some x => let (w, b) := b.not x; (b, rs ++ [w])
    | _ => st
  | .or x y => match rs[x]?, rs[y]? with
    | some x, some y => let (w, b) := b.or x y; (b, rs ++ [w])
    | _, _ => st
  | .eq x y => match rs[x]?, rs[y]? with
    | some x, some y => let (w, b) := b.eq x y; (b, rs ++ [w])
    | _, _ => st
  | .mux s x0 x1 => match rs[s]?, rs[x0]?, rs[x1]? with
    | some s, some x0, some x1 => let (w, b) := b.mux s x0 x1; (b, rs ++ [w])
    | _, _, _ => st
  | .adder x y c => match rs[x]?, rs[y]?, rs[c]? with
    | some x, some y, some c => let ((s, c'), b) := b.adder x y c; (b, rs ++ [s, c'])
    | _, _, _ => st

def initResults (inputGates : List Nat) : List Nat := List.range (inputGates.sum + 2)

def run (inputGates : List Nat) (cacheOn : Bool) (reqs : List Req) : Builder × List Nat :=
  reqs.foldl step (Builder.new inputGates cacheOn, initResults inputGates)

/-- the same request on plain Boolean values, no simplification -/
def litStep (vs : List Bool) (r : Req) : List Bool :=
  match r with
  | .xor x y => match vs[x]?, vs[y]? with
    | some x, some y => vs ++ [x ^^ y]
    | _, _ => vs
  | .and x y => match vs[x]?, vs[y]? with
    | some x, some y => vs ++ [x && y]
    | _, _ => vs
  | .not x => match vs[x]? with
    | some x => vs ++ [!x]
    | _ => vs
  | .or x y => match vs[x]?, vs[y]? with
    | some x, some y => vs ++ [x || y]
    | _, _ => vs
  | .eq x y => match vs[x]?, vs[y]? with
    | some x, some y => vs ++ [x == y]
    | _, _ => vs
  | .mux s x0 x1 => match vs[s]?, vs[x0]?, vs[x1]? with
    | some s, some x0, some x1 => vs ++ [if s then x0 else x1]
    | _, _, _ => vs
  | .adder x y c => match vs[x]?, vs[y]?, vs[c]? with
    | some x, some y, some c => vs ++ [(x ^^ y) ^^ c, (x && y) || ((x ^^ y) && c)]
    | _, _, _ => vs

/-- values of all results when the requests are executed literally on input bits `inp` -/
def literal (reqs : List Req) (inp : List Bool) : List Bool :=
  reqs.foldl litStep (false :: true :: inp)

/-- wires of `PanicResult::ok()`: flag 0, reason = Overflow (=1) in 32 bits, location zero -/
def okPanicWires : List Nat :=
  0 :: (List.replicate 31 0 ++ [1]) ++ List.replicate 128 0

def okPanicBits : List Bool :=
  false :: (List.replicate 31 false ++ [true]) ++ List.replicate 128 false

/-- compile a request sequence to a circuit whose outputs are the results named by `outs` -/
def compile (inputGates : List Nat) (cacheOn : Bool) (reqs : List Req) (outs : List Nat) : Circuit :=
  let (b, rs) := run inputGates cacheOn reqs
  b.build inputGates okPanicWires (outs.filterMap (rs[·]?))

end Req
end GV
