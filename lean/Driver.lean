import Driver.Circ
import Driver.BuilderOps
import Driver.ArithOps
import Driver.TypesCodec
import Driver.BristolOps
import Driver.ScanOps
import Driver.AstCodec
/-! gvdriver — the model side of the correspondence checks: one JSON case per line on stdin,
one JSON result per line on stdout. Imports models only (no proofs, no Mathlib). -/
open Lean GVD

def handle (case : Json) : Json :=
  match getStr (field case "op") with
  | "ssa_validate_eval" => ssaValidateEval case
  | "reg_validate_eval" => regValidateEval case
  | "builder_run" => builderRun case
  | "panic_run" => panicRun case
  | "convert" => convertOp case
  | "arith" => arithOp case
  | "literal_check" => literalCheck case
  | "bristol_export" => bristolExport case
  | "bristol_import" => bristolImport case
  | "scan" => scanOp case
  | "render" => renderOp case
  | "src_eval" => srcEval case
  | "match_oracle" => matchOracle case
  | "bit_eval" => bitEval case
  | "bit_check" => bitCheck case
  | op => Json.mkObj [("error", s!"unknown op {op}")]

partial def loop (h : IO.FS.Stream) (out : IO.FS.Stream) : IO Unit := do
  let line ← h.getLine
  if line.isEmpty then return ()
  if line.trimAscii.toString.isEmpty then loop h out else
  let res := match Json.parse line with
    | .error e => Json.mkObj [("error", s!"bad json: {e}")]
    | .ok case =>
      let r := handle case
      match case.getObjVal? "id" with
      | .ok id => r.setObjVal! "id" id
      | .error _ => r
  out.putStrLn res.compress
  loop h out

def main : IO Unit := do
  let out ← IO.getStdout
  loop (← IO.getStdin) out
  out.flush
