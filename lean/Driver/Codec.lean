import Lean.Data.Json
import GarbleVerif.Model.Ssa
import GarbleVerif.Model.Reg
/-! JSON ↔ model values (the same canonical encodings as `harness/src/util.rs`). -/
open Lean

namespace GVD

def bitsToString (bs : List Bool) : String := String.ofList (bs.map fun b => if b then '1' else '0')
def stringToBits (s : String) : List Bool := s.toList.map (· == '1')

def getNat (j : Json) : Nat := (j.getNat?).toOption.getD 0
def getStr (j : Json) : String := (j.getStr?).toOption.getD ""
def getArr (j : Json) : List Json := ((j.getArr?).toOption.getD #[]).toList
def field (j : Json) (k : String) : Json := (j.getObjVal? k).toOption.getD Json.null
def natList (j : Json) : List Nat := (getArr j).map getNat
def idx (j : Json) (i : Nat) : Json := (getArr j).getD i Json.null

def inputsOf (j : Json) : List (List Bool) := (getArr j).map fun s => stringToBits (getStr s)

def ssaFromJson (j : Json) : GV.Circuit :=
  { inputGates := natList (field j "input_gates")
    gates := (getArr (field j "gates")).map fun g =>
      let a := getNat (idx g 1); let b := getNat (idx g 2)
      match getStr (idx g 0) with
      | "X" => .xor a b
      | "A" => .and a b
      | _ => .not a
    outputGates := natList (field j "output_gates") }

def ssaToJson (c : GV.Circuit) : Json :=
  Json.mkObj [
    ("input_gates", toJson c.inputGates),
    ("gates", Json.arr (c.gates.map fun g => match g with
      | .xor a b => Json.arr #["X", toJson a, toJson b]
      | .and a b => Json.arr #["A", toJson a, toJson b]
      | .not a => Json.arr #["N", toJson a]).toArray),
    ("output_gates", toJson c.outputGates)]

def regFromJson (j : Json) : GV.Reg.RCircuit :=
  { inputRegs := natList (field j "input_regs")
    insts := (getArr (field j "insts")).map fun i =>
      let a := getNat (idx i 2); let b := getNat (idx i 3)
      { out := getNat (idx i 0)
        op := match getStr (idx i 1) with
          | "X" => .xor a b
          | "A" => .and a b
          | "N" => .not a
          | _ => .input a b }
    maxRegCount := getNat (field j "max_reg_count")
    outputRegs := natList (field j "output_regs")
    andOps := getNat (field j "and_ops") }

def regToJson (c : GV.Reg.RCircuit) : Json :=
  Json.mkObj [
    ("input_regs", toJson c.inputRegs),
    ("insts", Json.arr (c.insts.map fun i => match i.op with
      | .xor a b => Json.arr #[toJson i.out, "X", toJson a, toJson b]
      | .and a b => Json.arr #[toJson i.out, "A", toJson a, toJson b]
      | .not a => Json.arr #[toJson i.out, "N", toJson a]
      | .input p k => Json.arr #[toJson i.out, "I", toJson p, toJson k]).toArray),
    ("max_reg_count", toJson c.maxRegCount),
    ("output_regs", toJson c.outputRegs),
    ("and_ops", toJson c.andOps)]

def ssaErr : GV.CircuitError → String
  | .invalidGate i => s!"InvalidGate:{i}"
  | .invalidOutput o => s!"InvalidOutput:{o}"
  | .emptyInputs => "EmptyInputs"
  | .emptyOutputs => "EmptyOutputs"
  | .maxCircuitSizeExceeded => "MaxCircuitSizeExceeded"

def regErr : GV.Reg.RError → String
  | .emptyInputs => "EmptyInputs"
  | .invalidInst i => s!"InvalidInst:{i}"
  | .emptyOutputs => "EmptyOutputs"
  | .invalidOutput r => s!"InvalidOutput:{r}"
  | .maxCircuitSizeExceeded => "MaxCircuitSizeExceeded"
  | .invalidRegAccess i r => s!"InvalidRegAccess:{i}:{r}"
  | .invalidInput i => s!"InvalidInput:{i}"

end GVD
