import Driver.TypesCodec
import GarbleVerif.Model.SrcSem
import GarbleVerif.Model.MatchSpec
import GarbleVerif.Model.BitSem
open Lean
namespace GVD
open GV GV.Src

/-! JSON ⇄ values and programs (format: tools/gv/gen_prog.py) -/

partial def valFromJson (j : Json) : Val :=
  match j with
  | .bool b => .bool b
  | .num _ => .int (getInt j)
  | _ =>
    match (j.getObjVal? "a").toOption with
    | some a => .array (ValList.ofList ((getArr a).map valFromJson))
    | none =>
    match (j.getObjVal? "t").toOption with
    | some t => .tuple (ValList.ofList ((getArr t).map valFromJson))
    | none =>
    match (j.getObjVal? "s").toOption with
    | some s => .struct (getStr s) (FieldVals.ofList ((getArr (field j "f")).map fun f => (getStr (idx f 0), valFromJson (idx f 1))))
    | none =>
      .enum (getStr (field j "e")) (getStr (field j "v")) ((field j "u").getBool?.toOption.getD false)
        (ValList.ofList ((getArr (field j "f")).map valFromJson))

mutual
partial def valToJson : Val → Json
  | .bool b => Json.bool b
  | .int i => toJson i
  | .array vs => Json.mkObj [("a", Json.arr (valsToJson vs).toArray)]
  | .tuple vs => Json.mkObj [("t", Json.arr (valsToJson vs).toArray)]
  | .struct n fs => Json.mkObj [("s", n), ("f", Json.arr (fieldValsToJson fs).toArray)]
  | .enum e v u fs => Json.mkObj [("e", e), ("v", v), ("u", u), ("f", Json.arr (valsToJson fs).toArray)]
partial def valsToJson : ValList → List Json
  | .nil => []
  | .cons v r => valToJson v :: valsToJson r
partial def fieldValsToJson : FieldVals → List Json
  | .nil => []
  | .cons n v r => Json.arr #[n, valToJson v] :: fieldValsToJson r
end

def unOpOf : String → UnOp
  | "neg" => .neg
  | _ => .not

def binOpOf : String → BinOp
  | "+" => .add | "-" => .sub | "*" => .mul | "/" => .div | "%" => .rem
  | "&" => .band | "|" => .bor | "^" => .bxor | "<<" => .shl | ">>" => .shr
  | "==" => .eq | "!=" => .ne | "<" => .lt | "<=" => .le | ">" => .gt | ">=" => .ge
  | "&&" => .land | _ => .lor

partial def patFromJson (j : Json) : Pat :=
  match getStr (idx j 0) with
  | "id" => .ident (getStr (idx j 1))
  | "bool" => .bool ((idx j 1).getBool?.toOption.getD false)
  | "int" => .int (getInt (idx j 1))
  | "range" => .range (getInt (idx j 1)) (getInt (idx j 2))
  | "tuple" => .tuple (PatList.ofList ((getArr (idx j 1)).map patFromJson))
  | "struct" => .struct (getStr (idx j 1))
      (FieldPats.ofList ((getArr (idx j 2)).map fun f => (getStr (idx f 0), patFromJson (idx f 1))))
  | "eunit" => .enumUnit (getStr (idx j 1)) (getStr (idx j 2))
  | _ => .enumTuple (getStr (idx j 1)) (getStr (idx j 2)) (PatList.ofList ((getArr (idx j 3)).map patFromJson))

mutual
partial def exprFromJson (j : Json) : Expr :=
  match getStr (idx j 0) with
  | "bool" => .bool ((idx j 1).getBool?.toOption.getD false)
  | "int" => .int (getInt (idx j 1)) (intTyOf (getStr (idx j 2)))
  | "var" => .var (getStr (idx j 1))
  | "un" => .un (unOpOf (getStr (idx j 1))) (tyFromJson (idx j 2)) (exprFromJson (idx j 3))
  | "bin" => .bin (binOpOf (getStr (idx j 1))) (tyFromJson (idx j 2)) (exprFromJson (idx j 3)) (exprFromJson (idx j 4))
  | "cast" => .cast (tyFromJson (idx j 1)) (tyFromJson (idx j 2)) (exprFromJson (idx j 3))
  | "if" => .ite (exprFromJson (idx j 1)) (exprFromJson (idx j 2)) (exprFromJson (idx j 3))
  | "block" => .block (stmtsFromJson (idx j 1))
  | "tuple" => .tuple (exprsFromJson (idx j 1))
  | "tget" => .tupleGet (exprFromJson (idx j 1)) (getNat (idx j 2))
  | "array" => .array (exprsFromJson (idx j 1))
  | "repeat" => .repeat_ (exprFromJson (idx j 1)) (getNat (idx j 2))
  | "index" => .index (exprFromJson (idx j 1)) (exprFromJson (idx j 2))
  | "range" => .range (getNat (idx j 1)) (getNat (idx j 2)) (intTyOf (getStr (idx j 3)))
  | "struct" => .struct (getStr (idx j 1))
      (FieldExprs.ofList ((getArr (idx j 2)).map fun f => (getStr (idx f 0), exprFromJson (idx f 1))))
  | "field" => .field (exprFromJson (idx j 1)) (getStr (idx j 2))
  | "enum" => .enumLit (getStr (idx j 1)) (getStr (idx j 2)) ((idx j 3).getBool?.toOption.getD false) (exprsFromJson (idx j 4))
  | "match" => .match_ (exprFromJson (idx j 1))
      (Arms.ofList ((getArr (idx j 2)).map fun a => (patFromJson (idx a 0), exprFromJson (idx a 1))))
  | _ => .call (getStr (idx j 1)) (exprsFromJson (idx j 2))
partial def exprsFromJson (j : Json) : ExprList := ExprList.ofList ((getArr j).map exprFromJson)
partial def pathFromJson (steps : List Json) : Path :=
  match steps with
  | [] => .nil
  | s :: rest =>
    match getStr (idx s 0) with
    | "i" => .index (exprFromJson (idx s 1)) (pathFromJson rest)
    | "t" => .tup (getNat (idx s 1)) (pathFromJson rest)
    | _ => .fld (getStr (idx s 1)) (pathFromJson rest)
partial def stmtFromJson (j : Json) : Stmt :=
  match getStr (idx j 0) with
  | "let" => .let_ (patFromJson (idx j 1)) (exprFromJson (idx j 2))
  | "letmut" => .letMut (getStr (idx j 1)) (exprFromJson (idx j 2))
  | "assign" => .assign (getStr (idx j 1)) (pathFromJson (getArr (idx j 2))) (exprFromJson (idx j 3))
  | "expr" => .expr (exprFromJson (idx j 1))
  | "for" => .for_ (patFromJson (idx j 1)) (exprFromJson (idx j 2)) (stmtsFromJson (idx j 3))
  | _ => .forJoin (patFromJson (idx j 1)) (exprFromJson (idx j 2)) (exprFromJson (idx j 3)) (stmtsFromJson (idx j 4))
partial def stmtsFromJson (j : Json) : StmtList := StmtList.ofList ((getArr j).map stmtFromJson)
end

def progFromJson (j : Json) : Prog :=
  { fns := (getArr (field j "fns")).map fun f =>
      { name := getStr (field f "name")
        params := (getArr (field f "params")).map fun p => (getStr (idx p 0), tyFromJson (idx p 1))
        ret := tyFromJson (field f "ret")
        body := stmtsFromJson (field f "body") }
    consts := (getArr (field j "consts")).map fun c => (getStr (idx c 0), valFromJson (idx c 1))
    enums := (getArr ((j.getObjVal? "enums").toOption.getD (Json.arr #[]))).map fun e =>
      (getStr (idx e 0), tyFromJson.variantsFromJson (idx e 1))
    constTys := (getArr ((j.getObjVal? "const_tys").toOption.getD (Json.arr #[]))).map fun c =>
      (getStr (idx c 0), tyFromJson (idx c 1)) }

def panicName : PanicKind → String
  | .overflow => "Overflow" | .divByZero => "DivByZero" | .outOfBounds => "OutOfBounds"

/-- `{prog, fn, inputs: [[v, …], …]}` → for each argument tuple the value, the panic, or why the
program is outside the semantics -/
def srcEval (case : Json) : Json :=
  let prog := progFromJson (field case "prog")
  let fn := getStr (field case "fn")
  let ret := ((prog.fn? fn).map (·.ret)).getD (.tuple .nil)
  Json.mkObj [("results", Json.arr ((getArr (field case "inputs")).map fun args =>
    match runFn 100000 prog fn ((getArr args).map valFromJson) with
    | .ok v => Json.mkObj [("value", valToJson v), ("bits", bitsToString (v.encode ret))]
    | .error (.panic k) => Json.mkObj [("panic", panicName k)]
    | .error (.stuck w) => Json.mkObj [("stuck", w)]
    | .error .fuel => Json.mkObj [("stuck", "fuel")]).toArray)]

end GVD

namespace GVD
open GV GV.Src

/-- `{ty, pats, values, witnesses}` → the reference verdict on exhaustiveness, the first matching
arm for each value, and for each reported witness pattern how many representative values it
denotes and one of them that some arm matches (if any) -/
def matchOracle (case : Json) : Json :=
  let ty := tyFromJson (field case "ty")
  let pats := (getArr (field case "pats")).map patFromJson
  let values := (getArr (field case "values")).map valFromJson
  let wits := (getArr (field case "witnesses")).map patFromJson
  let cs := pats.flatMap patConsts
  let reps := tyReps cs ty
  let first := values.map fun v => match firstMatch v pats with | some i => toJson i | none => Json.null
  let witInfo := wits.map fun w =>
    let cs' := cs ++ patConsts w
    let denoted := (tyReps cs' ty).filter fun v => (matchPat w v).isSome
    let bad := denoted.find? fun v => (firstMatch v pats).isSome
    Json.mkObj [("denotes", denoted.length), ("matched", match bad with | some v => valToJson v | none => Json.null)]
  Json.mkObj [("uncovered", match uncovered ty pats with | some v => valToJson v | none => Json.null),
    ("reps", reps.length), ("rep_values", Json.arr ((reps.take 40).map valToJson).toArray),
    ("first", Json.arr first.toArray), ("witnesses", Json.arr witInfo.toArray)]

end GVD

namespace GVD
open GV GV.Src GV.Bit

/-- `{prog, inputs}` → what `Model/BitSem.lean` computes for `main` on each argument tuple:
`{"bits", "panic"}`, or `{"outside": true}` when the program is not in the fragment -/
def bitEval (case : Json) : Json :=
  let prog := progFromJson (field case "prog")
  match prog.fn? "main" with
  | none => Json.mkObj [("outside", true)]
  | some d =>
    Json.mkObj [("results", Json.arr ((getArr (field case "inputs")).map fun args =>
      let vals := (getArr args).map valFromJson
      let benv : Option BEnv := (d.params.zip vals).foldl (fun acc ((x, t), v) =>
        match acc with
        | some e => some ((x, VTy.ofTy t, v.encode t) :: e)
        | none => none) (some [])
      match benv, constEnv prog with
      | some benv, some cb =>
        match bitBody prog (benv ++ cb) d.body with
        | none => Json.mkObj [("outside", true)]
        | some (_, bits, p, _) =>
          Json.mkObj [("bits", bitsToString bits), ("panic", match p with | some k => Json.str (panicName k) | none => Json.null)]
      | _, _ => Json.mkObj [("outside", true)]).toArray)]

/-- the verdict of the typing judgement the compiler model induces (`Bit.progTyped`), per function -/
def bitCheck (case : Json) : Json :=
  let prog := progFromJson (field case "prog")
  Json.mkObj [("typed", Bit.progTyped prog),
    ("ill", Json.arr ((prog.fns.filter fun d => !Bit.fnTyped prog d).map fun d => Json.str d.name).toArray)]

end GVD
