import Driver.Codec
open Lean
namespace GVD

def optBits : Option (List Bool) → String
  | some bs => bitsToString bs
  | none => "panic"

def ssaValidateEval (case : Json) : Json :=
  let c := ssaFromJson (field case "circuit")
  let ins := inputsOf (field case "inputs")
  let v := match c.validate with | .ok () => "ok" | .error e => ssaErr e
  Json.mkObj [("validate", v), ("eval", optBits (c.eval? ins))]

def regValidateEval (case : Json) : Json :=
  let c := regFromJson (field case "circuit")
  let ins := inputsOf (field case "inputs")
  let v := match c.validate with | .ok () => "ok" | .error e => regErr e
  Json.mkObj [("validate", v), ("eval", optBits (c.evalRaw? ins)), ("eval_strict", optBits (c.eval? ins))]

end GVD
