import Driver.Codec
import GarbleVerif.Model.RegAlloc
open Lean
namespace GVD

def optBits : Option (List Bool) → String
  | some bs => bitsToString bs
  | none => "panic"

def ssaValidateEval (case : Json) : Json :=
  let c := ssaFromJson (field case "circuit")
  let ins := inputsOf (field case "inputs")
  let v := match c.validate with | .ok () => "ok" | .error e => ssaErr e
  Json.mkObj [("validate", v), ("eval", optBits (c.eval? ins))]

def regValidateEval (case : Json) : Json :=
  let c := regFromJson (field case "circuit")
  let ins := inputsOf (field case "inputs")
  let v := match c.validate with | .ok () => "ok" | .error e => regErr e
  Json.mkObj [("validate", v), ("eval", optBits (c.evalRaw? ins)), ("eval_strict", optBits (c.eval? ins))]

/-- model conversion + strict evaluation of the converted circuit on the given inputs -/
def convertOp (case : Json) : Json :=
  let c := ssaFromJson (field case "circuit")
  match GV.Reg.convert c with
  | none => Json.mkObj [("panic", "model: conversion hits a missing wire_map entry")]
  | some r =>
    let v := match r.validate with | .ok () => "ok" | .error e => regErr e
    let inputs := (getArr (field case "inputs")).map inputsOf
    Json.mkObj [("reg", regToJson r), ("validate", v),
      ("ssa_outs", toJson (inputs.map fun ins => optBits (c.eval? ins))),
      ("reg_outs", toJson (inputs.map fun ins => optBits (r.evalRaw? ins))),
      ("reg_strict", toJson (inputs.map fun ins => optBits (r.eval? ins))),
      ("wires_len", toJson c.wiresLen), ("and_gates", toJson c.andGates)]

end GVD
