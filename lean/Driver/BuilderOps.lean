import Driver.Codec
import GarbleVerif.Model.PanicReqs
open Lean
namespace GVD
open GV

def reqFromJson (j : Json) : Option Req :=
  let a := getNat (idx j 1); let b := getNat (idx j 2); let c := getNat (idx j 3)
  match getStr (idx j 0) with
  | "xor" => some (.xor a b)
  | "and" => some (.and a b)
  | "or" => some (.or a b)
  | "eq" => some (.eq a b)
  | "not" => some (.not a)
  | "mux" => some (.mux a b c)
  | "adder" => some (.adder a b c)
  | _ => none

def bgatesToJson (gs : List BGate) : Json :=
  Json.arr (gs.map fun g => match g with
    | .xor a b => Json.arr #["X", toJson a, toJson b]
    | .and a b => Json.arr #["A", toJson a, toJson b]).toArray

/-- all assignments of `n` bits, assignment `a` has bit `k` = `(a >>> k) & 1` (as in the harness) -/
def assignment (sizes : List Nat) (a : Nat) : List (List Bool) :=
  let rec go (sizes : List Nat) (k : Nat) : List (List Bool) :=
    match sizes with
    | [] => []
    | s :: rest => ((List.range s).map fun i => (a >>> (k + i)) % 2 == 1) :: go rest (k + s)
  go sizes 0

def builderRun (case : Json) : Json :=
  let sizes := natList (field case "input_gates")
  let cache := ((field case "cache").getBool?).toOption.getD true
  let reqs := (getArr (field case "reqs")).filterMap reqFromJson
  let outs := natList (field case "outs")
  let (b, rs) := Req.run sizes cache reqs
  let circuit := Req.compile sizes cache reqs outs
  let n := sizes.sum
  let lits : List String :=
    if n > 10 then [] else
    (List.range (2 ^ n)).map fun a =>
      let ins := assignment sizes a
      let vs := Req.literal reqs ins.flatten
      bitsToString (Req.okPanicBits ++ outs.filterMap (vs[·]?))
  let v := match circuit.validate with | .ok () => "ok" | .error e => ssaErr e
  Json.mkObj [("shift", toJson b.shift), ("gates", bgatesToJson b.gates), ("results", toJson rs),
    ("circuit", ssaToJson circuit), ("validate", v), ("evals", toJson lits)]

def preqFromJson (j : Json) : Option PReq :=
  let a := getNat (idx j 1); let b := getNat (idx j 2); let c := getNat (idx j 3)
  match getStr (idx j 0) with
  | "panic_if" => some (.panicIf a b c (getNat (idx j 4)) (getNat (idx j 5)) (getNat (idx j 6)))
  | "snapshot" => some .snapshot
  | "restore" => some (.restore a)
  | "mux_panic" => some (.mux a b c)
  | "install_mux" => some (.installMux a b c)
  | _ => (reqFromJson j).map PReq.gate

def panicRun (case : Json) : Json :=
  let sizes := natList (field case "input_gates")
  let cache := ((field case "cache").getBool?).toOption.getD true
  let reqs := (getArr (field case "reqs")).filterMap preqFromJson
  let outs := natList (field case "outs")
  let st := PReq.run sizes cache reqs
  let circuit := PReq.compile sizes cache reqs outs
  let n := sizes.sum
  let evals : List String :=
    if n > 10 then [] else
    (List.range (2 ^ n)).map fun a => match circuit.eval? (assignment sizes a) with | some bs => bitsToString bs | none => "panic"
  Json.mkObj [("shift", toJson st.b.shift), ("gates", bgatesToJson st.b.gates), ("results", toJson st.rs),
    ("circuit", ssaToJson circuit), ("evals", toJson evals)]

end GVD
