import Driver.Codec
import GarbleVerif.Model.Scan
open Lean
namespace GVD
open GV GV.Scan

def metaToJson (m : Meta) : Json := toJson [m.start.line, m.start.col, m.stop.line, m.stop.col]
def metaFromJson (j : Json) : Meta :=
  let l := natList j
  ⟨⟨l.getD 0 0, l.getD 1 0⟩, ⟨l.getD 2 0, l.getD 3 0⟩⟩

/-- `{src}` → the tokens (Debug text, location) or the scan errors -/
def scanOp (case : Json) : Json :=
  match scan (getStr (field case "src")).toList with
  | .ok ts => Json.mkObj [("ok", true), ("tokens", Json.arr (ts.map fun (t, m) => Json.arr #[t, metaToJson m]).toArray)]
  | .error es => Json.mkObj [("ok", false), ("errors", Json.arr (es.map fun (k, m) => Json.arr #[k.name, metaToJson m]).toArray)]

/-- `{src, metas}` → `prettify_meta` of each location (`null` where it would index out of range) -/
def renderOp (case : Json) : Json :=
  let prg := (getStr (field case "src")).toList
  Json.mkObj [("renders", Json.arr ((getArr (field case "metas")).map fun m =>
    match prettifyMeta prg (metaFromJson m) with
    | some s => Json.str s
    | none => Json.null).toArray)]

end GVD
