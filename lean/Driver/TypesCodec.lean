import Driver.Codec
import GarbleVerif.Model.Literal
open Lean
namespace GVD
open GV

def intTyOf : String → IntTy
  | "u8" => .u8 | "u16" => .u16 | "u32" => .u32 | "u64" => .u64 | "usize" => .usize
  | "i8" => .i8 | "i16" => .i16 | "i32" => .i32 | "i64" => .i64
  | "iUnspec" => .iUnspec | _ => .uUnspec

/-- serde names of `UnsignedNumType` / `SignedNumType` -/
def intTyOfSerde (signed : Bool) : String → IntTy
  | "U8" => .u8 | "U16" => .u16 | "U32" => .u32 | "U64" => .u64 | "Usize" => .usize
  | "I8" => .i8 | "I16" => .i16 | "I32" => .i32 | "I64" => .i64
  | _ => if signed then .iUnspec else .uUnspec

def serdeOfIntTy : IntTy → String
  | .u8 => "U8" | .u16 => "U16" | .u32 => "U32" | .u64 => "U64" | .usize => "Usize"
  | .i8 => "I8" | .i16 => "I16" | .i32 => "I32" | .i64 => "I64"
  | .uUnspec => "Unspecified" | .iUnspec => "Unspecified"

partial def tyFromJson (j : Json) : Ty :=
  match getStr (field j "k") with
  | "bool" => .bool
  | "int" => .int (intTyOf (getStr (field j "t")))
  | "array" => .array (tyFromJson (field j "elem")) (getNat (field j "n"))
  | "tuple" => .tuple (TyList.ofList ((getArr (field j "ts")).map tyFromJson))
  | "struct" => .struct (getStr (field j "name")) (fieldsFromJson (field j "fields"))
  | "enum" => .enum (getStr (field j "name")) (variantsFromJson (field j "variants"))
  | _ => .tuple .nil
where
  fieldsFromJson (j : Json) : Fields :=
    Fields.ofList ((getArr j).map fun f => (getStr (idx f 0), tyFromJson (idx f 1)))
  variantsFromJson (j : Json) : Variants :=
    (getArr j).foldr (fun v acc =>
      Variants.cons (getStr (idx v 0)) ((idx v 1).getBool?.toOption.getD false)
        (TyList.ofList ((getArr (idx v 2)).map tyFromJson)) acc) Variants.nil

def defsFromJson (j : Json) : Defs :=
  { structs := (getArr (field j "structs")).map fun s => (getStr (idx s 0), tyFromJson.fieldsFromJson (idx s 1))
    enums := (getArr (field j "enums")).map fun s => (getStr (idx s 0), tyFromJson.variantsFromJson (idx s 1)) }

def getInt (j : Json) : Int := (j.getInt?).toOption.getD 0

/-- serde's externally tagged representation of `Literal` -/
partial def litFromJson (j : Json) : Lit :=
  match j with
  | .str "True" => .true
  | .str "False" => .false
  | _ =>
    let get (k : String) : Option Json := (j.getObjVal? k).toOption
    match get "NumUnsigned", get "NumSigned", get "ArrayRepeat", get "Array", get "Tuple" with
    | some v, _, _, _, _ => .numU (getNat (idx v 0)) (intTyOfSerde false (getStr (idx v 1)))
    | _, some v, _, _, _ => .numS (getInt (idx v 0)) (intTyOfSerde true (getStr (idx v 1)))
    | _, _, some v, _, _ => .arrayRepeat (litFromJson (idx v 0)) (getNat (idx v 1))
    | _, _, _, some v, _ => .array (LitList.ofList ((getArr v).map litFromJson))
    | _, _, _, _, some v => .tuple (LitList.ofList ((getArr v).map litFromJson))
    | _, _, _, _, _ =>
      match get "Struct", get "Enum", get "Range" with
      | some v, _, _ =>
        .struct (getStr (idx v 0)) (LitFields.ofList ((getArr (idx v 1)).map fun f => (getStr (idx f 0), litFromJson (idx f 1))))
      | _, some v, _ =>
        match idx v 2 with
        | .str _ => .enum (getStr (idx v 0)) (getStr (idx v 1)) true .nil
        | vj => .enum (getStr (idx v 0)) (getStr (idx v 1)) false
                  (LitList.ofList ((getArr (field vj "Tuple")).map litFromJson))
      | _, _, some v => .range (getNat (idx v 0)) (getNat (idx v 1)) (intTyOfSerde false (getStr (idx v 2)))
      | _, _, _ => .tuple .nil

mutual
partial def litToJson : Lit → Json
  | .true => "True"
  | .false => "False"
  | .numU n k => Json.mkObj [("NumUnsigned", Json.arr #[toJson n, serdeOfIntTy k])]
  | .numS n k => Json.mkObj [("NumSigned", Json.arr #[toJson n, serdeOfIntTy k])]
  | .arrayRepeat e n => Json.mkObj [("ArrayRepeat", Json.arr #[litToJson e, toJson n])]
  | .array es => Json.mkObj [("Array", Json.arr (litListToJson es).toArray)]
  | .tuple es => Json.mkObj [("Tuple", Json.arr (litListToJson es).toArray)]
  | .struct name fs => Json.mkObj [("Struct", Json.arr #[name, Json.arr (litFieldsToJson fs).toArray])]
  | .enum name variant isUnit es =>
    Json.mkObj [("Enum", Json.arr #[name, variant,
      if isUnit then "Unit" else Json.mkObj [("Tuple", Json.arr (litListToJson es).toArray)]])]
  | .range a b k => Json.mkObj [("Range", Json.arr #[toJson a, toJson b, serdeOfIntTy k])]
partial def litListToJson : LitList → List Json
  | .nil => []
  | .cons l r => litToJson l :: litListToJson r
partial def litFieldsToJson : LitFields → List Json
  | .nil => []
  | .cons n l r => Json.arr #[n, litToJson l] :: litFieldsToJson r
end

/-- `{ty, defs, lits}` → per literal: type test, bits, specification bits, decoded literal -/
def literalCheck (case : Json) : Json :=
  let ty := tyFromJson (field case "ty")
  let defs := defsFromJson (field case "defs")
  let res := (getArr (field case "lits")).map fun lj =>
    let l := litFromJson lj
    let accept := l.isOfType ty
    let bits := if accept then l.asBits defs else []
    let spec : Json := match l.denote ty with
      | some v => Json.mkObj [("bits", bitsToString (v.encode ty)), ("has_type", v.hasType ty),
          ("roundtrip", match ty.decode (v.encode ty) with
            | some v' => toJson ((v'.encode ty) == (v.encode ty) && v'.hasType ty)
            | none => Json.null)]
      | none => Json.null
    let decoded : Json := match ty.fromBits bits with
      | some l' => litToJson l'
      | none => "err"
    Json.mkObj [("accept", accept), ("bits", bitsToString bits), ("spec", spec), ("decoded", decoded)]
  Json.mkObj [("size", toJson ty.size), ("results", Json.arr res.toArray)]

end GVD
