import Driver.Codec
import GarbleVerif.Model.Bristol
open Lean
namespace GVD
open GV GV.Bristol

def tokFromJson (j : Json) : Tok :=
  match (j.getObjVal? "n").toOption with
  | some n => .num (getNat n)
  | none => .word (getStr (field j "w"))

def tokToJson : Tok → Json
  | .num n => Json.mkObj [("n", toJson n)]
  | .word s => Json.mkObj [("w", s)]

def linesFromJson (j : Json) : List Line := (getArr j).map fun l => (getArr l).map tokFromJson
def linesToJson (ls : List Line) : Json := Json.arr (ls.map fun l => Json.arr (l.map tokToJson).toArray).toArray

def importErrStr : ImportError → String
  | .otherParseError => "OtherParseError" | .parseIntError => "ParseIntError"
  | .unknownGate => "UnknownGate" | .missingGateType => "MissingGateType"
  | .inputPartiesMismatch => "InputPartiesMismatch" | .outputCountMismatch => "OutputCountMismatch"
  | .missingLine => "MissingLine" | .malformedLine => "MalformedLine"
  | .invalidWireIndex w => s!"InvalidWireIndex:{w}"
  | .crash w => s!"crash:{w}"

def importResult (ls : List Line) : Json :=
  match importLines ls with
  | .error e => Json.mkObj [("result", "error"), ("error", importErrStr e)]
  | .ok c =>
    let v := if c.inputGates.any (· > 1000000) then "skipped-huge-inputs" else
      match c.validate with | .ok () => "ok" | .error e => ssaErr e
    Json.mkObj [("result", "ok"), ("circuit", ssaToJson c), ("validate", v)]

def bristolExport (case : Json) : Json :=
  let c := ssaFromJson (field case "circuit")
  match exportLines c with
  | .error .outputWireIsInput => Json.mkObj [("export", "OutputWireIsInput")]
  | .error (.crash w) => Json.mkObj [("export", "panic"), ("detail", w)]
  | .ok ls => Json.mkObj [("export", "ok"), ("lines", linesToJson ls), ("imported", importResult ls)]

def bristolImport (case : Json) : Json :=
  Json.mkObj [("imported", importResult (linesFromJson (field case "lines")))]

end GVD
