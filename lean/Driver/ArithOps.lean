import Driver.Codec
import GarbleVerif.Model.Arith
open Lean
namespace GVD
open GV GV.Arith

def bopOf : String → Option BinOp
  | "add" => some .add | "sub" => some .sub | "mul" => some .mul | "div" => some .div
  | "mod" => some .mod | "and" => some .bitAnd | "xor" => some .bitXor | "or" => some .bitOr
  | "gt" => some .gt | "lt" => some .lt | "eq" => some .eq | "ne" => some .ne
  | "shl" => some .shl | "shr" => some .shr | _ => none

/-- the first condition that holds wins -/
def panicStr : List (Bool × PanicKind) → String
  | [] => "-"
  | (true, .overflow) :: _ => "overflow"
  | (true, .divByZero) :: _ => "divByZero"
  | (true, .outOfBounds) :: _ => "outOfBounds"
  | (false, _) :: rest => panicStr rest

def getBool (j : Json) : Bool := (j.getBool?).toOption.getD false

/-- `{kind, …, pairs|vals}` → `{res: ["bits:panic", …]}` -/
def arithOp (case : Json) : Json :=
  let kind := getStr (field case "kind")
  let sx := getBool (field case "sx")
  let sy := getBool (field case "sy")
  let sr := getBool (field case "sr")
  let res : List String :=
    match kind with
    | "binop" =>
      match bopOf (getStr (field case "bop")) with
      | none => []
      | some op =>
        (getArr (field case "pairs")).map fun p =>
          let x := stringToBits (getStr (idx p 0))
          let y := stringToBits (getStr (idx p 1))
          let r := binop op sx sy sr x y
          bitsToString r.1 ++ ":" ++ panicStr r.2
    | "neg" =>
      (getArr (field case "vals")).map fun v =>
        let x := stringToBits (getStr v)
        let r := negChecked x
        bitsToString r.1 ++ ":" ++ panicStr [(r.2, .overflow)]
    | "not" =>
      (getArr (field case "vals")).map fun v =>
        bitsToString ((stringToBits (getStr v)).map (!·)) ++ ":-"
    | "cast" =>
      let toBits := getNat (field case "to_bits")
      (getArr (field case "vals")).map fun v =>
        bitsToString (cast (stringToBits (getStr v)) sx toBits) ++ ":-"
    | "constmul" =>
      let n := getNat (field case "n")
      let isNeg := getBool (field case "neg")
      (getArr (field case "vals")).map fun v =>
        let r := constMul (stringToBits (getStr v)) sx n isNeg
        bitsToString r.1 ++ ":" ++ panicStr [(r.2, .overflow)]
    | _ => []
  Json.mkObj [("res", toJson res)]

end GVD
