-- Root of the `GarbleVerif` library: models, proofs, property theorems.
import GarbleVerif.Model.Ssa
import GarbleVerif.Model.Reg
import GarbleVerif.Proofs.SsaEval
import GarbleVerif.Proofs.RegEval
import GarbleVerif.Props.C16
import GarbleVerif.Proofs.PushAndSound
import GarbleVerif.Proofs.Compact
import GarbleVerif.Proofs.Renumber
import GarbleVerif.Proofs.Mark
import GarbleVerif.Proofs.BuildSound
import GarbleVerif.Props.C04
import GarbleVerif.Props.C10
import GarbleVerif.Props.C15
import GarbleVerif.Props.C03
import GarbleVerif.Props.C09
import GarbleVerif.Props.C02
import GarbleVerif.Props.C11
