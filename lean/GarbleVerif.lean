-- Root of the `GarbleVerif` library: models, proofs, property theorems.
import GarbleVerif.Model.Ssa
import GarbleVerif.Model.Reg
import GarbleVerif.Proofs.SsaEval
import GarbleVerif.Proofs.RegEval
import GarbleVerif.Props.C16
