#!/bin/sh
# MANIFEST.setup_cmd — builds the framework from files on disk only (offline).
set -e
cd "$(dirname "$0")"
export CARGO_NET_OFFLINE=true
python3 -c "
import sys; sys.path.insert(0, 'tools')
from gv import extract; extract.regenerate()"
# the model driver must build; the proof library is warmed up here, but a proof obligation that
# no longer checks is the business of the property's own check, not a reason to stop the setup
(cd lean && lake build gvdriver)
(cd lean && lake build GarbleVerif) || echo "setup: note: lake build GarbleVerif reported failures (see the property checks)"
(cd harness && cargo build --offline)
echo setup-ok
