#!/bin/sh
# MANIFEST.setup_cmd — builds the framework from files on disk only (offline).
set -e
cd "$(dirname "$0")"
export CARGO_NET_OFFLINE=true
python3 -c "
import sys; sys.path.insert(0, 'tools')
from gv import extract; extract.regenerate()"
(cd lean && lake build GarbleVerif gvdriver)
(cd harness && cargo build --offline)
echo setup-ok
