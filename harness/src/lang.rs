//! Language-level ops: compile a source text and hand back the circuits.
use garble_lang::circuit_type::CircuitType;
use garble_lang::register_circuit as rc;
use garble_lang::{CircuitKind, CompileOptions, CompileTimeError, Error, GarbleProgram};
use serde_json::{Value, json};

use crate::circ::{reg_err, ssa_err};
use crate::guarded;
use crate::util::*;

pub fn err_stage(e: &Error) -> (&'static str, usize) {
    match e {
        Error::FnNotFound(_) => ("fn_not_found", 1),
        Error::CompileTimeError(CompileTimeError::ScanErrors(v)) => ("scan", v.len()),
        Error::CompileTimeError(CompileTimeError::ParseError(v)) => ("parse", v.len()),
        Error::CompileTimeError(CompileTimeError::TypeError(v)) => ("type", v.len()),
        Error::CompileTimeError(CompileTimeError::CompilerError(v)) => ("compile", v.len()),
        Error::EvalError(_) => ("eval", 1),
        Error::ConvertError(_) => ("convert", 1),
    }
}

pub fn compile_src(src: &str, dedup: bool) -> Result<Result<GarbleProgram, Error>, String> {
    guarded(|| {
        garble_lang::compile_with_options(
            src,
            CompileOptions {
                circuit_kind: CircuitKind::Ssa,
                consts: Default::default(),
                optimize_duplicate_gates: dedup,
            },
        )
    })
}

/// `{src, dedup?}` → `{ok, ssa, reg, ssa_validate, reg_validate}` | `{ok:false, stage, n}`
pub fn compile(case: &Value) -> Value {
    let src = case["src"].as_str().unwrap_or("");
    let dedup = case["dedup"].as_bool().unwrap_or(true);
    match compile_src(src, dedup) {
        Err(p) => json!({"ok": false, "stage": "panic", "detail": p}),
        Ok(Err(e)) => {
            let (stage, n) = err_stage(&e);
            json!({"ok": false, "stage": stage, "n": n, "detail": e.prettify(src)})
        }
        Ok(Ok(prg)) => {
            let CircuitType::Ssa(ssa) = &prg.circuit else { unreachable!() };
            let reg = guarded(|| rc::Circuit::from(ssa));
            let ssa_validate = match ssa.validate() {
                Ok(()) => "ok".to_string(),
                Err(e) => ssa_err(&e),
            };
            match reg {
                Err(p) => json!({"ok": true, "ssa": ssa_to_json(ssa), "ssa_validate": ssa_validate,
                                 "reg": Value::Null, "reg_validate": format!("panic@{p}")}),
                Ok(reg) => {
                    let reg_validate = match reg.validate() {
                        Ok(()) => "ok".to_string(),
                        Err(e) => reg_err(&e),
                    };
                    json!({"ok": true, "ssa": ssa_to_json(ssa), "ssa_validate": ssa_validate,
                           "reg": reg_to_json(&reg), "reg_validate": reg_validate})
                }
            }
        }
    }
}

/// `{src, dedup?, kind?: "ssa"|"reg", inputs: [[party bits,…],…]}` → `{ok, outs: [bits…]}`:
/// compiles once and evaluates the circuit on every given input (raw bits per party).
pub fn compile_eval(case: &Value) -> Value {
    let src = case["src"].as_str().unwrap_or("");
    let dedup = case["dedup"].as_bool().unwrap_or(true);
    let reg = case["kind"].as_str() == Some("reg");
    let consts = consts_of(&case["consts"]);
    let compiled = guarded(|| {
        garble_lang::compile_with_options(
            src,
            CompileOptions { circuit_kind: CircuitKind::Ssa, consts: consts.clone(), optimize_duplicate_gates: dedup },
        )
    });
    match compiled {
        Err(p) => json!({"ok": false, "stage": "panic", "detail": p}),
        Ok(Err(e)) => {
            let (stage, n) = err_stage(&e);
            let detail = guarded(|| e.prettify(src)).unwrap_or_else(|p| format!("prettify panics: {p}"));
            json!({"ok": false, "stage": stage, "n": n, "detail": detail})
        }
        Ok(Ok(mut prg)) => {
            let validate = match prg.circuit.unwrap_ssa_ref().validate() {
                Ok(()) => "ok".to_string(),
                Err(e) => ssa_err(&e),
            };
            let out_len = prg.circuit.unwrap_ssa_ref().output_gates.len();
            if reg {
                if let Err(p) = guarded(|| prg.circuit.to_register()) {
                    return json!({"ok": false, "stage": "panic", "detail": p});
                }
            }
            let mut outs = vec![];
            for ins in case["inputs"].as_array().cloned().unwrap_or_default() {
                let ins = inputs_of(&ins);
                match guarded(|| prg.circuit.eval(&ins)) {
                    Ok(bits) => outs.push(bits_to_string(&bits)),
                    Err(p) => outs.push(format!("panic@{p}")),
                }
            }
            let sizes: Vec<usize> = prg.circuit.input_lengths().collect();
            json!({"ok": true, "outs": outs, "input_gates": sizes, "ands": prg.circuit.ands(), "ops": prg.circuit.ops(),
                   "validate": validate, "out_len": out_len})
        }
    }
}

/// `{src, n, consts?}` → compiles `n` times in this process; returns the number of distinct
/// outcomes and a digest of each (circuits compared structurally).
pub fn compile_repeat(case: &Value) -> Value {
    use std::collections::BTreeMap;
    let src = case["src"].as_str().unwrap_or("");
    let n = case["n"].as_u64().unwrap_or(8) as usize;
    let consts = consts_of(&case["consts"]);
    let mut outcomes: BTreeMap<String, usize> = BTreeMap::new();
    for _ in 0..n {
        let r = guarded(|| {
            garble_lang::compile_with_options(
                src,
                CompileOptions { circuit_kind: CircuitKind::Ssa, consts: consts.clone(), optimize_duplicate_gates: true },
            )
        });
        let key = match r {
            Err(p) => format!("panic@{p}"),
            Ok(Err(e)) => format!("error:{}", err_stage(&e).0),
            Ok(Ok(prg)) => {
                let CircuitType::Ssa(c) = &prg.circuit else { unreachable!() };
                // the register form is part of the outcome: "same options, identical circuit" covers it too
                let reg = match guarded(|| rc::Circuit::from(c)) {
                    Ok(r) => serde_json::to_string(&reg_to_json(&r)).unwrap(),
                    Err(p) => format!("panic@{p}"),
                };
                format!("{}|{}", serde_json::to_string(&ssa_to_json(c)).unwrap(), reg)
            }
        };
        *outcomes.entry(key).or_insert(0) += 1;
    }
    let digests: Vec<Value> = outcomes
        .iter()
        .map(|(k, v)| {
            let short = if k.len() > 120 { format!("circuit:{}:{:x}", k.len(), fxhash(k)) } else { k.clone() };
            json!([short, v])
        })
        .collect();
    json!({"distinct": outcomes.len(), "outcomes": digests})
}

/// `{src, consts?, texts: [literal text per parameter]}` → for each parameter the bits `parse_arg` gives for its text,
/// or the error: the literal API of a program compiled with constants
pub fn parse_args(case: &Value) -> Value {
    let src = case["src"].as_str().unwrap_or("");
    let consts = consts_of(&case["consts"]);
    let r = guarded(|| {
        garble_lang::compile_with_options(
            src,
            CompileOptions { circuit_kind: CircuitKind::Ssa, consts: consts.clone(), optimize_duplicate_gates: true },
        )
    });
    match r {
        Err(p) => json!({"ok": false, "stage": "panic", "detail": p}),
        Ok(Err(e)) => json!({"ok": false, "stage": err_stage(&e).0}),
        Ok(Ok(prg)) => {
            let mut out = vec![];
            for (i, t) in case["texts"].as_array().cloned().unwrap_or_default().iter().enumerate() {
                let text = t.as_str().unwrap_or("");
                out.push(match guarded(|| prg.parse_arg(i, text).map(|a| bits_to_string(&a.as_bits()))) {
                    Ok(Ok(bits)) => json!({"bits": bits}),
                    Ok(Err(_)) => json!({"err": "rejected"}),
                    Err(p) => json!({"err": format!("panic@{p}")}),
                });
            }
            json!({"ok": true, "args": out})
        }
    }
}

fn fxhash(s: &str) -> u64 {
    let mut h: u64 = 0xcbf29ce484222325;
    for b in s.bytes() {
        h ^= b as u64;
        h = h.wrapping_mul(0x100000001b3);
    }
    h
}

/// `{"PARTY": {"NAME": <serde Literal>}}`
pub fn consts_of(v: &Value) -> garble_lang::GarbleConsts {
    let mut out = std::collections::HashMap::new();
    if let Some(obj) = v.as_object() {
        for (party, cs) in obj {
            let mut m = std::collections::HashMap::new();
            if let Some(cs) = cs.as_object() {
                for (name, lit) in cs {
                    if let Ok(l) = serde_json::from_value::<garble_lang::literal::Literal>(lit.clone()) {
                        m.insert(name.clone(), l);
                    }
                }
            }
            out.insert(party.clone(), m);
        }
    }
    out
}
