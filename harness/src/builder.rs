//! Builder-level ops through the `verif_hooks` wrapper (C04, C15, C02a, C13a).
use garble_lang::verif_hooks::Builder;
use serde_json::{Value, json};

use crate::guarded;
use crate::util::*;

fn h(rs: &[usize], v: &Value) -> Option<usize> {
    rs.get(v.as_u64()? as usize).copied()
}

/// Applies one request (`["xor", x, y]`, … operands are handles into `rs`); skipped if a handle
/// does not exist.
pub fn apply_req(b: &mut Builder, rs: &mut Vec<usize>, r: &Value) {
    let k = r[0].as_str().unwrap_or("");
    match k {
        "xor" | "and" | "or" | "eq" => {
            if let (Some(x), Some(y)) = (h(rs, &r[1]), h(rs, &r[2])) {
                let w = match k {
                    "xor" => b.push_xor(x, y),
                    "and" => b.push_and(x, y),
                    "or" => b.push_or(x, y),
                    _ => b.push_eq(x, y),
                };
                rs.push(w);
            }
        }
        "not" => {
            if let Some(x) = h(rs, &r[1]) {
                let w = b.push_not(x);
                rs.push(w);
            }
        }
        "mux" => {
            if let (Some(s), Some(x0), Some(x1)) = (h(rs, &r[1]), h(rs, &r[2]), h(rs, &r[3])) {
                let w = b.push_mux(s, x0, x1);
                rs.push(w);
            }
        }
        "adder" => {
            if let (Some(x), Some(y), Some(c)) = (h(rs, &r[1]), h(rs, &r[2]), h(rs, &r[3])) {
                let (s, c) = b.push_adder(x, y, c);
                rs.push(s);
                rs.push(c);
            }
        }
        _ => {}
    }
}

pub fn all_assignments(sizes: &[usize], limit_bits: usize) -> Vec<Vec<Vec<bool>>> {
    let n: usize = sizes.iter().sum();
    let mut res = vec![];
    if n > limit_bits {
        return res;
    }
    for a in 0..(1u64 << n) {
        let mut k = 0;
        let mut ins = vec![];
        for s in sizes {
            let mut p = vec![];
            for _ in 0..*s {
                p.push((a >> k) & 1 == 1);
                k += 1;
            }
            ins.push(p);
        }
        res.push(ins);
    }
    res
}

/// `{input_gates, cache, reqs, outs}` → pre-build gate list, result wires, built circuit and its
/// outputs on every input assignment (if at most 10 input bits).
pub fn builder_run(case: &Value) -> Value {
    let sizes = usize_list(&case["input_gates"]);
    let cache = case["cache"].as_bool().unwrap_or(true);
    let reqs = case["reqs"].as_array().cloned().unwrap_or_default();
    let outs = case["outs"].as_array().cloned().unwrap_or_default();
    let r = guarded(|| {
        let mut b = Builder::new(sizes.clone(), cache);
        let total: usize = sizes.iter().sum();
        let mut rs: Vec<usize> = (0..total + 2).collect();
        for r in &reqs {
            apply_req(&mut b, &mut rs, r);
        }
        let (shift, gates) = b.dump();
        let out_wires: Vec<usize> = outs.iter().filter_map(|o| h(&rs, o)).collect();
        let circuit = b.build(out_wires.clone());
        (shift, gates, rs, circuit)
    });
    match r {
        Err(p) => json!({"panic": p}),
        Ok((shift, gates, rs, circuit)) => {
            let gates: Vec<Value> = gates
                .iter()
                .map(|(is_and, x, y)| json!([if *is_and { "A" } else { "X" }, x, y]))
                .collect();
            let validate = match circuit.validate() {
                Ok(()) => "ok".to_string(),
                Err(e) => crate::circ::ssa_err(&e),
            };
            let mut evals = vec![];
            for ins in all_assignments(&sizes, 10) {
                match guarded(|| circuit.eval(&ins)) {
                    Ok(bits) => evals.push(bits_to_string(&bits)),
                    Err(_) => evals.push("panic".to_string()),
                }
            }
            json!({"shift": shift, "gates": gates, "results": rs, "circuit": ssa_to_json(&circuit),
                   "validate": validate, "evals": evals})
        }
    }
}

/// `{input_gates, cache, reqs, outs}` with panic-record operations interleaved with gate requests.
pub fn panic_run(case: &Value) -> Value {
    use garble_lang::token::MetaInfo;
    use garble_lang::verif_hooks::PanicSnapshot;
    let sizes = usize_list(&case["input_gates"]);
    let cache = case["cache"].as_bool().unwrap_or(true);
    let reqs = case["reqs"].as_array().cloned().unwrap_or_default();
    let outs = case["outs"].as_array().cloned().unwrap_or_default();
    let r = guarded(|| {
        let mut b = Builder::new(sizes.clone(), cache);
        let total: usize = sizes.iter().sum();
        let mut rs: Vec<usize> = (0..total + 2).collect();
        let mut snaps: Vec<PanicSnapshot> = vec![];
        let n = |v: &Value| v.as_u64().unwrap_or(0) as usize;
        for r in &reqs {
            match r[0].as_str().unwrap_or("") {
                "panic_if" => {
                    if let Some(c) = h(&rs, &r[1]) {
                        let meta = MetaInfo { start: (n(&r[3]), n(&r[4])), end: (n(&r[5]), n(&r[6])) };
                        b.push_panic_if(c, n(&r[2]), meta);
                    }
                }
                "snapshot" => snaps.push(b.snapshot_panic()),
                "restore" => {
                    if let Some(p) = snaps.get(n(&r[1])).cloned() {
                        let old = b.replace_panic_with(p);
                        snaps.push(old);
                    }
                }
                "mux_panic" | "install_mux" => {
                    if let (Some(c), Some(t), Some(f)) =
                        (h(&rs, &r[1]), snaps.get(n(&r[2])).cloned(), snaps.get(n(&r[3])).cloned())
                    {
                        let m = b.mux_panic(c, &t, &f);
                        if r[0].as_str() == Some("mux_panic") {
                            snaps.push(m);
                        } else {
                            b.replace_panic_with(m);
                        }
                    }
                }
                _ => apply_req(&mut b, &mut rs, r),
            }
        }
        let (shift, gates) = b.dump();
        let out_wires: Vec<usize> = outs.iter().filter_map(|o| h(&rs, o)).collect();
        let circuit = b.build(out_wires);
        (shift, gates, rs, circuit)
    });
    match r {
        Err(p) => json!({"panic": p}),
        Ok((shift, gates, rs, circuit)) => {
            let gates: Vec<Value> = gates
                .iter()
                .map(|(is_and, x, y)| json!([if *is_and { "A" } else { "X" }, x, y]))
                .collect();
            let mut evals = vec![];
            for ins in all_assignments(&sizes, 10) {
                match guarded(|| circuit.eval(&ins)) {
                    Ok(bits) => evals.push(bits_to_string(&bits)),
                    Err(_) => evals.push("panic".to_string()),
                }
            }
            json!({"shift": shift, "gates": gates, "results": rs, "circuit": ssa_to_json(&circuit), "evals": evals})
        }
    }
}
