//! Canonical encodings shared by all ops.
use garble_lang::circuit::{Circuit, Gate};
use garble_lang::register_circuit as rc;
use serde_json::{Value, json};

pub fn bits_to_string(bits: &[bool]) -> String {
    bits.iter().map(|b| if *b { '1' } else { '0' }).collect()
}

pub fn string_to_bits(s: &str) -> Vec<bool> {
    s.chars().map(|c| c == '1').collect()
}

pub fn usize_list(v: &Value) -> Vec<usize> {
    v.as_array()
        .map(|a| a.iter().map(|x| x.as_u64().unwrap_or(0) as usize).collect())
        .unwrap_or_default()
}

pub fn inputs_of(v: &Value) -> Vec<Vec<bool>> {
    v.as_array()
        .map(|a| a.iter().map(|s| string_to_bits(s.as_str().unwrap_or(""))).collect())
        .unwrap_or_default()
}

pub fn ssa_from_json(v: &Value) -> Circuit {
    let gates = v["gates"]
        .as_array()
        .map(|a| {
            a.iter()
                .map(|g| {
                    let k = g[0].as_str().unwrap_or("");
                    let a = g[1].as_u64().unwrap_or(0) as usize;
                    let b = g[2].as_u64().unwrap_or(0) as usize;
                    match k {
                        "X" => Gate::Xor(a, b),
                        "A" => Gate::And(a, b),
                        _ => Gate::Not(a),
                    }
                })
                .collect()
        })
        .unwrap_or_default();
    Circuit {
        input_gates: usize_list(&v["input_gates"]),
        gates,
        output_gates: usize_list(&v["output_gates"]),
    }
}

pub fn ssa_to_json(c: &Circuit) -> Value {
    let gates: Vec<Value> = c
        .gates
        .iter()
        .map(|g| match g {
            Gate::Xor(a, b) => json!(["X", a, b]),
            Gate::And(a, b) => json!(["A", a, b]),
            Gate::Not(a) => json!(["N", a]),
        })
        .collect();
    json!({"input_gates": c.input_gates, "gates": gates, "output_gates": c.output_gates})
}

pub fn reg_from_json(v: &Value) -> rc::Circuit {
    let insts = v["insts"]
        .as_array()
        .map(|a| {
            a.iter()
                .map(|i| {
                    let out = rc::Reg(i[0].as_u64().unwrap_or(0) as u32);
                    let k = i[1].as_str().unwrap_or("");
                    let a = i[2].as_u64().unwrap_or(0) as u32;
                    let b = i[3].as_u64().unwrap_or(0) as u32;
                    let op = match k {
                        "X" => rc::Op::Xor(rc::Xor(rc::Reg(a), rc::Reg(b))),
                        "A" => rc::Op::And(rc::And(rc::Reg(a), rc::Reg(b))),
                        "N" => rc::Op::Not(rc::Not(rc::Reg(a))),
                        _ => rc::Op::Input(rc::Input { party: a, input: b }),
                    };
                    rc::Inst { out, op }
                })
                .collect()
        })
        .unwrap_or_default();
    rc::Circuit {
        input_regs: usize_list(&v["input_regs"]),
        insts,
        max_reg_count: v["max_reg_count"].as_u64().unwrap_or(0) as usize,
        output_regs: usize_list(&v["output_regs"])
            .into_iter()
            .map(|r| rc::Reg(r as u32))
            .collect(),
        and_ops: v["and_ops"].as_u64().unwrap_or(0) as usize,
    }
}

pub fn reg_to_json(c: &rc::Circuit) -> Value {
    let insts: Vec<Value> = c
        .insts
        .iter()
        .map(|i| match i.op {
            rc::Op::Xor(rc::Xor(a, b)) => json!([i.out.0, "X", a.0, b.0]),
            rc::Op::And(rc::And(a, b)) => json!([i.out.0, "A", a.0, b.0]),
            rc::Op::Not(rc::Not(a)) => json!([i.out.0, "N", a.0]),
            rc::Op::Input(rc::Input { party, input }) => json!([i.out.0, "I", party, input]),
        })
        .collect();
    let outs: Vec<u32> = c.output_regs.iter().map(|r| r.0).collect();
    json!({"input_regs": c.input_regs, "insts": insts, "max_reg_count": c.max_reg_count,
           "output_regs": outs, "and_ops": c.and_ops})
}
