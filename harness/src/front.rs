//! C07: the whole front end on arbitrary text, one stage after the other, each under `catch_unwind`.
use garble_lang::{CompileTimeError, Error};
use serde_json::{Value, json};

use crate::guarded;

fn metas_of(e: &Error) -> Vec<[usize; 4]> {
    let mut v = vec![];
    if let Error::CompileTimeError(c) = e {
        match c {
            CompileTimeError::ScanErrors(es) => {
                for e in es {
                    v.push([e.1.start.0, e.1.start.1, e.1.end.0, e.1.end.1]);
                }
            }
            CompileTimeError::ParseError(es) => {
                for e in es {
                    v.push([e.1.start.0, e.1.start.1, e.1.end.0, e.1.end.1]);
                }
            }
            CompileTimeError::TypeError(es) => {
                for e in es {
                    v.push([e.1.start.0, e.1.start.1, e.1.end.0, e.1.end.1]);
                }
            }
            CompileTimeError::CompilerError(_) => {}
        }
    }
    v
}

/// `{src}` → `{outcome, n_errors, metas, render}`; `outcome` ∈ ok | scan | parse | type | compile | panic@…
pub fn frontend(case: &Value) -> Value {
    let src = case["src"].as_str().unwrap_or("").to_string();
    let r = guarded(|| garble_lang::compile(&src));
    match r {
        Err(p) => json!({"outcome": format!("panic@{p}")}),
        Ok(Ok(prg)) => {
            let v = match prg.circuit.unwrap_ssa_ref().validate() {
                Ok(()) => "ok".to_string(),
                Err(e) => crate::circ::ssa_err(&e),
            };
            json!({"outcome": "ok", "validate": v})
        }
        Ok(Err(e)) => {
            let (stage, n) = crate::lang::err_stage(&e);
            let metas = metas_of(&e);
            let render = match guarded(|| e.prettify(&src)) {
                Ok(s) => format!("ok:{}", s.len()),
                Err(p) => format!("panic@{p}"),
            };
            json!({"outcome": stage, "n_errors": n, "metas": metas, "render": render})
        }
    }
}

/// `{src, ty_src, text}`: `parse_arg(0, text)` for the program `src` (literal strings given to the
/// argument parser)
pub fn parse_arg(case: &Value) -> Value {
    let src = case["src"].as_str().unwrap_or("");
    let text = case["text"].as_str().unwrap_or("");
    match crate::lang::compile_src(src, true) {
        Ok(Ok(prg)) => match guarded(|| prg.parse_arg(0, text).map(|a| a.as_bits().len())) {
            Ok(Ok(n)) => json!({"outcome": "ok", "bits": n}),
            Ok(Err(e)) => {
                let render = match guarded(|| e.prettify(text)) {
                    Ok(s) => format!("ok:{}", s.len()),
                    Err(p) => format!("panic@{p}"),
                };
                json!({"outcome": "err", "render": render})
            }
            Err(p) => json!({"outcome": format!("panic@{p}")}),
        },
        _ => json!({"outcome": "program-rejected"}),
    }
}

/// `{src}` → the scanner's tokens (`Debug` text and location) or its errors
pub fn scan(case: &Value) -> Value {
    use garble_lang::scan::{ScanError, ScanErrorEnum};
    let src = case["src"].as_str().unwrap_or("").to_string();
    match guarded(|| garble_lang::scan::scan(&src)) {
        Err(p) => json!({"panic": p}),
        Ok(Ok(tokens)) => {
            let ts: Vec<Value> = tokens
                .0
                .iter()
                .map(|t| json!([format!("{:?}", t.0), [t.1.start.0, t.1.start.1, t.1.end.0, t.1.end.1]]))
                .collect();
            json!({"ok": true, "tokens": ts})
        }
        Ok(Err(errs)) => {
            let es: Vec<Value> = errs
                .iter()
                .map(|ScanError(e, m)| {
                    let k = match e {
                        ScanErrorEnum::UnexpectedCharacter => "UnexpectedCharacter",
                        ScanErrorEnum::InvalidUnsignedNum => "InvalidUnsignedNum",
                        ScanErrorEnum::InvalidSignedNum => "InvalidSignedNum",
                    };
                    json!([k, [m.start.0, m.start.1, m.end.0, m.end.1]])
                })
                .collect();
            json!({"ok": false, "errors": es})
        }
    }
}

/// `{src, metas}` → for each location the text `prettify_meta` adds for it (`null` = it panics);
/// obtained by rendering a scan error at that location and cutting off the two header lines.
pub fn render(case: &Value) -> Value {
    use garble_lang::scan::{ScanError, ScanErrorEnum};
    use garble_lang::token::MetaInfo;
    let src = case["src"].as_str().unwrap_or("").to_string();
    let mut out = vec![];
    for m in case["metas"].as_array().cloned().unwrap_or_default() {
        let g = |i: usize| m[i].as_u64().unwrap_or(0) as usize;
        let meta = MetaInfo { start: (g(0), g(1)), end: (g(2), g(3)) };
        let e = CompileTimeError::ScanErrors(vec![ScanError(ScanErrorEnum::UnexpectedCharacter, meta)]);
        match guarded(|| e.prettify(&src)) {
            Err(_) => out.push(Value::Null),
            Ok(text) => {
                // "\nScan error on line L:C.\nUnexpected character:\n" + prettify_meta
                let rest = text.splitn(4, '\n').nth(3).unwrap_or("").to_string();
                out.push(json!(rest));
            }
        }
    }
    json!({"renders": out})
}

fn pat_json(p: &garble_lang::ast::Pattern<garble_lang::ast::Type>) -> Value {
    use garble_lang::ast::PatternEnum as P;
    match &p.0 {
        P::Identifier(n) => json!(["id", n]),
        P::True => json!(["bool", true]),
        P::False => json!(["bool", false]),
        P::NumUnsigned(n, _) => json!(["int", n]),
        P::NumSigned(n, _) => json!(["int", n]),
        P::Tuple(ps) => json!(["tuple", ps.iter().map(pat_json).collect::<Vec<_>>()]),
        P::Struct(name, fs) | P::StructIgnoreRemaining(name, fs) => {
            json!(["struct", name, fs.iter().map(|(f, p)| json!([f, pat_json(p)])).collect::<Vec<_>>()])
        }
        P::EnumUnit(e, v) => json!(["eunit", e, v]),
        P::EnumTuple(e, v, ps) => json!(["etuple", e, v, ps.iter().map(pat_json).collect::<Vec<_>>()]),
        P::UnsignedInclusiveRange(a, b, _) => json!(["range", a, b]),
        P::SignedInclusiveRange(a, b, _) => json!(["range", a, b]),
    }
}

/// `{src}` → `{verdict: ok | non_exhaustive | other | panic, witnesses?, detail?}`: the type checker's
/// verdict on the (single) match of the program, with the missing cases it reports
pub fn match_check(case: &Value) -> Value {
    use garble_lang::check::TypeErrorEnum;
    let src = case["src"].as_str().unwrap_or("").to_string();
    match guarded(|| garble_lang::check(&src)) {
        Err(p) => json!({"verdict": "panic", "detail": p}),
        Ok(Ok(_)) => json!({"verdict": "ok"}),
        Ok(Err(Error::CompileTimeError(CompileTimeError::TypeError(errs)))) => {
            let mut wits = vec![];
            let mut other = vec![];
            for e in errs.iter() {
                match e.0.as_ref() {
                    TypeErrorEnum::PatternsAreNotExhaustive(missing) => {
                        for stack in missing {
                            wits.push(Value::Array(stack.iter().map(pat_json).collect()));
                        }
                    }
                    e => other.push(format!("{e}")),
                }
            }
            if other.is_empty() {
                json!({"verdict": "non_exhaustive", "witnesses": wits})
            } else {
                json!({"verdict": "other", "detail": other.join("; ")})
            }
        }
        Ok(Err(e)) => json!({"verdict": "other", "detail": e.prettify(&src)}),
    }
}
