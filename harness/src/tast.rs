//! The type-checked program as the syntax tree of the Lean model (format: tools/gv/gen_prog.py,
//! Driver/AstCodec.lean): what `check.rs` inferred — operand types, cast sources, literal types —
//! becomes the annotations of the tree, so that the model judges the program the checker accepted
//! and not a reconstruction of it.
use std::collections::{BTreeSet, HashMap};

use garble_lang::TypedProgram;
use garble_lang::ast::{
    Accessor, ConstExprEnum, Expr, ExprEnum, Op, Pattern, PatternEnum, Stmt, StmtEnum, Type, UnaryOp,
    VariantExprEnum,
};
use garble_lang::token::{MetaInfo, SignedNumType, UnsignedNumType};
use serde_json::{Value, json};

use crate::guarded;
use crate::types::{sint_name, ty_to_json, uint_name};

struct Cx<'a> {
    prg: &'a TypedProgram,
    sizes: HashMap<String, usize>,
    /// constructs the value-level model of the compiler (`Model/BitSem.lean`) does not cover
    uses: BTreeSet<&'static str>,
    /// the operations that can fail at run time: the panics they can raise and their location in the text
    sites: Vec<Value>,
}

type R = Result<Value, String>;

fn meta_json(m: &MetaInfo) -> Value {
    json!([m.start.0, m.start.1, m.end.0, m.end.1])
}

impl<'a> Cx<'a> {
    fn ty(&self, t: &Type) -> R {
        ty_to_json(self.prg, t, &self.sizes, 0)
    }

    fn int_name(&self, t: &Type) -> Result<&'static str, String> {
        match t {
            Type::Unsigned(UnsignedNumType::Unspecified) | Type::Signed(SignedNumType::Unspecified) => {
                Err("number without a type".into())
            }
            Type::Unsigned(u) => Ok(uint_name(u)),
            Type::Signed(s) => Ok(sint_name(s)),
            other => Err(format!("number literal of type {other}")),
        }
    }

    fn pat(&mut self, p: &Pattern<Type>) -> R {
        let Pattern(inner, _, _) = p;
        Ok(match inner {
            PatternEnum::Identifier(x) => json!(["id", x]),
            PatternEnum::True => json!(["bool", true]),
            PatternEnum::False => json!(["bool", false]),
            PatternEnum::NumUnsigned(n, _) => json!(["int", n]),
            PatternEnum::NumSigned(n, _) => json!(["int", n]),
            PatternEnum::Tuple(ps) => {
                let ps: Result<Vec<Value>, String> = ps.iter().map(|p| self.pat(p)).collect();
                json!(["tuple", ps?])
            }
            PatternEnum::Struct(name, fs) | PatternEnum::StructIgnoreRemaining(name, fs) => {
                let mut out = vec![];
                let mut fs: Vec<&(String, Pattern<Type>)> = fs.iter().collect();
                fs.sort_by(|a, b| a.0.cmp(&b.0));
                for (f, p) in fs {
                    out.push(json!([f, self.pat(p)?]));
                }
                json!(["struct", name, out])
            }
            PatternEnum::EnumUnit(e, v) => json!(["eunit", e, v]),
            PatternEnum::EnumTuple(e, v, ps) => {
                let ps: Result<Vec<Value>, String> = ps.iter().map(|p| self.pat(p)).collect();
                json!(["etuple", e, v, ps?])
            }
            PatternEnum::UnsignedInclusiveRange(a, b, _) => json!(["range", a, b]),
            PatternEnum::SignedInclusiveRange(a, b, _) => json!(["range", a, b]),
        })
    }

    fn exprs(&mut self, es: &[Expr<Type>]) -> Result<Vec<Value>, String> {
        es.iter().map(|e| self.expr(e)).collect()
    }

    fn expr(&mut self, e: &Expr<Type>) -> R {
        Ok(match &e.inner {
            ExprEnum::True => json!(["bool", true]),
            ExprEnum::False => json!(["bool", false]),
            ExprEnum::NumUnsigned(n, _) => json!(["int", n, self.int_name(&e.ty)?]),
            ExprEnum::NumSigned(n, _) => json!(["int", n, self.int_name(&e.ty)?]),
            ExprEnum::Identifier(x) => json!(["var", x]),
            ExprEnum::ArrayLiteral(es) => json!(["array", self.exprs(es)?]),
            ExprEnum::ArrayRepeatLiteral(x, n) => json!(["repeat", self.expr(x)?, n]),
            ExprEnum::ArrayRepeatLiteralConst(x, c) => match self.sizes.get(c).copied() {
                Some(n) => json!(["repeat", self.expr(x)?, n]),
                None => return Err(format!("array size {c} is not known")),
            },
            ExprEnum::ArrayAccess(a, i) => {
                let k = self.sites.len();
                self.sites.push(json!({"kinds": ["OutOfBounds"], "meta": meta_json(&e.meta), "node": "index"}));
                json!(["index", self.expr(a)?, self.expr(i)?, {"site": k}])
            }
            ExprEnum::TupleLiteral(es) => json!(["tuple", self.exprs(es)?]),
            ExprEnum::TupleAccess(t, i) => json!(["tget", self.expr(t)?, i]),
            ExprEnum::StructAccess(s, f) => json!(["field", self.expr(s)?, f]),
            ExprEnum::StructLiteral(name, fs) => {
                let mut out = vec![];
                for (f, x) in fs {
                    out.push(json!([f, self.expr(x)?]));
                }
                json!(["struct", name, out])
            }
            ExprEnum::EnumLiteral(en, v, VariantExprEnum::Unit) => json!(["enum", en, v, true, []]),
            ExprEnum::EnumLiteral(en, v, VariantExprEnum::Tuple(es)) => {
                json!(["enum", en, v, false, self.exprs(es)?])
            }
            ExprEnum::Match(s, arms) => {
                let mut out = vec![];
                for (p, x) in arms {
                    out.push(json!([self.pat(p)?, self.expr(x)?]));
                }
                json!(["match", self.expr(s)?, out])
            }
            ExprEnum::UnaryOp(op, x) => {
                match op {
                    UnaryOp::Neg => {
                        let k = self.sites.len();
                        self.sites.push(json!({"kinds": ["Overflow"], "meta": meta_json(&e.meta), "node": "un"}));
                        json!(["un", "neg", self.ty(&x.ty)?, self.expr(x)?, {"site": k}])
                    }
                    UnaryOp::Not => json!(["un", "not", self.ty(&x.ty)?, self.expr(x)?]),
                }
            }
            ExprEnum::Op(op, a, b) => {
                let sym = match op {
                    Op::Add => "+",
                    Op::Sub => "-",
                    Op::Mul => "*",
                    Op::Div => "/",
                    Op::Mod => "%",
                    Op::BitAnd => "&",
                    Op::BitXor => "^",
                    Op::BitOr => "|",
                    Op::GreaterThan => ">",
                    Op::LessThan => "<",
                    Op::Eq => "==",
                    Op::NotEq => "!=",
                    Op::ShiftLeft => "<<",
                    Op::ShiftRight => ">>",
                    Op::ShortCircuitAnd => "&&",
                    Op::ShortCircuitOr => "||",
                };
                let mut site = None;
                match op {
                    Op::Add | Op::Sub | Op::Mul | Op::ShiftLeft | Op::ShiftRight => {
                        site = Some(self.sites.len());
                        self.sites.push(json!({"kinds": ["Overflow"], "meta": meta_json(&e.meta), "node": "bin"}))
                    }
                    Op::Div | Op::Mod => {
                        site = Some(self.sites.len());
                        self.sites.push(json!({"kinds": ["DivByZero", "Overflow"], "meta": meta_json(&e.meta), "node": "bin"}))
                    }
                    _ => {}
                }
                if let Op::Mul = op {
                    for x in [a, b] {
                        if let ExprEnum::NumSigned(n, _) = &x.inner {
                            if *n < 0 {
                                self.uses.insert("mul-by-negative-literal");
                            }
                        }
                    }
                }
                match site {
                    Some(k) => json!(["bin", sym, self.ty(&a.ty)?, self.expr(a)?, self.expr(b)?, {"site": k}]),
                    None => json!(["bin", sym, self.ty(&a.ty)?, self.expr(a)?, self.expr(b)?]),
                }
            }
            ExprEnum::Block(ss) => json!(["block", self.stmts(ss)?]),
            ExprEnum::FnCall(f, args) => json!(["call", f, self.exprs(args)?]),
            ExprEnum::BuiltInFnCall(_) => return Err("join()".into()),
            ExprEnum::If(c, t, f) => json!(["if", self.expr(c)?, self.expr(t)?, self.expr(f)?]),
            ExprEnum::Cast(to, x) => json!(["cast", self.ty(&x.ty)?, self.ty(to)?, self.expr(x)?]),
            ExprEnum::Range(lo, hi, t) => {
                let t = match &e.ty {
                    Type::Array(elem, _) => self.int_name(elem)?,
                    _ => self.int_name(&Type::Unsigned(*t))?,
                };
                json!(["range", lo, hi, t])
            }
        })
    }

    fn stmts(&mut self, ss: &[Stmt<Type>]) -> Result<Vec<Value>, String> {
        ss.iter().map(|s| self.stmt(s)).collect()
    }

    fn stmt(&mut self, s: &Stmt<Type>) -> R {
        Ok(match &s.inner {
            StmtEnum::Let(p, _, e) => json!(["let", self.pat(p)?, self.expr(e)?]),
            StmtEnum::LetMut(x, _, e) => json!(["letmut", x, self.expr(e)?]),
            StmtEnum::VarAssign(x, path, e) => {
                let mut site = None;
                if path.iter().any(|(a, _)| matches!(a, Accessor::ArrayAccess { .. })) {
                    site = Some(self.sites.len());
                    self.sites.push(json!({"kinds": ["OutOfBounds"], "meta": meta_json(&s.meta), "node": "assign"}));
                }
                let mut steps = vec![];
                for (a, _) in path {
                    steps.push(match a {
                        Accessor::ArrayAccess { index, .. } => json!(["i", self.expr(index)?]),
                        Accessor::TupleAccess { index, .. } => json!(["t", index]),
                        Accessor::StructAccess { field, .. } => json!(["f", field]),
                    });
                }
                match site {
                    Some(k) => json!(["assign", x, steps, self.expr(e)?, {"site": k}]),
                    None => json!(["assign", x, steps, self.expr(e)?]),
                }
            }
            StmtEnum::ForEachLoop(p, a, body) => json!(["for", self.pat(p)?, self.expr(a)?, self.stmts(body)?]),
            StmtEnum::JoinLoop(p, _, (a, b), body) => {
                self.uses.insert("for-join");
                json!(["forjoin", self.pat(p)?, self.expr(a)?, self.expr(b)?, self.stmts(body)?])
            }
            StmtEnum::Expr(e) => json!(["expr", self.expr(e)?]),
        })
    }
}

/// the program of the model, or why the program is outside the modelled language
pub fn program_json(prg: &TypedProgram) -> Result<(Value, Vec<&'static str>, Vec<Value>), String> {
    let mut cx = Cx { prg, sizes: HashMap::new(), uses: BTreeSet::new(), sites: vec![] };
    // constants: only those written as literals (no external values, no constant expressions)
    let mut consts = vec![];
    let mut const_tys = vec![];
    let mut names: Vec<&String> = prg.const_defs.keys().collect();
    names.sort();
    for name in names {
        let def = &prg.const_defs[name];
        let v = match &def.value.0 {
            ConstExprEnum::True => json!(true),
            ConstExprEnum::False => json!(false),
            ConstExprEnum::NumUnsigned(n, _) => {
                if let Type::Unsigned(UnsignedNumType::Usize) = def.ty {
                    cx.sizes.insert(name.clone(), *n as usize);
                }
                json!(n)
            }
            ConstExprEnum::NumSigned(n, _) => json!(n),
            _ => return Err("a constant that is not a literal".into()),
        };
        consts.push(json!([name, v]));
        const_tys.push(json!([name, cx.ty(&def.ty)?]));
    }
    let mut fns = vec![];
    let mut names: Vec<&String> = prg.fn_defs.keys().collect();
    names.sort_by_key(|n| (n.as_str() != "main", n.to_string()));
    for name in names {
        let d = &prg.fn_defs[name];
        let mut params = vec![];
        for p in &d.params {
            params.push(json!([p.name, cx.ty(&p.ty)?]));
        }
        fns.push(json!({"name": name, "params": params, "ret": cx.ty(&d.ty)?, "body": cx.stmts(&d.body)?,
                        "pub": d.is_pub}));
    }
    let mut enums = vec![];
    let mut names: Vec<&String> = prg.enum_defs.keys().collect();
    names.sort();
    for n in names {
        let t = cx.ty(&Type::Enum(n.clone()))?;
        enums.push(json!([n, t["variants"]]));
    }
    let uses = cx.uses.into_iter().collect();
    Ok((json!({"fns": fns, "consts": consts, "const_tys": const_tys, "enums": enums}), uses, cx.sites))
}

/// `{src}` → `{outcome}` as `frontend` (the stage that rejected the text), and for an accepted program `prog`
/// (the checked program as the model's tree) and `uses`, or `outside` with the reason
pub fn typed_ast(case: &Value) -> Value {
    let src = case["src"].as_str().unwrap_or("").to_string();
    match guarded(|| garble_lang::check(&src)) {
        Err(p) => json!({"outcome": format!("panic@{p}")}),
        Ok(Err(e)) => {
            let (stage, n) = crate::lang::err_stage(&e);
            json!({"outcome": stage, "n_errors": n})
        }
        Ok(Ok(prg)) => match guarded(|| program_json(&prg)) {
            Err(p) => json!({"outcome": "ok", "outside": format!("panic@{p}")}),
            Ok(Err(why)) => json!({"outcome": "ok", "outside": why}),
            Ok(Ok((prog, uses, sites))) => json!({"outcome": "ok", "prog": prog, "uses": uses, "sites": sites}),
        },
    }
}
