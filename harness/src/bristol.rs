//! C11: Bristol export / import through temporary files.
use std::path::PathBuf;

use garble_lang::circuit::Circuit;
use garble_lang::convert::{FromBristolError, ToBristolError};
use serde_json::{Value, json};

use crate::guarded;
use crate::util::*;

fn tmp_path(tag: &str) -> PathBuf {
    let dir = std::env::var("GVH_TMP").unwrap_or_else(|_| "/verif/.work/tmp".to_string());
    std::fs::create_dir_all(&dir).ok();
    PathBuf::from(dir).join(format!("{}-{}.bristol", tag, std::process::id()))
}

pub fn tokenize(text: &str) -> Value {
    let lines: Vec<Value> = text
        .lines()
        .map(|l| {
            Value::Array(
                l.split_whitespace()
                    .map(|t| match t.parse::<usize>() {
                        Ok(n) => json!({"n": n}),
                        Err(_) => json!({"w": t}),
                    })
                    .collect(),
            )
        })
        .collect();
    Value::Array(lines)
}

fn import_err(e: &FromBristolError) -> String {
    match e {
        FromBristolError::IoError(_) => "IoError".into(),
        FromBristolError::ParseIntError(_) => "ParseIntError".into(),
        FromBristolError::UnknownGate(_) => "UnknownGate".into(),
        FromBristolError::MissingGateType => "MissingGateType".into(),
        FromBristolError::OtherParseError(_) => "OtherParseError".into(),
        FromBristolError::InputPartiesMismatch(_, _) => "InputPartiesMismatch".into(),
        FromBristolError::OutputCountMismatch(_, _) => "OutputCountMismatch".into(),
        FromBristolError::MissingLine => "MissingLine".into(),
        FromBristolError::MalformedLine(_) => "MalformedLine".into(),
        FromBristolError::InvalidWireIndex(w) => format!("InvalidWireIndex:{w}"),
        _ => "Other".into(),
    }
}

fn import_file(path: &PathBuf) -> Value {
    match guarded(|| Circuit::bristol_to_garble(path)) {
        Err(p) => json!({"result": "panic", "detail": p}),
        Ok(Err(e)) => json!({"result": "error", "error": import_err(&e)}),
        Ok(Ok(c)) => {
            // `validate` walks over every input wire one by one: skip it for absurd party sizes
            let huge = c.input_gates.iter().any(|n| *n > 1_000_000);
            let v = if huge {
                "skipped-huge-inputs".to_string()
            } else {
                match guarded(|| c.validate()) {
                Ok(Ok(())) => "ok".to_string(),
                Ok(Err(e)) => crate::circ::ssa_err(&e),
                    Err(p) => format!("panic@{p}"),
                }
            };
            json!({"result": "ok", "circuit": ssa_to_json(&c), "validate": v})
        }
    }
}

/// `{circuit, inputs}` → exported tokens, re-imported circuit, outputs of both on the inputs
pub fn bristol_export(case: &Value) -> Value {
    let c = ssa_from_json(&case["circuit"]);
    let path = tmp_path("exp");
    let res = guarded(|| c.format_as_bristol(&path));
    let out = match res {
        Err(p) => json!({"export": "panic", "detail": p}),
        Ok(Err(ToBristolError::OutputWireIsInput)) => json!({"export": "OutputWireIsInput"}),
        Ok(Err(_)) => json!({"export": "IoError"}),
        Ok(Ok(())) => {
            let text = std::fs::read_to_string(&path).unwrap_or_default();
            let imported = import_file(&path);
            let mut orig = vec![];
            let mut back = vec![];
            let c2 = if imported["result"] == "ok" { Some(ssa_from_json(&imported["circuit"])) } else { None };
            for ins in case["inputs"].as_array().cloned().unwrap_or_default() {
                let ins = inputs_of(&ins);
                orig.push(match guarded(|| c.eval(&ins)) {
                    Ok(b) => bits_to_string(&b[161.min(b.len())..]),
                    Err(_) => "panic".into(),
                });
                if let Some(c2) = &c2 {
                    back.push(match guarded(|| c2.eval(&ins)) {
                        Ok(b) => bits_to_string(&b),
                        Err(_) => "panic".into(),
                    });
                }
            }
            json!({"export": "ok", "lines": tokenize(&text), "imported": imported, "orig_outs": orig, "back_outs": back})
        }
    };
    std::fs::remove_file(&path).ok();
    out
}

/// `{text}` → tokens and the importer's verdict on that file
pub fn bristol_import(case: &Value) -> Value {
    let text = case["text"].as_str().unwrap_or("");
    let path = tmp_path("imp");
    std::fs::write(&path, text).ok();
    let imported = import_file(&path);
    std::fs::remove_file(&path).ok();
    json!({"lines": tokenize(text), "imported": imported})
}
