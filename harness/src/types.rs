//! Expansion of program types to self-contained JSON (struct/enum definitions inlined, constant
//! array sizes resolved), for the Lean driver.
use std::collections::HashMap;

use garble_lang::TypedProgram;
use garble_lang::ast::{Type, Variant};
use garble_lang::verif_hooks::resolve_const_type;
use garble_lang::token::{SignedNumType, UnsignedNumType};
use serde_json::{Value, json};

pub fn uint_name(t: &UnsignedNumType) -> &'static str {
    match t {
        UnsignedNumType::Usize => "usize",
        UnsignedNumType::U8 => "u8",
        UnsignedNumType::U16 => "u16",
        UnsignedNumType::U32 => "u32",
        UnsignedNumType::U64 => "u64",
        UnsignedNumType::Unspecified => "uUnspec",
    }
}

pub fn sint_name(t: &SignedNumType) -> &'static str {
    match t {
        SignedNumType::I8 => "i8",
        SignedNumType::I16 => "i16",
        SignedNumType::I32 => "i32",
        SignedNumType::I64 => "i64",
        SignedNumType::Unspecified => "iUnspec",
    }
}

/// Expanded type; `Err` if the type cannot be expanded (recursive definition, unknown name,
/// function type, unresolved constant).
pub fn ty_to_json(
    prg: &TypedProgram,
    ty: &Type,
    const_sizes: &HashMap<String, usize>,
    depth: usize,
) -> Result<Value, String> {
    if depth > 24 {
        return Err("type nesting too deep (recursive definition?)".into());
    }
    let ty = resolve_const_type(ty, const_sizes);
    Ok(match &ty {
        Type::Bool => json!({"k": "bool"}),
        Type::Unsigned(t) => json!({"k": "int", "t": uint_name(&t)}),
        Type::Signed(t) => json!({"k": "int", "t": sint_name(&t)}),
        Type::Array(elem, n) => {
            json!({"k": "array", "elem": ty_to_json(prg, elem.as_ref(), const_sizes, depth + 1)?, "n": n})
        }
        Type::Tuple(ts) => {
            let ts: Result<Vec<Value>, String> =
                ts.iter().map(|t| ty_to_json(prg, t, const_sizes, depth + 1)).collect();
            json!({"k": "tuple", "ts": ts?})
        }
        Type::Struct(name) => {
            let def = prg.struct_defs.get(name).ok_or("unknown struct")?;
            let mut fields = vec![];
            for (f, t) in def.fields.iter() {
                fields.push(json!([f, ty_to_json(prg, t, const_sizes, depth + 1)?]));
            }
            json!({"k": "struct", "name": name, "fields": fields})
        }
        Type::Enum(name) => {
            let def = prg.enum_defs.get(name).ok_or("unknown enum")?;
            let mut variants = vec![];
            for v in def.variants.iter() {
                match v {
                    Variant::Unit(n) => variants.push(json!([n, true, []])),
                    Variant::Tuple(n, ts) => {
                        let ts: Result<Vec<Value>, String> =
                            ts.iter().map(|t| ty_to_json(prg, t, const_sizes, depth + 1)).collect();
                        variants.push(json!([n, false, ts?]))
                    }
                }
            }
            json!({"k": "enum", "name": name, "variants": variants})
        }
        other => return Err(format!("type not expandable: {other}")),
    })
}

/// All struct and enum definitions of the program, expanded.
pub fn defs_to_json(prg: &TypedProgram, const_sizes: &HashMap<String, usize>) -> Result<Value, String> {
    let mut structs = vec![];
    let mut names: Vec<&String> = prg.struct_defs.keys().collect();
    names.sort();
    for n in names {
        let t = ty_to_json(prg, &Type::Struct(n.clone()), const_sizes, 0)?;
        structs.push(json!([n, t["fields"]]));
    }
    let mut enums = vec![];
    let mut names: Vec<&String> = prg.enum_defs.keys().collect();
    names.sort();
    for n in names {
        let t = ty_to_json(prg, &Type::Enum(n.clone()), const_sizes, 0)?;
        enums.push(json!([n, t["variants"]]));
    }
    Ok(json!({"structs": structs, "enums": enums}))
}
