//! gvh — the implementation side of the correspondence checks.
//!
//! Reads one JSON case per line on stdin, runs the real garble_lang code on it in-process
//! (each case under `catch_unwind`), writes one JSON result per line on stdout.
//! Results are canonical: bits as "0101" strings, errors as short tags.

use std::cell::RefCell;
use std::io::{BufRead, Write};
use std::panic::{self, AssertUnwindSafe};

use serde_json::{Value, json};

mod bristol;
mod builder;
mod circ;
mod front;
mod lang;
mod lit;
mod tast;
mod types;
mod util;

thread_local! {
    static LAST_PANIC: RefCell<Option<String>> = const { RefCell::new(None) };
}

fn handle(case: &Value) -> Value {
    let op = case["op"].as_str().unwrap_or("");
    match op {
        "ssa_validate_eval" => circ::ssa_validate_eval(case),
        "reg_validate_eval" => circ::reg_validate_eval(case),
        "compile" => lang::compile(case),
        "convert" => circ::convert(case),
        "bristol_export" => bristol::bristol_export(case),
        "bristol_import" => bristol::bristol_import(case),
        "builder_run" => builder::builder_run(case),
        "panic_run" => builder::panic_run(case),
        "compile_eval" => lang::compile_eval(case),
        "literal_check" => lit::literal_check(case),
        "compile_repeat" => lang::compile_repeat(case),
        "parse_args" => lang::parse_args(case),
        "frontend" => front::frontend(case),
        "typed_ast" => tast::typed_ast(case),
        "parse_arg" => front::parse_arg(case),
        "scan" => front::scan(case),
        "render" => front::render(case),
        "match_check" => front::match_check(case),
        _ => json!({"error": format!("unknown op {op}")}),
    }
}

fn main() {
    panic::set_hook(Box::new(|info| {
        let loc = info
            .location()
            .map(|l| format!("{}:{}", l.file(), l.line()))
            .unwrap_or_default();
        let msg = if let Some(s) = info.payload().downcast_ref::<&str>() {
            s.to_string()
        } else if let Some(s) = info.payload().downcast_ref::<String>() {
            s.clone()
        } else {
            "?".to_string()
        };
        LAST_PANIC.with(|p| *p.borrow_mut() = Some(format!("{loc}: {msg}")));
    }));
    let stdin = std::io::stdin();
    let stdout = std::io::stdout();
    let mut out = std::io::BufWriter::new(stdout.lock());
    for line in stdin.lock().lines() {
        let line = line.expect("read");
        if line.trim().is_empty() {
            continue;
        }
        let case: Value = match serde_json::from_str(&line) {
            Ok(v) => v,
            Err(e) => {
                writeln!(out, "{}", json!({"error": format!("bad json: {e}")})).unwrap();
                continue;
            }
        };
        let res = panic::catch_unwind(AssertUnwindSafe(|| handle(&case)));
        let mut res = match res {
            Ok(v) => v,
            Err(_) => {
                let msg = LAST_PANIC.with(|p| p.borrow_mut().take()).unwrap_or_default();
                json!({"harness_panic": msg})
            }
        };
        if let (Some(id), Some(obj)) = (case.get("id"), res.as_object_mut()) {
            obj.insert("id".to_string(), id.clone());
        }
        writeln!(out, "{res}").unwrap();
        out.flush().unwrap();
    }
}

/// Runs `f` under `catch_unwind`; `Err(location: message)` if it panicked.
pub fn guarded<T>(f: impl FnOnce() -> T) -> Result<T, String> {
    match panic::catch_unwind(AssertUnwindSafe(f)) {
        Ok(v) => Ok(v),
        Err(_) => Err(LAST_PANIC.with(|p| p.borrow_mut().take()).unwrap_or_default()),
    }
}
