//! Circuit-level ops: validation / evaluation of arbitrary circuit values (C16), …
use garble_lang::circuit::CircuitError;
use garble_lang::register_circuit as rc;
use serde_json::{Value, json};

use crate::guarded;
use crate::util::*;

pub fn ssa_err(e: &CircuitError) -> String {
    match e {
        CircuitError::InvalidGate(i) => format!("InvalidGate:{i}"),
        CircuitError::InvalidOutput(o) => format!("InvalidOutput:{o}"),
        CircuitError::EmptyInputs => "EmptyInputs".into(),
        CircuitError::EmptyOutputs => "EmptyOutputs".into(),
        CircuitError::MaxCircuitSizeExceeded => "MaxCircuitSizeExceeded".into(),
        CircuitError::PartyIndexOutOfBounds => "PartyIndexOutOfBounds".into(),
    }
}

pub fn reg_err(e: &rc::CircuitError) -> String {
    match e {
        rc::CircuitError::EmptyInputs => "EmptyInputs".into(),
        rc::CircuitError::InvalidInst(i) => format!("InvalidInst:{i}"),
        rc::CircuitError::EmptyOutputs => "EmptyOutputs".into(),
        rc::CircuitError::InvalidOutput(r) => format!("InvalidOutput:{}", r.0),
        rc::CircuitError::MaxCircuitSizeExceeded => "MaxCircuitSizeExceeded".into(),
        rc::CircuitError::InvalidRegAccess(i, r) => format!("InvalidRegAccess:{i}:{}", r.0),
        rc::CircuitError::InvalidInput(i, _) => format!("InvalidInput:{i}"),
    }
}

/// `{circuit, inputs}` → `{validate, eval}`; `eval` is the output bit string or "panic".
pub fn ssa_validate_eval(case: &Value) -> Value {
    let c = ssa_from_json(&case["circuit"]);
    let inputs = inputs_of(&case["inputs"]);
    let validate = match guarded(|| c.validate()) {
        Ok(Ok(())) => "ok".to_string(),
        Ok(Err(e)) => ssa_err(&e),
        Err(p) => format!("panic@{p}"),
    };
    let (eval, detail) = match guarded(|| c.eval(&inputs)) {
        Ok(bits) => (bits_to_string(&bits), String::new()),
        Err(p) => ("panic".to_string(), p),
    };
    json!({"validate": validate, "eval": eval, "detail": detail})
}

pub fn reg_validate_eval(case: &Value) -> Value {
    let c = reg_from_json(&case["circuit"]);
    let inputs = inputs_of(&case["inputs"]);
    let validate = match guarded(|| c.validate()) {
        Ok(Ok(())) => "ok".to_string(),
        Ok(Err(e)) => reg_err(&e),
        Err(p) => format!("panic@{p}"),
    };
    let (eval, detail) = match guarded(|| c.eval(&inputs)) {
        Ok(bits) => (bits_to_string(&bits), String::new()),
        Err(p) => ("panic".to_string(), p),
    };
    json!({"validate": validate, "eval": eval, "detail": detail})
}

/// `{circuit, inputs: [[party bits…]…]}` → the register circuit produced by the real conversion,
/// its validation verdict, and the outputs of both forms on every given input.
pub fn convert(case: &Value) -> Value {
    let c = ssa_from_json(&case["circuit"]);
    let reg = match guarded(|| rc::Circuit::from(&c)) {
        Ok(r) => r,
        Err(p) => return json!({"panic": p}),
    };
    let validate = match guarded(|| reg.validate()) {
        Ok(Ok(())) => "ok".to_string(),
        Ok(Err(e)) => reg_err(&e),
        Err(p) => format!("panic@{p}"),
    };
    let mut ssa_outs = vec![];
    let mut reg_outs = vec![];
    for ins in case["inputs"].as_array().cloned().unwrap_or_default() {
        let ins = inputs_of(&ins);
        ssa_outs.push(match guarded(|| c.eval(&ins)) {
            Ok(b) => bits_to_string(&b),
            Err(_) => "panic".into(),
        });
        reg_outs.push(match guarded(|| reg.eval(&ins)) {
            Ok(b) => bits_to_string(&b),
            Err(_) => "panic".into(),
        });
    }
    json!({"reg": reg_to_json(&reg), "validate": validate, "ssa_outs": ssa_outs, "reg_outs": reg_outs,
           "wires_len": c.wires_len(), "and_gates": c.and_gates()})
}
