//! C09: literal validation, encoding, decoding, text round trip through the public API.
use garble_lang::literal::Literal;
use serde_json::{Value, json};

use crate::guarded;
use crate::lang::{compile_src, err_stage};
use crate::types::{defs_to_json, ty_to_json};
use crate::util::*;

/// `{src, lits: [serde Literal…], texts: [str…]}`; parameter 0 of `main` is the type under test
/// and `main` returns it unchanged.
pub fn literal_check(case: &Value) -> Value {
    let src = case["src"].as_str().unwrap_or("");
    let prg = match compile_src(src, true) {
        Err(p) => return json!({"ok": false, "stage": "panic", "detail": p}),
        Ok(Err(e)) => {
            let (stage, n) = err_stage(&e);
            return json!({"ok": false, "stage": stage, "n": n, "detail": e.prettify(src)});
        }
        Ok(Ok(p)) => p,
    };
    let param_ty = &prg.main.params[0].ty;
    let ty = match ty_to_json(&prg.program, param_ty, &prg.const_sizes, 0) {
        Ok(t) => t,
        Err(e) => return json!({"ok": false, "stage": "expand", "detail": e}),
    };
    let defs = defs_to_json(&prg.program, &prg.const_sizes).unwrap_or(Value::Null);
    let mut results = vec![];
    for lv in case["lits"].as_array().cloned().unwrap_or_default() {
        let lit: Literal = match serde_json::from_value(lv.clone()) {
            Ok(l) => l,
            Err(e) => {
                results.push(json!({"accept": "undeserializable", "detail": e.to_string()}));
                continue;
            }
        };
        let mut r = serde_json::Map::new();
        // type test through the API
        let accept = match guarded(|| prg.literal_arg(0, lit.clone()).map(|a| a.as_bits())) {
            Ok(Ok(bits)) => {
                r.insert("bits".into(), json!(bits_to_string(&bits)));
                "ok".to_string()
            }
            Ok(Err(_)) => "err".to_string(),
            Err(p) => format!("panic@{p}"),
        };
        r.insert("accept".into(), json!(accept));
        // Evaluator::set_literal + run (identity program)
        let ident = guarded(|| {
            let mut ev = prg.evaluator();
            match ev.set_literal(lit.clone()) {
                Err(_) => Err("err".to_string()),
                Ok(()) => {
                    if prg.main.params.len() == 2 {
                        ev.set_bool(false); // the `_pad` parameter
                    }
                    Ok(())
                }
            }
            .and_then(|()| match ev.run() {
                    Err(_) => Err("run-err".to_string()),
                    Ok(out) => match out.into_literal() {
                        Ok(l) => Ok(l),
                        Err(_) => Err("decode-err".to_string()),
                    },
                })
        });
        match ident {
            Ok(Ok(l)) => {
                r.insert("identity".into(), serde_json::to_value(&l).unwrap());
                r.insert("identity_text".into(), json!(l.to_string()));
            }
            Ok(Err(e)) => {
                r.insert("identity".into(), json!(e));
            }
            Err(p) => {
                r.insert("identity".into(), json!(format!("panic@{p}")));
            }
        }
        // decoding of the encoded bits through parse_output (161 clear panic bits prepended)
        if let Some(bits) = r.get("bits").and_then(|b| b.as_str()) {
            let mut out = vec![false; 161];
            out[32] = true;
            out.extend(string_to_bits(bits));
            match guarded(|| prg.parse_output(&out)) {
                Ok(Ok(l)) => {
                    // print and parse back
                    let text = l.to_string();
                    let back = guarded(|| prg.parse_arg(0, &text).map(|a| a.as_literal()));
                    let rt = match back {
                        Ok(Ok(l2)) => {
                            if l2 == l {
                                "same".to_string()
                            } else {
                                format!("differs: {}", serde_json::to_string(&l2).unwrap())
                            }
                        }
                        Ok(Err(_)) => "parse-err".to_string(),
                        Err(p) => format!("panic@{p}"),
                    };
                    r.insert("decoded".into(), serde_json::to_value(&l).unwrap());
                    r.insert("text".into(), json!(text));
                    r.insert("text_roundtrip".into(), json!(rt));
                }
                Ok(Err(_)) => {
                    r.insert("decoded".into(), json!("err"));
                }
                Err(p) => {
                    r.insert("decoded".into(), json!(format!("panic@{p}")));
                }
            }
        }
        results.push(Value::Object(r));
    }
    let mut texts = vec![];
    for t in case["texts"].as_array().cloned().unwrap_or_default() {
        let t = t.as_str().unwrap_or("").to_string();
        let res = guarded(|| prg.parse_arg(0, &t).map(|a| (a.as_literal(), a.as_bits())));
        texts.push(match res {
            Ok(Ok((l, bits))) => json!({"parse": "ok", "lit": serde_json::to_value(&l).unwrap(), "bits": bits_to_string(&bits)}),
            Ok(Err(_)) => json!({"parse": "err"}),
            Err(p) => json!({"parse": format!("panic@{p}")}),
        });
    }
    json!({"ok": true, "ty": ty, "defs": defs, "results": results, "texts": texts})
}
